"""C11: the receive thread's time-out clean-up walks active_requests while the transmit thread may insert a request.
run as  PYTHONPATH=<tree> python c11_cleanup_iteration.py  - exit 1 when the clean-up fails with
'dictionary changed size during iteration' (the receive thread then shuts the client down and every caller fails)"""
import sys
import threading
import time
from frappy.client import SecopClient
from frappy.lib.asynconn import ConnectionClosed


class Log:
    def __getattr__(self, name):
        return lambda *a, **k: None


errors = []
c = SecopClient('localhost:1', Log())
c.register_callback(None, handleError=lambda e: errors.append(e) or True)
victim = [('read', 'm:p', None), threading.Event(), None]
c.active_requests = {('reply', f'm{i}:value'): [None, threading.Event(), None] for i in range(300000)}
c.active_requests[('reply', 'm:p')] = victim       # found at the very end of the walk
c.cleanup = [victim]
c._running = True
stop = False


def inserter():     # what the transmit thread does for every new request
    i = 0
    while not stop:
        c.active_requests[('reply', f'new{i}')] = [None, threading.Event(), None]
        i += 1


class IO:
    def readline(self):
        raise ConnectionClosed()

    def shutdown(self):
        pass

    def disconnect(self):
        pass


c.io = IO()
c.activate = False
t = threading.Thread(target=inserter, daemon=True)
t.start()
time.sleep(0.05)
try:
    c._SecopClient__rxthread()
finally:
    stop = True
bad = [e for e in errors if 'changed size' in str(e)]
print(f'clean-up failed: {bad[0]!r}' if bad else 'ok')
sys.exit(1 if bad else 0)
