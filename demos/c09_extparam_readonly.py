"""C09 / C06: a StructParam / FloatEnumParam declared readonly=True must stay readonly on the module instance (which holds a
copy()).  run as  PYTHONPATH=<tree> python c09_extparam_readonly.py  - exit 1 when the copy lost the flag"""
import sys
from frappy.extparams import FloatEnumParam, StructParam
from frappy.core import Parameter, FloatRange
from frappy.modules import Module


class M(Module):
    rng = FloatEnumParam('range', ['100mV', '1V', '10V'], 'V', readonly=True)
    st = StructParam('struct', {'a': Parameter('a', FloatRange()), 'b': Parameter('b', FloatRange())}, readonly=True)
    rw = FloatEnumParam('range', ['100mV', '1V', '10V'], 'V')
    strw = StructParam('struct', {'c': Parameter('c', FloatRange()), 'd': Parameter('d', FloatRange())})


bad = []
for name, want in (('rng', True), ('st', True), ('rw', False), ('strw', False)):
    cls_level = M.accessibles[name].readonly
    copied = M.accessibles[name].copy().readonly
    if cls_level is not want or copied is not want:
        bad.append(f'{name}: declared readonly={want}, class level {cls_level}, copy (what a module instance gets) {copied}')
print('\n'.join(bad) or 'ok')
sys.exit(1 if bad else 0)
