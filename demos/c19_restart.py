"""after Server.restart() the old discovery responder must be shut down (the run loop creates a new one)"""
import sys
from frappy.server import Server
class Fake:
    down = False
    def shutdown(self): self.down = True
s = Server.__new__(Server)
s._restart = False
s.interfaces = {'tcp://5000': Fake()}
s.discovery = Fake()
s.restart()
assert s.interfaces['tcp://5000'].down
if not s.discovery.down:
    print('FAIL: the old UDPListener keeps answering (with the ports of the old interfaces) next to the new one'); sys.exit(1)
print('OK')
