"""a parameter described as readonly=false accepts a change (or: a configuration can not make a readonly parameter writable)"""
import sys
from frappy.modules import Readable
from frappy.core import Parameter, FloatRange
from frappy.secnode import SecNode
from frappy.protocol.dispatcher import Dispatcher
from frappy.errors import SECoPError
import frappy.secnode
frappy.secnode.get_version = lambda: 'x'

class LoggerStub:
    def debug(self, *a, **k): pass
    info = warning = error = exception = debug
    handlers = []
    def getChild(self, *a): return self
    @property
    def parent(self): return self
logger = LoggerStub()

class SrvStub:
    restart = None
    shutdown = None

    def __init__(self):
        self.node_cfg = {'equipment_id': 'x', 'description': 'd'}
        self.module_cfg = {}
        self.log = logger
        self.secnode = None

class M(Readable):
    gain = Parameter('g', FloatRange(), default=1)   # readonly by default
    def read_value(self): return 1.0

srv = SrvStub()
node = SecNode('n', logger, {}, srv)
srv.secnode = node
node.add_secnode_property('description', 'd')
disp = Dispatcher('d', logger, {}, srv)
srv.dispatcher = disp
srv.module_cfg = {'m': {'cls': M, 'description': 'x', 'gain': {'readonly': False}}}
try:
    node.create_modules()
    m = node.get_module('m')
except Exception as e:
    print('configuration refused:', repr(e)); sys.exit(0)
if node.errors:
    print('configuration refused:', node.errors); sys.exit(0)
desc = node.get_descriptive_data('')
ro = desc['modules']['m']['accessibles']['_gain']['readonly']
print('described readonly =', ro)
try:
    r = disp._setParameterValue('m', '_gain', 2.0)
    print('change accepted ->', r)
    ok = ro is False
except SECoPError as e:
    print('change refused with', e.name, e)
    ok = ro is True or e.name == 'ReadOnly'
except Exception as e:
    print('change failed with', repr(e))
    ok = False
print('OK' if ok else 'FAIL: description and behaviour disagree')
sys.exit(0 if ok else 1)
