"""the responder is disabled only when the identity alone does not fit; a heavily escaped description is truncated"""
import json, socket, sys
import frappy.protocol.discovery as d
d.get_version = lambda: 'x'
class FakeSock:
    def __init__(self, *a): pass
    def setsockopt(self, *a): pass
    def bind(self, a): pass
class FakeSocketModule:
    def __getattr__(self, k): return getattr(socket, k)
    socket = FakeSock
d.socket = FakeSocketModule()
class L:
    def __getattr__(self, k): return lambda *a, **k: None
bad = 0
for desc in ['"' * 430, '\n' * 300 + 'x' * 300, 'line\n' * 200, 'ä"' * 200, 'plain ' * 100, 'short']:
    u = d.UDPListener('eq_id', desc, ['tcp://5000'], L(), startup_broadcast=False)
    msg = u._getMessage(65535)
    ok = u.is_enabled and len(msg) <= 508 and json.loads(msg)['equipment_id'] == 'eq_id' and desc.startswith(json.loads(msg)['description'])
    print(repr(desc[:12]), len(desc), 'enabled', u.is_enabled, 'len', len(msg), 'OK' if ok else 'FAIL')
    bad += not ok
sys.exit(1 if bad else 0)
