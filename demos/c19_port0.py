"""a discovery request from source port 0 must not end the responder"""
import json, socket, sys, threading
import frappy.protocol.discovery as d
d.get_version = lambda: 'x'

class FakeSock:
    def __init__(self, *a): self.q = [(b'{"SECoP": "discover"}', ('10.0.0.1', 0)), (b'{"SECoP": "discover"}', ('10.0.0.2', 4000))]; self.sent = []
    def setsockopt(self, *a): pass
    def bind(self, a): pass
    def sendto(self, msg, addr):
        if addr[1] == 0:
            raise OSError(22, 'Invalid argument')
        self.sent.append(addr)
    def recvfrom(self, n):
        if self.q: return self.q.pop(0)
        raise socket.error('closed')
    def close(self): pass
    def shutdown(self, *a): pass

class FakeSocketModule:
    def __getattr__(self, k): return getattr(socket, k)
    socket = FakeSock
d.socket = FakeSocketModule()
class L:
    def __getattr__(self, k): return lambda *a, **k: None
u = d.UDPListener('eq', 'desc', ['tcp://5000'], L(), startup_broadcast=False)
try:
    u.run()
except OSError as e:
    print('responder thread ended with', repr(e)); sys.exit(1)
assert u.sock.sent == [('10.0.0.2', 4000)], u.sock.sent
print('OK: second request answered', u.sock.sent)
