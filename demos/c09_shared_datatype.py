"""C09: Parameter(descr, <datatype object>, max=...) must not modify the datatype object handed in.
run as  PYTHONPATH=<tree> python c09_shared_datatype.py  - exit 1 when a shared datatype object is changed"""
import sys
from frappy.datatypes import UInt16, FloatRange
from frappy.params import Parameter

before = repr(UInt16)
Parameter('a counter', UInt16, max=10)
dt = FloatRange(0, 10)
a = Parameter('a', dt, max=5)
b = Parameter('b', dt)
bad = []
if repr(UInt16) != before:
    bad.append(f'module level UInt16 changed from {before} to {UInt16!r}')
if b.datatype.max != 10:
    bad.append(f'second parameter using the same datatype object got max={b.datatype.max}')
if a.datatype.max != 5:
    bad.append(f'first parameter lost its own max: {a.datatype.max}')
print('\n'.join(bad) or 'ok')
sys.exit(1 if bad else 0)
