#!/venv/bin/python
"""maintenance helper: verify an independently written breaking change and file it under /verif/seeded/<id>/

usage: tools_seed.py <seed_out dir> <A|B> <PROP> <id> "<summary>" "<needs>"
 - applies <X>.diff to /repo (git apply), runs the pinned suite (must be baseline), runs the demo (must fail),
   runs all 20 quick checks, reverts (git checkout -- .), runs the demo on the clean tree (must pass)
 - writes /verif/seeded/<id>/{patch.diff, demo.py, meta.json, notes.md}
"""
import json, os, re, shutil, subprocess, sys
src, which, prop, sid, summary, needs = sys.argv[1:7]
rnd = int(sys.argv[7]) if len(sys.argv) > 7 else 1
patch = os.path.join(src, f'{which}.diff')
demo_src = os.path.join(src, f'{which}_demo.py')
os.makedirs('/tmp/seedrun/x', exist_ok=True)
demo = '/tmp/seedrun/x/demo.py'
shutil.copy(demo_src, demo)  # neutral place: a demo may put its own parent directory on sys.path
notes = os.path.join(src, f'{which}.md')
def sh(cmd, **kw):
    return subprocess.run(cmd, shell=True, capture_output=True, text=True, **kw)
# first-run verdicts come from a frozen copy of the committed checker when one exists (rules may be edited meanwhile)
CHECK = '/tmp/verif_frozen/check' if os.path.exists('/tmp/verif_frozen/check') else '/verif/check'
assert sh('git -C /repo status --porcelain').stdout.strip() == '', 'repo not clean'
r = sh(f'git -C /repo apply --check {patch}')
if r.returncode:
    print('PATCH DOES NOT APPLY', r.stderr); sys.exit(1)
sh(f'git -C /repo apply {patch}')
try:
    suite = sh('/verif/tools_run_suite.sh | tail -1').stdout.strip()
    base_ok = '301 passed' in suite and '7 failed' in suite and '1 error' in suite
    env = dict(os.environ, PYTHONPATH='/repo')
    d1 = subprocess.run(['/venv/bin/python', demo], capture_output=True, text=True, env=env, cwd='/repo', timeout=300)
    if 'def test_' in open(demo).read() and d1.returncode == 0 and '__main__' not in open(demo).read():
        d1 = subprocess.run(['/venv/bin/python', '-m', 'pytest', '-q', '-p', 'no:cacheprovider', demo], capture_output=True, text=True, env=env, cwd='/repo', timeout=300)
    caught = {}
    for i in range(1, 21):
        p = f'C{i:02d}'
        c = sh(f'VERIF_NO_EVIDENCE=1 /venv/bin/python {CHECK} {p}')
        if c.returncode != 0:
            keys = [l.strip() for l in c.stdout.splitlines() if l.startswith('  C') or l.startswith('ANALYSIS-ERROR')]
            caught[p] = {'rc': c.returncode, 'keys': keys[:6]}
finally:
    sh('git -C /repo checkout -- .')
d0 = subprocess.run(['/venv/bin/python', demo], capture_output=True, text=True, env=dict(os.environ, PYTHONPATH='/repo'), cwd='/repo', timeout=300)
if 'def test_' in open(demo).read() and '__main__' not in open(demo).read():
    d0 = subprocess.run(['/venv/bin/python', '-m', 'pytest', '-q', '-p', 'no:cacheprovider', demo], capture_output=True, text=True, env=dict(os.environ, PYTHONPATH='/repo'), cwd='/repo', timeout=300)
print('suite with change:', suite, 'baseline' if base_ok else 'NOT BASELINE')
print('demo with change rc', d1.returncode, '| demo on clean tree rc', d0.returncode)
print('caught by:', json.dumps(caught, indent=1))
valid = base_ok and d1.returncode != 0 and d0.returncode == 0
print('VALID SEED' if valid else 'INVALID SEED')
if not valid:
    print(d1.stdout[-500:], d1.stderr[-500:], d0.stdout[-300:], d0.stderr[-500:])
    sys.exit(1)
out = f'/verif/seeded/{sid}'
os.makedirs(out, exist_ok=True)
shutil.copy(patch, os.path.join(out, 'patch.diff'))
shutil.copy(demo_src, os.path.join(out, 'demo.py'))
if os.path.exists(notes):
    shutil.copy(notes, os.path.join(out, 'notes.md'))
own = caught.get(prop)
meta = {'property': prop, 'round': rnd, 'summary': summary, 'needs': needs,
        'caught_at_first_run': any(v['rc'] == 1 for v in caught.values()),
        'caught_after_strengthening': {p: [k.split(' ')[0] for k in v['keys'] if k.startswith('C')][:4] for p, v in caught.items() if v['rc'] == 1},
        'ran': ['git -C /repo apply patch.diff', '/verif/tools_run_suite.sh -> ' + suite, 'PYTHONPATH=/repo python demo.py -> rc %d with the change, rc %d without' % (d1.returncode, d0.returncode),
                'all 20 quick checks with the change applied', 'git -C /repo checkout -- .'],
        'caught_by': ', '.join(f"{p} ({'; '.join(k.split(':', 1)[0] for k in v['keys'][:3])})" for p, v in caught.items() if v['rc'] == 1) or None,
        'checks_at_seed_time': caught}
json.dump(meta, open(os.path.join(out, 'meta.json'), 'w'), indent=1)
print('filed under', out)
