#!/venv/bin/python
"""maintenance helper: regenerates the generated blocks of DESIGN.md (triage table, seeded-change table)"""
import json, os, re, subprocess, glob
D = '/verif/DESIGN.md'
s = open(D).read()
kf = json.load(open('/verif/known_findings.json'))
subj = {l.split()[0]: l.split(' ', 1)[1] for l in subprocess.check_output(['git', '-C', '/repo', 'log', '--format=%h %s']).decode().splitlines()}
rows = ['| Prop | Rule : construct | What failed (input / schedule / history) | Outcome |', '|---|---|---|---|']
for e in kf['fixed']:
    rows.append(f"| {e['property']} | `{e['key']}` | {e['what']} | fixed in `{e['commit']}` ({subj.get(e['commit'], '?')[5:]}) |")
for e in kf['findings']:
    rows.append(f"| {e['property']} | `{e['key']}` | {e['what']} - {e['demonstration']} | **known finding** |")
block = '\n'.join(rows)
s = re.sub(r'<!-- BEGIN triage -->.*?<!-- END triage -->', lambda _m: '<!-- BEGIN triage -->\n' + block + '\n<!-- END triage -->', s, flags=re.S)
# seeded table
rows = ['| Seed | Property | Change (what it needs to manifest) | Caught by | Notes |', '|---|---|---|---|---|']
for meta in sorted(glob.glob('/verif/seeded/*/meta.json')):
    m = json.load(open(meta))
    rows.append(f"| {os.path.basename(os.path.dirname(meta))} | {m['property']} | {m['summary']} ({m['needs']}) | {m.get('caught_by') or '**not caught**'} | {m.get('notes', '')} |")
seeded_block = '\n'.join(rows)
s = re.sub(r'<!-- BEGIN seeded -->.*?<!-- END seeded -->', lambda _m: '<!-- BEGIN seeded -->\n' + seeded_block + '\n<!-- END seeded -->', s, flags=re.S)
open(D, 'w').write(s)
print('ok')
