#!/venv/bin/python
"""maintenance helper: regenerates the generated blocks of DESIGN.md (triage table, seeded-change table)"""
import json, os, re, subprocess, glob
D = '/verif/DESIGN.md'
s = open(D).read()
kf = json.load(open('/verif/known_findings.json'))
subj = {l.split()[0]: l.split(' ', 1)[1] for l in subprocess.check_output(['git', '-C', '/repo', 'log', '--format=%h %s']).decode().splitlines()}
rows = ['| Prop | Rule : construct | What failed (input / schedule / history) | Outcome |', '|---|---|---|---|']
for e in kf['fixed']:
    rows.append(f"| {e['property']} | `{e['key']}` | {e['what']} | fixed in `{e['commit']}` ({subj.get(e['commit'], '?')[5:]}) |")
for e in kf['findings']:
    rows.append(f"| {e['property']} | `{e['key']}` | {e['what']} - {e['demonstration']} | **known finding** |")
block = '\n'.join(rows)
s = re.sub(r'<!-- BEGIN triage -->.*?<!-- END triage -->', lambda _m: '<!-- BEGIN triage -->\n' + block + '\n<!-- END triage -->', s, flags=re.S)
# seeded table
rows = ['| Seed | Property | Change (what it needs to manifest) | Caught by | Notes |', '|---|---|---|---|---|']
for meta in sorted(glob.glob('/verif/seeded/*/meta.json')):
    m = json.load(open(meta))
    rows.append(f"| {os.path.basename(os.path.dirname(meta))} | {m['property']} | {m['summary']} ({m['needs']}) | {m.get('caught_by') or '**not caught**'} | {m.get('notes', '')} |")
seeded_block = '\n'.join(rows)
s = re.sub(r'<!-- BEGIN seeded -->.*?<!-- END seeded -->', lambda _m: '<!-- BEGIN seeded -->\n' + seeded_block + '\n<!-- END seeded -->', s, flags=re.S)
# rule inventory as built (instances from the evidence files of the last run)
import sys
sys.path.insert(0, '/verif')
sys.dont_write_bytecode = True
import sa.rules  # noqa
from sa.core import RULES
rows = ['| Rule | What it decides | Obligations today (frozen minimum) |', '|---|---|---|']
for prop in sorted(RULES):
    try:
        ev = json.load(open(f'/verif/evidence/{prop}.json'))['coverage']['rule_instances']
    except Exception:
        ev = {}
    for r in RULES[prop]:
        inst = ev.get(r.id, {}).get('instances', '?')
        doc = ' '.join(r.doc.split())
        doc = doc if len(doc) < 230 else doc[:227] + '...'
        rows.append(f"| {r.id}{' (thorough)' if r.tier != 'quick' else ''} | {doc} | {inst} ({r.min_instances}) |")
rules_block = '\n'.join(rows)
s = re.sub(r'<!-- BEGIN rules -->.*?<!-- END rules -->', lambda _m: '<!-- BEGIN rules -->\n' + rules_block + '\n<!-- END rules -->', s, flags=re.S)
open(D, 'w').write(s)
print('ok')
