#!/bin/bash
# maintenance helper: apply one seeded patch (or any diff) to a scratch export of /repo's HEAD and run the given checks
# usage: tools_try.sh <seed id | path to diff> C01 C02 ...
p=$1; shift
[ -f "$p" ] || p=/verif/seeded/$p/patch.diff
d=$(mktemp -d); git -C /repo archive HEAD frappy | tar -x -C $d; (cd $d && patch -p1 -s -f < $p) || echo PATCH FAILED
for c in "$@"; do VERIF_REPO=$d VERIF_NO_EVIDENCE=1 VERIF_NO_SELFTEST=1 /verif/check $c | grep -E "^  C|ANALYSIS|OBLIG"; done
rm -rf $d
