#!/venv/bin/python
"""maintenance helper: apply every seeded patch to a scratch copy of /repo's packages (16 in parallel), run the 20 quick
checks on the copy, and update meta.json (caught_after_strengthening, caught_by).  The first-run verdict recorded at
filing time is never changed.  usage: tools_reeval_seeds.py [seed ids...]"""
import json, glob, os, shutil, subprocess, sys, tempfile
from concurrent.futures import ThreadPoolExecutor
only = set(sys.argv[1:])

def one(meta):
    d = os.path.dirname(meta); sid = os.path.basename(d)
    m = json.load(open(meta))
    base = tempfile.mkdtemp(prefix='seed-reeval-')
    try:
        shutil.copytree('/repo/frappy', os.path.join(base, 'frappy'), ignore=shutil.ignore_patterns('__pycache__', 'gui'))
        r = subprocess.run(['patch', '-p1', '-s', '-f', '--no-backup-if-mismatch', '-i', os.path.join(d, 'patch.diff')], cwd=base, capture_output=True, text=True)
        if r.returncode:
            return sid, m, None, 'patch does not apply: ' + r.stdout[:200]
        caught = {}
        env = dict(os.environ, VERIF_REPO=base, VERIF_NO_EVIDENCE='1', PYTHONDONTWRITEBYTECODE='1')
        for i in range(1, 21):
            p = f'C{i:02d}'
            c = subprocess.run(['/venv/bin/python', '/verif/check', p], env=env, capture_output=True, text=True)
            if c.returncode == 1:
                caught[p] = [l.strip().split(' ')[0] for l in c.stdout.splitlines() if l.startswith('  C')][:4]
        return sid, m, caught, ''
    finally:
        shutil.rmtree(base, ignore_errors=True)

metas = [x for x in sorted(glob.glob('/verif/seeded/*/meta.json')) if not only or os.path.basename(os.path.dirname(x)) in only]
tot = first = after = 0
with ThreadPoolExecutor(max_workers=16) as ex:
    for sid, m, caught, err in ex.map(one, metas):
        if caught is None:
            print('FAILED', sid, err); continue
        m['caught_after_strengthening'] = caught
        m['caught_by'] = ', '.join(f"{p} ({'; '.join(sorted({k.split(':')[0] for k in v}))})" for p, v in caught.items()) or None
        json.dump(m, open(f'/verif/seeded/{sid}/meta.json', 'w'), indent=1)
        tot += 1; first += bool(m.get('caught_at_first_run')); after += bool(caught)
        print(sid, 'round', m.get('round'), 'first-run' if m.get('caught_at_first_run') else 'later', '|', m['caught_by'])
print(f'{tot} seeds: {first} caught at first run, {after} caught now')
