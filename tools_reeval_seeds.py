#!/venv/bin/python
"""maintenance helper: apply every seeded patch to /repo in turn, run the 20 quick checks, undo, and update
meta.json (caught_after_strengthening, caught_by).  The first-run verdict recorded at filing time is never changed."""
import json, glob, os, subprocess, sys
def sh(c): return subprocess.run(c, shell=True, capture_output=True, text=True)
only = set(sys.argv[1:])
tot = first = after = 0
for meta in sorted(glob.glob('/verif/seeded/*/meta.json')):
    d = os.path.dirname(meta); sid = os.path.basename(d)
    m = json.load(open(meta))
    if only and sid not in only:
        continue
    assert sh('git -C /repo status --porcelain').stdout.strip() == '', 'repo not clean'
    r = sh(f'git -C /repo apply {d}/patch.diff')
    if r.returncode:
        print('APPLY FAILED', sid, r.stderr.strip()); continue
    caught = {}
    try:
        for i in range(1, 21):
            p = f'C{i:02d}'
            c = sh(f'VERIF_NO_EVIDENCE=1 /venv/bin/python /verif/check {p}')
            if c.returncode == 1:
                caught[p] = [l.strip().split(' ')[0] for l in c.stdout.splitlines() if l.startswith('  C')][:4]
    finally:
        sh('git -C /repo checkout -- .')
    m['caught_after_strengthening'] = caught
    m['caught_by'] = ', '.join(f"{p} ({'; '.join(sorted({k.split(':')[0] for k in v}))})" for p, v in caught.items()) or None
    json.dump(m, open(meta, 'w'), indent=1)
    tot += 1; first += bool(m.get('caught_at_first_run')); after += bool(caught)
    print(sid, 'round', m.get('round'), 'first-run' if m.get('caught_at_first_run') else 'later', '|', m['caught_by'])
print(f'{tot} seeds: {first} caught at first run, {after} caught now')
