#!/venv/bin/python
"""maintenance helper (never used by checks): add an entry to known_findings.json
usage: tools_kf.py fixed <prop> <key> <commit-subject-prefix> <what>
       tools_kf.py finding <prop> <key> <what> <demonstration>"""
import json, subprocess, sys
p = '/verif/known_findings.json'
d = json.load(open(p))
kind, prop, key = sys.argv[1:4]
if kind == 'fixed':
    prefix, what = sys.argv[4:6]
    log = subprocess.check_output(['git', '-C', '/repo', 'log', '--format=%h %s']).decode().splitlines()
    sha = [l.split()[0] for l in log if l.split(' ', 1)[1].startswith(prefix)]
    assert len(sha) == 1, (prefix, sha)
    d['fixed'] = [e for e in d['fixed'] if e['key'] != key]
    d['fixed'].append({'property': prop, 'commit': sha[0], 'key': key, 'what': what})
else:
    what, demo = sys.argv[4:6]
    d['findings'] = [e for e in d['findings'] if e['key'] != key]
    d['findings'].append({'property': prop, 'key': key, 'what': what, 'demonstration': demo})
json.dump(d, open(p, 'w'), indent=1)
print('ok', len(d['findings']), 'findings', len(d['fixed']), 'fixed')
