#!/venv/bin/python
"""maintenance helper: mutation analysis OF THE CHECKER (not a registered check; nothing in MANIFEST.json calls it).

For a property P, every function that P's rules analysed on the last run (evidence/<P>.json: functions_analysed) is
mutated by single syntactic edits (statement deletion, negated condition, comparison boundary, lock removal, dropped
operand, narrowed handler, dropped copy/clamp call, flipped boolean constant, swapped neighbours).  Every mutant that
still compiles is written into a scratch copy of /repo's frappy package (under $TMPDIR, removed at the end) and P's
quick check runs on the copy.  A mutant the check does not notice is a SURVIVOR.  With --suite the survivors are also
run through the pinned test suite (known failures deselected, -x) on full scratch copies; what survives both is the
triage list: either an equivalent mutant, or behaviour outside the property, or a gap in the rules.

usage: tools_mutants.py [--suite] [--ops DEL,NEG,...] [--out DIR] C01 C02 ...
"""
import ast
import json
import os
import queue
import shutil
import subprocess
import sys
import tempfile
from concurrent.futures import ThreadPoolExecutor

REPO = '/tmp/mut_clean'      # a clean export of /repo's HEAD (git archive), made by main()
VERIF = os.path.dirname(os.path.abspath(__file__))
JOBS = int(os.environ.get("VERIF_JOBS", "16"))

CMP = {ast.Lt: ('<', '<='), ast.LtE: ('<=', '<'), ast.Gt: ('>', '>='), ast.GtE: ('>=', '>'), ast.Eq: ('==', '!='),
       ast.NotEq: ('!=', '=='), ast.Is: ('is', 'is not'), ast.IsNot: ('is not', 'is'), ast.In: ('in', 'not in'),
       ast.NotIn: ('not in', 'in')}
UNWRAP = {'tuple', 'list', 'dict', 'set', 'sorted', 'frozenset', 'float', 'int', 'str', 'bool', 'round', 'abs'}


class Src:
    def __init__(self, path):
        self.path = path
        self.data = open(path, 'rb').read()
        self.lines = self.data.split(b'\n')
        self.offs = [0]
        for l in self.lines:
            self.offs.append(self.offs[-1] + len(l) + 1)
        self.tree = ast.parse(self.data)

    def pos(self, line, col):
        return self.offs[line - 1] + col

    def span(self, node):
        return self.pos(node.lineno, node.col_offset), self.pos(node.end_lineno, node.end_col_offset)

    def text(self, node):
        a, b = self.span(node)
        return self.data[a:b].decode()

    def replace(self, a, b, new):
        return self.data[:a] + new.encode() + self.data[b:]


def functions(src, modname):
    """qualified name -> FunctionDef (top level functions, methods; nested defs belong to their parent)"""
    res = {}

    def rec(body, prefix):
        for n in body:
            if isinstance(n, (ast.FunctionDef, ast.AsyncFunctionDef)):
                res[f'{prefix}.{n.name}'] = n
            elif isinstance(n, ast.ClassDef):
                rec(n.body, f'{prefix}.{n.name}')
            elif isinstance(n, (ast.If, ast.Try)):
                rec(getattr(n, 'body', []), prefix)
                rec(getattr(n, 'orelse', []), prefix)
    rec(src.tree.body, modname)
    return res


def stmts_of(fn):
    for n in ast.walk(fn):
        for field in ('body', 'orelse', 'finalbody'):
            lst = getattr(n, field, None)
            if isinstance(lst, list) and lst and isinstance(lst[0], ast.stmt):
                yield lst
        if isinstance(n, ast.Try):
            for h in n.handlers:
                pass  # handler bodies are reached through ast.walk (ExceptHandler has .body)


def names_stored(node):
    return {n.id for n in ast.walk(node) if isinstance(n, ast.Name) and isinstance(n.ctx, (ast.Store, ast.Del))}


def names_loaded(node):
    return {n.id for n in ast.walk(node) if isinstance(n, ast.Name) and isinstance(n.ctx, ast.Load)}


def is_doc(stmt):
    return isinstance(stmt, ast.Expr) and isinstance(stmt.value, ast.Constant) and isinstance(stmt.value.value, str)


def simple(stmt):
    return isinstance(stmt, (ast.Expr, ast.Assign, ast.AugAssign, ast.AnnAssign, ast.Raise, ast.Delete, ast.Return,
                             ast.Continue, ast.Break)) and not is_doc(stmt)


def mutants(src, fn, ops):
    """yield (op, line, description, new file bytes)"""
    store_count = {}
    for n in ast.walk(fn):
        if isinstance(n, ast.Name) and isinstance(n.ctx, ast.Store):
            store_count[n.id] = store_count.get(n.id, 0) + 1
    loaded = names_loaded(fn)

    def desc(node, new):
        old = src.text(node).split('\n')[0][:90]
        return f'{old}  ==>  {new[:90]}'

    for lst in stmts_of(fn):
        for i, st in enumerate(lst):
            if 'DEL' in ops and simple(st):
                skip = False
                if isinstance(st, (ast.Assign, ast.AnnAssign)):
                    tg = st.targets if isinstance(st, ast.Assign) else [st.target]
                    nm = set().union(*[names_stored(t) for t in tg])
                    pure_names = all(isinstance(t, (ast.Name, ast.Tuple)) for t in tg)
                    if pure_names and any(store_count.get(x, 0) <= 1 and x in loaded for x in nm):
                        skip = True   # deleting the only definition of a used local is a NameError, not a realistic change
                if not skip:
                    a, b = src.span(st)
                    if isinstance(st, ast.Return):
                        if st.value is not None and not (isinstance(st.value, ast.Constant) and st.value.value is None):
                            yield 'DEL', st.lineno, desc(st, 'return None'), src.replace(a, b, 'return None')
                    else:
                        yield 'DEL', st.lineno, desc(st, 'pass'), src.replace(a, b, 'pass')
            if 'SWAP' in ops and i + 1 < len(lst):
                nx = lst[i + 1]
                if isinstance(st, (ast.Expr, ast.Assign, ast.AugAssign)) and isinstance(nx, (ast.Expr, ast.Assign, ast.AugAssign)) \
                        and not is_doc(st) and not is_doc(nx) and st.col_offset == nx.col_offset:
                    if not (names_stored(st) & (names_loaded(nx) | names_stored(nx))) and not (names_stored(nx) & names_loaded(st)):
                        a, b = src.span(st)
                        c, d = src.span(nx)
                        new = src.data[:a] + src.data[c:d] + src.data[b:c] + src.data[a:b] + src.data[d:]
                        yield 'SWAP', st.lineno, desc(st, '<swapped with next> ' + src.text(nx).split('\n')[0][:60]), new
            if 'UNLOCK' in ops and isinstance(st, ast.With) and len(st.items) == 1:
                t = src.text(st.items[0].context_expr)
                if 'lock' in t.lower() and st.items[0].optional_vars is None:
                    a = src.pos(st.lineno, st.col_offset)
                    b = src.span(st.items[0].context_expr)[1]
                    yield 'UNLOCK', st.lineno, f'with {t}:  ==>  if True:', src.replace(a, b, 'if True')
    for n in ast.walk(fn):
        if 'NEG' in ops and isinstance(n, (ast.If, ast.While, ast.IfExp)):
            if isinstance(n, ast.While) and isinstance(n.test, ast.Constant):
                continue
            a, b = src.span(n.test)
            yield 'NEG', n.test.lineno, desc(n.test, f'not ({src.text(n.test)})'), src.replace(a, b, f'(not ({src.text(n.test)}))')
        if 'CMP' in ops and isinstance(n, ast.Compare):
            left = n.left
            for op, right in zip(n.ops, n.comparators):
                old, new = CMP[type(op)]
                a = src.span(left)[1]
                b = src.span(right)[0]
                between = src.data[a:b].decode()
                # parentheses may sit between; replace the operator token only
                idx = between.find(old)
                if idx >= 0:
                    nb = between[:idx] + new + between[idx + len(old):]
                    yield 'CMP', n.lineno, desc(n, f'{old} -> {new}'), src.replace(a, b, nb)
                left = right
        if 'BOOL' in ops and isinstance(n, ast.BoolOp):
            for k, v in enumerate(n.values):
                rest = [x for j, x in enumerate(n.values) if j != k]
                joiner = ' and ' if isinstance(n.op, ast.And) else ' or '
                new = '(' + joiner.join('(' + src.text(x) + ')' for x in rest) + ')'
                a, b = src.span(n)
                yield 'BOOL', n.lineno, desc(n, f'drop operand {src.text(v)[:40]}'), src.replace(a, b, new)
        if 'EXC' in ops and isinstance(n, ast.ExceptHandler):
            if n.type is not None:
                a, b = src.span(n.type)
                yield 'EXC', n.lineno, desc(n.type, 'ZeroDivisionError'), src.replace(a, b, 'ZeroDivisionError')
        if 'UNCALL' in ops and isinstance(n, ast.Call):
            a, b = src.span(n)
            f = n.func
            if isinstance(f, ast.Attribute) and f.attr in ('copy', 'strip', 'lower') and not n.args and not n.keywords:
                yield 'UNCALL', n.lineno, desc(n, src.text(f.value)), src.replace(a, b, '(' + src.text(f.value) + ')')
            elif isinstance(f, ast.Name) and f.id in UNWRAP and len(n.args) == 1 and not n.keywords \
                    and not isinstance(n.args[0], (ast.GeneratorExp, ast.Starred)):
                yield 'UNCALL', n.lineno, desc(n, src.text(n.args[0])), src.replace(a, b, '(' + src.text(n.args[0]) + ')')
            elif isinstance(f, ast.Name) and f.id in ('min', 'max', 'clamp') and len(n.args) >= 2 and not n.keywords:
                for arg in n.args:
                    if not isinstance(arg, ast.Starred):
                        yield 'UNCALL', n.lineno, desc(n, src.text(arg)), src.replace(a, b, '(' + src.text(arg) + ')')
        # ---- behaviour-preserving rewrites (ops EQ*): every alarm on one of these is a FALSE alarm of the checker
        if 'EQFLIP' in ops and isinstance(n, ast.If) and n.orelse and not (len(n.orelse) == 1 and isinstance(n.orelse[0], ast.If) and n.orelse[0].col_offset == n.col_offset):
            # if c: A else: B  ->  if not (c): B else: A      (plain else only, elif chains are left alone)
            a0 = src.pos(n.lineno, n.col_offset)
            b0, b1 = src.span(n.body[0])[0], src.span(n.body[-1])[1]
            o0, o1 = src.span(n.orelse[0])[0], src.span(n.orelse[-1])[1]
            ta, tb = src.span(n.test)
            head = src.data[a0:ta] + b'not (' + src.data[ta:tb] + b')' + src.data[tb:b0]
            mid = src.data[b1:o0]
            new = src.data[:a0] + head + src.data[o0:o1] + mid + src.data[b0:b1] + src.data[o1:]
            yield 'EQFLIP', n.lineno, desc(n.test, 'branches swapped under not (...)'), new
        if 'EQNOT' in ops and isinstance(n, ast.Compare) and len(n.ops) == 1 and isinstance(n.ops[0], (ast.IsNot, ast.NotIn, ast.NotEq)):
            a, b = src.span(n)
            pos = {ast.IsNot: 'is', ast.NotIn: 'in', ast.NotEq: '=='}[type(n.ops[0])]
            yield 'EQNOT', n.lineno, desc(n, f'not (... {pos} ...)'), src.replace(a, b, f'(not ({src.text(n.left)} {pos} {src.text(n.comparators[0])}))')
        if 'EQSWAP' in ops and isinstance(n, ast.Compare) and len(n.ops) == 1 and isinstance(n.ops[0], (ast.Lt, ast.LtE, ast.Gt, ast.GtE, ast.Eq, ast.NotEq)) \
                and not any(isinstance(x, (ast.Call, ast.Await, ast.Yield)) for x in ast.walk(n)):
            a, b = src.span(n)
            rev = {ast.Lt: '>', ast.LtE: '>=', ast.Gt: '<', ast.GtE: '<=', ast.Eq: '==', ast.NotEq: '!='}[type(n.ops[0])]
            yield 'EQSWAP', n.lineno, desc(n, 'operands swapped'), src.replace(a, b, f'(({src.text(n.comparators[0])}) {rev} ({src.text(n.left)}))')
        if 'EQDM' in ops and isinstance(n, (ast.If, ast.While)) and isinstance(n.test, ast.BoolOp):
            t = n.test
            inner = ' or ' if isinstance(t.op, ast.And) else ' and '
            a, b = src.span(t)
            yield 'EQDM', n.lineno, desc(t, 'De Morgan'), src.replace(a, b, '(not (' + inner.join(f'(not ({src.text(v)}))' for v in t.values) + '))')
        if 'EQCHAIN' in ops and isinstance(n, ast.Compare) and len(n.ops) == 2 and not any(isinstance(x, (ast.Call, ast.Await)) for x in ast.walk(n.comparators[0])):
            a, b = src.span(n)
            opt = {ast.Lt: '<', ast.LtE: '<=', ast.Gt: '>', ast.GtE: '>=', ast.Eq: '==', ast.NotEq: '!=', ast.Is: 'is', ast.IsNot: 'is not', ast.In: 'in', ast.NotIn: 'not in'}
            m0 = src.text(n.comparators[0])
            yield 'EQCHAIN', n.lineno, desc(n, 'chain split'), src.replace(a, b, f'(({src.text(n.left)} {opt[type(n.ops[0])]} {m0}) and ({m0} {opt[type(n.ops[1])]} {src.text(n.comparators[1])}))')
        if 'CONST' in ops and isinstance(n, ast.Constant) and isinstance(n.value, bool):
            a, b = src.span(n)
            yield 'CONST', n.lineno, desc(n, str(not n.value)), src.replace(a, b, str(not n.value))
        if 'CONST' in ops and isinstance(n, ast.Constant) and type(n.value) is int and n.value in (0, 1):
            a, b = src.span(n)
            yield 'CONST', n.lineno, desc(n, str(1 - n.value)), src.replace(a, b, str(1 - n.value))


def gather(prop, ops):
    ev = json.load(open(os.path.join(VERIF, 'evidence', f'{prop}.json')))
    want = set(ev['coverage']['functions_analysed'])
    byfile = {}
    for q in want:
        parts = q.split('.')
        # longest module prefix that is a file
        for k in range(len(parts), 0, -1):
            p = os.path.join(REPO, *parts[:k]) + '.py'
            p2 = os.path.join(REPO, *parts[:k], '__init__.py')
            if os.path.exists(p):
                byfile.setdefault(p, set()).add(q); break
            if os.path.exists(p2):
                byfile.setdefault(p2, set()).add(q); break
    res = []
    for path, quals in sorted(byfile.items()):
        src = Src(path)
        rel = os.path.relpath(path, REPO)
        modname = rel[:-3].replace('/', '.')
        if modname.endswith('.__init__'):
            modname = modname[:-9]
        fns = functions(src, modname)
        for q in sorted(quals):
            fn = fns.get(q)
            if fn is None:
                # private name mangling / nested: try suffix match
                cands = [k for k in fns if k.split('.')[-1] == q.split('.')[-1] and k.split('.')[:-1] == q.split('.')[:-1]]
                fn = fns.get(cands[0]) if cands else None
            if fn is None:
                continue
            seen = set()
            for op, line, d, new in mutants(src, fn, ops):
                if new == src.data or new in seen:
                    continue
                seen.add(new)
                try:
                    compile(new, path, 'exec')
                except (SyntaxError, ValueError):
                    continue
                res.append({'prop': prop, 'file': rel, 'func': q, 'op': op, 'line': line, 'desc': d, 'new': new})
    return res


def run_checks(muts):
    dirs = queue.Queue()
    made = []
    for _ in range(JOBS):
        base = tempfile.mkdtemp(prefix='mutant-')
        shutil.copytree(os.path.join(REPO, 'frappy'), os.path.join(base, 'frappy'), ignore=shutil.ignore_patterns('__pycache__', 'gui'))
        made.append(base)
        dirs.put(base)

    def one(m):
        base = dirs.get()
        target = os.path.join(base, m['file'])
        orig = open(target, 'rb').read()
        try:
            open(target, 'wb').write(m['new'])
            env = dict(os.environ, VERIF_REPO=base, VERIF_NO_EVIDENCE='1', VERIF_NO_SELFTEST='1', PYTHONDONTWRITEBYTECODE='1')
            c = subprocess.run(['/venv/bin/python', os.path.join(VERIF, 'check'), m['prop']], env=env, capture_output=True, text=True)
            m['rc'] = c.returncode
            m['keys'] = [l.strip().split(' ')[0] for l in c.stdout.splitlines() if l.startswith('  C')][:3]
            if c.returncode == 2:
                m['keys'] = [l.strip()[:160] for l in c.stdout.splitlines() if 'ANALYSIS' in l][:2]
        finally:
            open(target, 'wb').write(orig)
            dirs.put(base)
        return m
    try:
        with ThreadPoolExecutor(max_workers=JOBS) as ex:
            return list(ex.map(one, muts))
    finally:
        for d in made:
            shutil.rmtree(d, ignore_errors=True)


def run_neighbours(muts):
    """for mutants nobody noticed so far: does the check of another property notice them?"""
    dirs = queue.Queue()
    made = []
    for _ in range(JOBS):
        base = tempfile.mkdtemp(prefix='mutant-')
        shutil.copytree(os.path.join(REPO, 'frappy'), os.path.join(base, 'frappy'), ignore=shutil.ignore_patterns('__pycache__', 'gui'))
        made.append(base)
        dirs.put(base)

    def one(m):
        base = dirs.get()
        target = os.path.join(base, m['file'])
        orig = open(target, 'rb').read()
        try:
            open(target, 'wb').write(m['new'])
            env = dict(os.environ, VERIF_REPO=base, VERIF_NO_EVIDENCE='1', VERIF_NO_SELFTEST='1', PYTHONDONTWRITEBYTECODE='1')
            m['others'] = []
            for i in range(1, 21):
                q = f'C{i:02d}'
                if q != m['prop']:
                    c2 = subprocess.run(['/venv/bin/python', os.path.join(VERIF, 'check'), q], env=env, capture_output=True, text=True)
                    if c2.returncode != 0:
                        m['others'].append(q)
        finally:
            open(target, 'wb').write(orig)
            dirs.put(base)
        return m
    try:
        with ThreadPoolExecutor(max_workers=JOBS) as ex:
            return list(ex.map(one, muts))
    finally:
        for d in made:
            shutil.rmtree(d, ignore_errors=True)


KNOWN_FAIL_FILE = os.path.join(VERIF, 'selftest', 'suite_known_failures.txt')


def known_failures():
    if os.path.exists(KNOWN_FAIL_FILE):
        return open(KNOWN_FAIL_FILE).read().split()
    r = subprocess.run('/venv/bin/python -m pytest -q -p no:cacheprovider --timeout=900 --continue-on-collection-errors -rfE 2>&1 | grep -E "^(FAILED|ERROR) "',
                       shell=True, cwd=REPO, capture_output=True, text=True)
    ids = [l.split(' ')[1] for l in r.stdout.splitlines()]
    open(KNOWN_FAIL_FILE, 'w').write('\n'.join(ids) + '\n')
    return ids


def run_suite(muts):
    kf = known_failures()
    desel = []
    for t in kf:
        if '::' in t:
            desel += ['--deselect', t]
        else:
            desel += ['--ignore', t]
    dirs = queue.Queue()
    made = []
    for _ in range(JOBS):
        base = tempfile.mkdtemp(prefix='mutsuite-')
        shutil.copytree(REPO, os.path.join(base, 'r'), ignore=shutil.ignore_patterns('__pycache__', '.git', 'doc', 'debian', 'resources'))
        made.append(base)
        dirs.put(base)

    def one(m):
        base = dirs.get()
        target = os.path.join(base, 'r', m['file'])
        orig = open(target, 'rb').read()
        try:
            open(target, 'wb').write(m['new'])
            env = dict(os.environ, PYTHONDONTWRITEBYTECODE='1')
            try:
                c = subprocess.run(['/venv/bin/python', '-m', 'pytest', '-x', '-q', '-p', 'no:cacheprovider', '--timeout=120'] + desel,
                                   cwd=os.path.join(base, 'r'), env=env, capture_output=True, text=True, timeout=900)
                m['suite'] = 'pass' if c.returncode == 0 else 'killed'
                if c.returncode != 0:
                    m['suite_by'] = [l for l in c.stdout.splitlines() if l.startswith(('FAILED', 'ERROR'))][:1]
            except subprocess.TimeoutExpired:
                m['suite'] = 'killed'
                m['suite_by'] = ['timeout']
        finally:
            open(target, 'wb').write(orig)
            dirs.put(base)
        return m
    try:
        with ThreadPoolExecutor(max_workers=JOBS) as ex:
            return list(ex.map(one, muts))
    finally:
        for d in made:
            shutil.rmtree(d, ignore_errors=True)


def main():
    args = sys.argv[1:]
    suite = '--suite' in args
    neighbours = '--noneighbours' not in args
    equiv = '--equiv' in args
    ops = {'DEL', 'NEG', 'CMP', 'UNLOCK', 'BOOL', 'EXC', 'UNCALL', 'CONST', 'SWAP'}
    out = '/tmp/mutants'
    props = []
    it = iter(args)
    for a in it:
        if a in ('--suite', '--noneighbours', '--equiv'):
            continue
        if a == '--ops':
            ops = set(next(it).split(','))
        elif a == '--out':
            out = next(it)
        else:
            props.append(a)
    if equiv:
        ops = {'EQFLIP', 'EQNOT', 'EQSWAP', 'EQDM', 'EQCHAIN'}
        neighbours = False
    os.makedirs(out, exist_ok=True)
    shutil.rmtree(REPO, ignore_errors=True)
    os.makedirs(REPO)
    subprocess.run(f'git -C /repo archive HEAD | tar -x -C {REPO}', shell=True, check=True)
    for prop in props or [f'C{i:02d}' for i in range(1, 21)]:
        muts = gather(prop, ops)
        res = run_checks(muts)
        surv = [m for m in res if m['rc'] == 0]
        if suite:
            run_suite(surv)
        n = len(res)
        c1 = sum(m['rc'] == 1 for m in res)
        c2 = sum(m['rc'] == 2 for m in res)
        final = [m for m in surv if not suite or m.get('suite') == 'pass']
        if neighbours:
            run_neighbours(final)
        if equiv:
            print(f'{prop}: {n} behaviour-preserving rewrites, FALSE ALARMS {c1}, analysis errors {c2}')
            for m in res:
                if m['rc'] != 0:
                    print(f"    {m['file']}:{m['line']} {m['func'].split('.')[-1]} {m['op']}: {m['desc'][:110]}  -> {m['keys'][:2]}")
        print(f'{prop}: {n} mutants, caught {c1}, analysis-error {c2}, survived check {len(surv)}' +
              (f', survived check and suite {len(final)}' if suite else ''))
        for m in res:
            m.pop('new', None)
        json.dump(res, open(os.path.join(out, f'{prop}.json'), 'w'), indent=1)
        with open(os.path.join(out, f'{prop}.survivors.txt'), 'w') as f:
            last = None
            for m in sorted(final, key=lambda m: (m['file'], m['func'], m['line'], m['op'])):
                if m['func'] != last:
                    f.write(f"\n== {m['func']}  ({m['file']})\n")
                    last = m['func']
                f.write(f"  {m['line']:5d} {m['op']:6s} {m['desc']}" + (f"    [noticed by {','.join(m['others'])}]" if m.get('others') else '') + "\n")


if __name__ == '__main__':
    main()
