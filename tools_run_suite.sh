#!/bin/bash
# runs the pinned suite on a tree (default /repo) and compares with the baseline: prints PASS/FAIL summary
tree=${1:-/repo}
cd "$tree" && /venv/bin/python -m pytest -q -p no:cacheprovider --timeout=900 --continue-on-collection-errors 2>&1 | tail -12
