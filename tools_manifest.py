#!/venv/bin/python
"""maintenance helper: (re)generates MANIFEST.json from the rule registry (never used by checks)"""
import json, os, sys
sys.path.insert(0, '/verif')
sys.dont_write_bytecode = True
import sa.rules  # noqa
from sa.core import RULES, PROP_INFO

TECH = {
 'C01': 'raw-value typestate (forward dataflow over a CFG with exception edges) + handler coverage + reaching definitions',
 'C02': 'abstract return-kind inference, delegation resolver over the AST, constant-folded kind table',
 'C03': 'table agreement (Property declarations vs. DATATYPES lambda signatures), provenance of constructor arguments, CFG fall-through',
 'C04': 'must-pass-through dominance chain on the CFG + flow-sensitive def-use (reaching definitions) of the value handed to the driver',
 'C05': 'who-may-write analysis of cache fields, lock-region coverage, CFG reachability over exception edges',
 'C06': 'table agreement of export keys, dominance of export tests, return-shape and representation (transport/internal) provenance',
 'C07': 'exception containment and exactly-one-reply by CFG reachability-with-avoidance, constant folding of the request->reply table',
 'C08': 'dominance (register before snapshot), lock-region coverage, container add/remove set agreement',
 'C09': 'copy-before-mutate typestate, attribute resolution over the class hierarchy (no-member), class-level mutable scan',
 'C10': 'error-sink discipline of handlers, dominance / post-dominance on the CFG',
 'C11': 'thread-entry x shared-field access table with lock regions (atomicity), drain discipline, time-out arguments',
 'C12': 'who-may-write on the client cache, callback multiplicity, dominance in the receive loop, constant-folded message table',
 'C13': 'exception containment with handler resolution, poll-flag dominance, store/trigger pairing, declared-datatype lookup for divisors',
 'C14': 'loop-shape / recursion check, containment, lock-region coverage, who-may-write on machine state',
 'C15': 'dominance chains, collection-domain agreement of init/start loops, path-sensitive None-ness typestate (start callback exactly once)',
 'C16': 'path-sensitive (powerset) typestate flush->send->receive inside lock regions, dead-store/guard pairing, cycle-must-pass-deadline check',
 'C17': 'who-may-write on the target file, dominance of rename over acknowledge, RAW/DICT typestate of the loaded JSON',
 'C18': 'class predicate (order-checking pair type) + comparison normaliser, provenance of derived value, store/callback pairing',
 'C19': 'RAW/DICT typestate of the datagram value with short-circuit facts, handler coverage, branch-polarity reachability',
 'C20': 'comparison normaliser with branch polarity, call-graph reach of reset paths, slice abstract domain (oldest-prefix / newest-suffix)',
}
SIDE = '; side-of-test reachability (the refusing / selecting side of each decisive test is computed from the normalised comparison and must never complete normally / must hold the action), no-fall-through exits'
for _p in ('C01', 'C03', 'C04', 'C05', 'C06', 'C07', 'C08', 'C10', 'C11', 'C12', 'C13', 'C14', 'C15', 'C16', 'C18', 'C19'):
    TECH[_p] += SIDE
ids = [json.loads(l)['id'] for l in open('/verif/properties.jsonl')]
checks = []
for pid in ids:
    info = PROP_INFO[pid]
    rules = [r.id for r in RULES[pid]]
    checks.append({
        'property_id': pid,
        'quick_cmd': f'/venv/bin/python /verif/check {pid} --tier quick',
        'thorough_cmd': f'/venv/bin/python /verif/check {pid} --tier thorough',
        'evidence_file': f'/verif/evidence/{pid}.json',
        'replay_cmd_template': f'/venv/bin/python /verif/check {pid} --explain {{path}}',
        'engine': 'sa',
        'level_claimed': {
            'category': 'other',
            'text': 'Static analysis of /repo\'s current source (never executed): structural NECESSARY conditions of the property, decided for '
                    'every input/schedule/history at once; the behaviour itself is not decided. Rules ' + ', '.join(rules) + '. ' + info['explanation']
                    + ' NOT decided: ' + info['not_decided'],
            'design_ref': f'DESIGN.md section 4 ({pid}) and section 12',
        },
        'level_note': 'trusted base: CPython ast parser, /verif/sa (model with name/MRO resolution, CFG with exception edges, dataflow), the idiom tables in the '
                      'rules; name-based call resolution without types; a construct no idiom table knows is counted as undecided and never alarms; '
                      'a vanished anchor is exit 2. Assumptions: ' + '; '.join(info['assumptions'] or ['none beyond the trusted base']),
        'technique': TECH[pid],
    })
m = {
 'version': 1,
 'setup_cmd': 'true',
 'hooks': {'guard': 'FRAPPY_VERIF', 'enable': 'none: static analysis reads the sources of /repo, there are no hooks or instrumentation',
           'baseline_off_cmd': 'cd /repo && /venv/bin/python -m pytest -ra -q -p no:cacheprovider --timeout=900 --continue-on-collection-errors',
           'source_commits': [], 'add_only': True},
 'engines': [{'name': 'sa', 'path': '/verif/sa', 'serves_properties': ids,
              'kind_free_text': 'repository-specific static analysis: ast program model, CFG with exception edges, typestate / reaching-definition dataflow, lock regions, table agreement'}],
 'checks': checks,
 'not_applicable': [],
 'notes': 'Every property is claimed partially (level other): the decided clauses are necessary conditions visible in the shape of the code; declined clauses are listed per '
          'property in level_claimed.text and DESIGN.md section 8. Genuine defects found were repaired by fix: commits in /repo or recorded in /verif/known_findings.json.',
}
json.dump(m, open('/verif/MANIFEST.json', 'w'), indent=1)
print('written', len(checks), 'checks')
