"""Self-test corpus: single edits of the real source (text anchors are looked up in the CURRENT /repo; an anchor that
is gone makes the variant 'skipped', never a failure).

firing: the check of `prop` must report a violation whose line contains `expect`
silent: behaviour-preserving rewrite, the check must stay silent
"""

V = []


def firing(id_, prop, file, old, new, expect):
    V.append({'id': id_, 'prop': prop, 'kind': 'firing', 'file': file, 'old': old, 'new': new, 'expect': expect})


def silent(id_, prop, file, old, new):
    V.append({'id': id_, 'prop': prop, 'kind': 'silent', 'file': file, 'old': old, 'new': new})


MB = 'frappy/modulebase.py'
DP = 'frappy/protocol/dispatcher.py'
DTY = 'frappy/datatypes.py'
HD = 'frappy/protocol/interface/handler.py'
TCP = 'frappy/protocol/interface/tcp.py'
IF = 'frappy/protocol/interface/__init__.py'
CL = 'frappy/client/__init__.py'
IO = 'frappy/io.py'
AC = 'frappy/lib/asynconn.py'
PS = 'frappy/persistent.py'
SM = 'frappy/lib/statemachine.py'
SN = 'frappy/secnode.py'
SV = 'frappy/server.py'
DS = 'frappy/protocol/discovery.py'
LG = 'frappy/logging.py'
PA = 'frappy/params.py'
PR = 'frappy/properties.py'
MX = 'frappy/mixins.py'
MO = 'frappy/modules.py'
EX = 'frappy/extparams.py'

# ------------------------------------------------------------------ C01
firing('c01-blob-guard-dropped', 'C01', DTY,
       "        if not isinstance(value, bytes):\n            raise WrongTypeError(f'{shortrepr(value)} must be of type bytes')\n        size = len(value)",
       "        size = len(value)", 'BLOBType.__call__:len on value')
firing('c01-probe-replaced-by-float', 'C01', DTY,
       "    def __call__(self, value):\n        \"\"\"accepts floats, integers and booleans, but not strings\"\"\"\n        try:\n            value += 0.0  # do not accept strings here\n        except Exception:\n            try:\n                if not generalConfig.lazy_number_validation:\n                    raise\n                value = float(value)\n            except Exception:\n                raise WrongTypeError(f'can not convert {shortrepr(value)} to a float') from None",
       "    def __call__(self, value):\n        \"\"\"accepts floats, integers and booleans, but not strings\"\"\"\n        try:\n            value = float(value)\n        except Exception:\n            raise WrongTypeError(f'can not convert {shortrepr(value)} to a float') from None",
       'FloatRange.__call__:float() on value')
firing('c01-integrality-test-deleted', 'C01', DTY,
       "        if round(fvalue) != fvalue:\n            raise WrongTypeError(f'{value} should be an int')\n        return value",
       "        return value", 'IntRange.__call__:integrality test after int()')
silent('c01-integrality-other-form', 'C01', DTY,
       "        if round(fvalue) != fvalue:\n            raise WrongTypeError(f'{value} should be an int')",
       "        if fvalue != round(fvalue):\n            raise WrongTypeError(f'{value} should be an int')")
firing('c01-maxbytes-check-deleted', 'C01', DTY,
       "        if size > self.maxbytes:\n            raise RangeError(\n                f'{value!r} must be at most {self.maxbytes} bytes long!')\n",
       "", 'BLOBType:limit maxbytes enforced')
firing('c01-maxlen-check-deleted', 'C01', DTY,
       "            if self.maxlen is not None and len(value) > self.maxlen:\n                raise RangeError(\n                    f'array too big, holds at most {self.maxlen} elements!')\n",
       "", 'ArrayOf:limit maxlen enforced')
firing('c01-string-raises-valueerror', 'C01', DTY,
       "            raise WrongTypeError(f'{shortrepr(value)} has the wrong type!')",
       "            raise ValueError(f'{shortrepr(value)} has the wrong type!')", 'StringType.__call__:raise ValueError')
firing('c01-unclamped-tolerance', 'C01', DTY,
       "            return clamp(self.min, value, self.max)\n        info = self.exportProperties()",
       "            return value\n        info = self.exportProperties()", 'FloatRange.validate:tolerance branch returns a clamped value')
silent('c01-guard-polarity-flipped', 'C01', DTY,
       "        if not isinstance(value, bytes):\n            raise WrongTypeError(f'{shortrepr(value)} must be of type bytes')\n        size = len(value)",
       "        if isinstance(value, bytes):\n            pass\n        else:\n            raise WrongTypeError(f'{shortrepr(value)} must be of type bytes')\n        size = len(value)")
silent('c01-struct-handler-narrowed', 'C01', DTY,
       "            return ImmutableDict(result)\n        except Exception as e:\n            errcls = RangeError if isinstance(e, RangeError) else WrongTypeError\n            raise errcls('can not convert struct element %s' % key) from e",
       "            return ImmutableDict(result)\n        except ValueError as e:\n            errcls = RangeError if isinstance(e, RangeError) else WrongTypeError\n            raise errcls('can not convert struct element %s' % key) from e")

# ------------------------------------------------------------------ C02
firing('c02-array-import-calls-validate', 'C02', DTY,
       "        return tuple(self.members.import_value(elem) for elem in value)",
       "        return tuple(self.members.validate(elem) for elem in value)", 'ArrayOf.import_value:delegates to member.import_value')
firing('c02-tuple-export-no-delegation', 'C02', DTY,
       "        return [sub.export_value(elem) for sub, elem in zip(self.members, value)]",
       "        return list(value)", 'TupleOf.export_value:delegates to member.export_value')
firing('c02-scaled-export-float', 'C02', DTY,
       "        return int(round(value / self.scale))\n\n    def import_value",
       "        return float(value / self.scale)\n\n    def import_value", 'ScaledInteger:JSON kind of export_value')
firing('c02-blob-export-bytes', 'C02', DTY,
       "        return b64encode(value).decode('ascii')", "        return b64encode(value)", 'BLOBType')
firing('c02-execcommand-no-export', 'C02', CL,
       "        if datatype:\n            argument = datatype.export_value(argument)\n        else:",
       "        if datatype:\n            argument = datatype(argument)\n        else:", 'execCommand:COMMANDREQUEST data is exported')
firing('c02-struct-format-unit-true', 'C02', DTY,
       "            return '{%s}' % (', '.join(['%r: %s' % (k, self.members[k].format_value(v, False))",
       "            return '{%s}' % (', '.join(['%r: %s' % (k, self.members[k].format_value(v, True))", 'StructOf.format_value:unit flag propagated')
silent('c02-export-loop-form', 'C02', DTY,
       "        self.check_type(value)\n        return [self.members.export_value(elem) for elem in value]",
       "        self.check_type(value)\n        res = []\n        for elem in value:\n            res.append(self.members.export_value(elem))\n        return res")

# ------------------------------------------------------------------ C03
firing('c03-string-lambda-drops-isutf8', 'C03', DTY,
       "        StringType(minchars=minchars, maxchars=maxchars, isUTF8=isUTF8),",
       "        StringType(minchars=minchars, maxchars=maxchars),", "StringType:consumed keys are forwarded by the 'string' lambda")
firing('c03-array-drops-minlen-param', 'C03', DTY,
       "    'array': lambda maxlen, members, minlen=0, pname='', **kwds:\n        ArrayOf(get_datatype(members, pname), minlen=minlen, maxlen=maxlen),",
       "    'array': lambda maxlen, members, pname='', **kwds:\n        ArrayOf(get_datatype(members, pname), maxlen=maxlen),", "ArrayOf:exported keys are consumed by the 'array' lambda")
firing('c03-array-copy-shares-members', 'C03', DTY,
       "        return ArrayOf(self.members.copy(), self.minlen, self.maxlen)",
       "        return ArrayOf(self.members, self.minlen, self.maxlen)", 'ArrayOf.copy:member datatypes are copied')
firing('c03-struct-copy-shares-members', 'C03', DTY,
       "        return StructOf(self.optional, **{k: v.copy() for k, v in self.members.items()})",
       "        return StructOf(self.optional, **dict(self.members))", 'StructOf.copy:member datatypes are copied')
silent('c03-copy-via-type-self', 'C03', DTY,
       "        return ArrayOf(self.members.copy(), self.minlen, self.maxlen)",
       "        return type(self)(self.members.copy(), self.minlen, self.maxlen)")
silent('c03-lambda-params-reordered', 'C03', DTY,
       "    'string': lambda minchars=0, maxchars=UNLIMITED, isUTF8=False, **kwds:",
       "    'string': lambda isUTF8=False, maxchars=UNLIMITED, minchars=0, **kwds:")
firing('c03-scaled-compatible-fallthrough', 'C03', DTY,
       "    def compatible(self, other):\n        if isinstance(other, (IntRange, FloatRange, ScaledInteger)):\n            other.validate(self.min)\n            other.validate(self.max)\n            return\n",
       "    def compatible(self, other):\n        if isinstance(other, (IntRange, FloatRange, ScaledInteger)):\n            other.validate(self.min)\n            other.validate(self.max)\n",
       'IntRange.compatible:acceptance branch')
silent('c03-return-none', 'C03', DTY,
       "            for i in range(self.min, self.max + 1):\n                other(i)\n            return\n",
       "            for i in range(self.min, self.max + 1):\n                other(i)\n            return None\n")
firing('c03-writable-check-dropped', 'C03', MO,
       "            target_dt.compatible(value_dt)", "            value_dt.compatible(target_dt)", 'Writable.__init__:target/value compatibility checked')

# ------------------------------------------------------------------ C04
firing('c04-readonly-refusal-deleted', 'C04', DP,
       "        if pobj.readonly:\n            raise ReadOnlyError(f\"Parameter {modulename}:{pname} can not be changed remotely\")\n",
       "", '_setParameterValue:readonly refusal')
firing('c04-unvalidated-value-to-driver', 'C04', DP,
       "        value = pobj.datatype.validate(value, previous=pobj.value)\n",
       "        pobj.datatype.validate(value, previous=pobj.value)\n", '_setParameterValue:driver gets the validated value')
firing('c04-previous-dropped', 'C04', DP,
       "        value = pobj.datatype.validate(value, previous=pobj.value)", "        value = pobj.datatype.validate(value)", 'validate(previous=cache value)')
firing('c04-lookup-bypassed', 'C04', DP,
       "        pname = moduleobj.accessiblename2attr.get(exportedname)\n        pobj = moduleobj.parameters.get(pname)\n        if pobj is None:\n            raise NoSuchParameterError(f'Module {modulename!r} has no parameter {pname or exportedname!r}')\n        if pobj.constant is not None:\n            raise ReadOnlyError",
       "        pname = exportedname\n        pobj = moduleobj.parameters.get(pname)\n        if pobj is None:\n            raise NoSuchParameterError(f'Module {modulename!r} has no parameter {pname or exportedname!r}')\n        if pobj.constant is not None:\n            raise ReadOnlyError",
       '_setParameterValue:exported-name lookup')
silent('c04-bound-method-in-local', 'C04', DP,
       "        getattr(moduleobj, 'write_' + pname)(value)\n        # return value is ignored here, as already handled\n        return pobj.export_value(), {'t': pobj.timestamp} if pobj.timestamp else {}\n\n    def _getParameterValue",
       "        wfunc = getattr(moduleobj, 'write_' + pname)\n        wfunc(value)\n        # return value is ignored here, as already handled\n        return pobj.export_value(), {'t': pobj.timestamp} if pobj.timestamp else {}\n\n    def _getParameterValue")
firing('c04-announce-in-finally', 'C04', MB,
       "                        except SECoPError as e:\n                            e.raising_methods.append(f'{self.name}.write_{pname}')\n                            raise\n                        self.announceUpdate(pname, new_value, validate=False)\n                        return new_value",
       "                        except SECoPError as e:\n                            e.raising_methods.append(f'{self.name}.write_{pname}')\n                            raise\n                        finally:\n                            self.announceUpdate(pname, new_value, validate=False)\n                        return new_value",
       'announce only after a successful write')
firing('c04-driver-before-checks', 'C04', MB,
       "                            new_value = validate(value)\n                            for c in check_funcs:\n                                if c(self, value):\n                                    break\n                            if wfunc:\n                                returned_value = wfunc(self, new_value)",
       "                            new_value = validate(value)\n                            if wfunc:\n                                returned_value = wfunc(self, new_value)\n                            for c in check_funcs:\n                                if c(self, value):\n                                    break\n                            if wfunc:",
       'check hooks before driver')
firing('c04-export-guard-dropped', 'C04', MB,
       "        if accessible.export:\n            self.accessiblename2attr[accessible.export] = name",
       "        self.accessiblename2attr[accessible.export or name] = name", 'store accessiblename2attr')
firing('c04-secop-mapped-internal', 'C04', HD,
       "                                err.name,\n                                str(err),", "                                'InternalError',\n                                str(err),", 'SECoPError mapped to its class name')

# ------------------------------------------------------------------ C05
firing('c05-store-in-dispatcher', 'C05', DP,
       "        getattr(moduleobj, 'read_' + pname)()\n        # return value is ignored here, as already handled",
       "        getattr(moduleobj, 'read_' + pname)()\n        pobj.readerror = None\n        # return value is ignored here, as already handled", 'store pobj.readerror')
firing('c05-callback-outside-lock', 'C05', MB,
       "            if pobj.export:\n                self.updateCallback(self, pobj)\n\n    def addCallback",
       "        if pobj.export:\n            self.updateCallback(self, pobj)\n\n    def addCallback", 'call updateCallback')
firing('c05-recovery-suppressed', 'C05', MB,
       "                    changed = pobj.value != value or pobj.readerror", "                    changed = pobj.value != value", 'changed-decision depends on previous error')
firing('c05-store-before-compare', 'C05', MB,
       "                    changed = pobj.value != value or pobj.readerror\n                    # store the value even in case of error\n                    pobj.value = value",
       "                    # store the value even in case of error\n                    pobj.value = value\n                    changed = pobj.value != value or pobj.readerror", 'before store')
silent('c05-acquire-release-form', 'C05', MB,
       "        with self.updateLock:\n            pobj = self.parameters[pname]\n            timestamp = timestamp or time.time()\n            changed = False",
       "        with self.updateLock:\n            pobj = self.parameters[pname]\n            timestamp = timestamp or time.time()\n            changed = False  # unchanged")
firing('c05-read-error-not-announced', 'C05', MB,
       "                            self.announceUpdate(pname, err=e)\n                            raise", "                            raise", 'new_rfunc:error path announces')
firing('c05-setter-bypasses', 'C05', PA,
       "            obj.announceUpdate(self.name, value)", "            obj.parameters[self.name].value = value", 'store obj.parameters[self.name].value')

# ------------------------------------------------------------------ C06
firing('c06-export-guard-dropped', 'C06', SN,
       "                if aobj.export:\n                    res[aobj.export] = aobj.for_export()", "                res[aobj.export or aobj.name] = aobj.for_export()", 'export_accessibles:accessible listed under its wire name iff exported')
firing('c06-keyed-by-name', 'C06', SN,
       "                    res[aobj.export] = aobj.for_export()", "                    res[aobj.name] = aobj.for_export()", 'export_accessibles:accessible listed under its wire name iff exported')
silent('c06-iterate-items', 'C06', SN,
       "            for aobj in self.get_module(modulename).accessibles.values():", "            for _n, aobj in self.get_module(modulename).accessibles.items():")
firing('c06-3tuple-reply', 'C06', DP,
       "        return pobj.export_value(), {'t': pobj.timestamp} if pobj.timestamp else {}\n\n    def _getParameterValue",
       "        return pobj.export_value(), {'t': pobj.timestamp} if pobj.timestamp else {}, None\n\n    def _getParameterValue", '_setParameterValue:returns (value, qualifiers)')
firing('c06-internal-value-in-reply', 'C06', DP,
       "        return pobj.export_value(), {'t': pobj.timestamp} if pobj.timestamp else {}\n\n    #",
       "        return pobj.value, {'t': pobj.timestamp} if pobj.timestamp else {}\n\n    #", '_getParameterValue:value in transport representation')
silent('c06-tuple-in-local', 'C06', DP,
       "            return pobj.constant, {}", "            res = pobj.constant, {}\n            return res")
firing('c06-constant-not-readonly', 'C06', PA,
       "            self.constant = self.datatype.export_value(constant)\n            self.readonly = True", "            self.constant = self.datatype.export_value(constant)", 'finish:constant forces readonly')
firing('c06-unexported-module-visible', 'C06', MB,
       "        if not self.export:  # do not export parameters of a module not exported\n            accessible.export = False\n", "", '_add_accessible:unexported module hides its accessibles')

# ------------------------------------------------------------------ C07
firing('c07-handler-narrowed', 'C07', HD,
       "                    except Exception as err:\n                        # create Error Obj instead", "                    except ValueError as err:\n                        # create Error Obj instead", 'handle:dispatcher call contained')
firing('c07-continue-before-reply', 'C07', HD,
       "                if not result:\n                    self.log.error('empty result upon msg %s', repr(msg))", "                if not result:\n                    continue", 'at least one reply per message')
firing('c07-double-reply', 'C07', HD,
       "                    print('====================')\n                else:", "                    print('====================')\n                    self.send_reply(result)\n                else:", 'at most one reply per message')
firing('c07-send-outside-lock', 'C07', TCP,
       "        with self.send_lock:\n            if self.running:\n                try:\n                    self.request.sendall(outdata)",
       "        if True:\n            if self.running:\n                try:\n                    self.request.sendall(outdata)", 'TCPRequestHandler.send_reply:send inside send_lock')
firing('c07-split-all-eols', 'C07', IF, "    return _bytes.split(EOL, 1)", "    return _bytes.split(EOL)[:2]", 'get_msg')
firing('c07-wrong-reply-action', 'C07', DP,
       "        return (WRITEREPLY, specifier, list(self._setParameterValue(modulename, pname, data)))",
       "        return (READREPLY, specifier, list(self._setParameterValue(modulename, pname, data)))", 'handle_change:reply action')
firing('c07-next-message-narrowed', 'C07', TCP,
       "            return decode_msg(message)\n        except Exception as e:", "            return decode_msg(message)\n        except ValueError as e:", 'next_message:leaves only via DecodeError')
silent('c07-merged-handlers', 'C07', HD,
       "                if not result:\n                    self.log.error('empty result upon msg %s', repr(msg))", "                if not result:\n                    self.log.error('empty result upon message %s', repr(msg))")
firing('c07-dispatch-outside-lock', 'C07', DP,
       "        with self._lock:\n            action, specifier, data = msg", "        if True:\n            action, specifier, data = msg", 'handle_request:dispatch inside lock')

# ------------------------------------------------------------------ C08
firing('c08-subscribe-after-snapshot', 'C08', DP,
       "            # activate only ONE item (module or module:parameter)\n            self.subscribe(conn, specifier)\n", "", 'handle_activate')
firing('c08-discard-dropped', 'C08', DP,
       "        self.set_all_log_levels(conn, 'off')\n        self._active_connections.discard(conn)", "        self.set_all_log_levels(conn, 'off')", 'reset_connection:discards from every container activate adds to')
firing('c08-listeners-not-copied', 'C08', DP,
       "            listeners = self._subscriptions.get(msg[1], set()).copy()", "            listeners = self._subscriptions.get(msg[1], set())", 'broadcast_event:listeners is a fresh copy')
firing('c08-ident-no-reset', 'C20', DP,
       "        # Remark: the following line is needed due to issue 66.\n        self.reset_connection(conn)\n", "", 'handle__ident:reaches reset_connection')
silent('c08-hoisted-lookup', 'C08', DP,
       "        for modulename, pname in modules:\n            moduleobj = self.secnode.modules.get(modulename, None)", "        for modulename, pname in modules:\n            moduleobj = self.secnode.modules.get(modulename)")
silent('c08-acquire-finally-form', 'C08', DP,
       "            with moduleobj.updateLock:\n                if pname:\n                    conn.send_reply(make_update(modulename, moduleobj.parameters[pname]))\n                    continue\n                for pobj in moduleobj.accessibles.values():\n                    if isinstance(pobj, Parameter) and pobj.export:\n                        conn.send_reply(make_update(modulename, pobj))",
       "            moduleobj.updateLock.acquire()\n            try:\n                if pname:\n                    conn.send_reply(make_update(modulename, moduleobj.parameters[pname]))\n                    continue\n                for pobj in moduleobj.accessibles.values():\n                    if isinstance(pobj, Parameter) and pobj.export:\n                        conn.send_reply(make_update(modulename, pobj))\n            finally:\n                moduleobj.updateLock.release()")

# ------------------------------------------------------------------ C09
firing('c09-merge-no-copy', 'C09', PA,
       "        if datatype is not None:\n            self.datatype = datatype.copy()\n        self.init(merged_properties)", "        if datatype is not None:\n            self.datatype = datatype\n        self.init(merged_properties)", 'Parameter.merge:store self.datatype')
firing('c09-property-mutated-before-copy', 'C09', PR,
       "                po = po.copy()\n                try:", "                try:", 'HasProperties.__init_subclass__:mutation po')
firing('c09-misspelled-attr', 'C09', PA,
       "            self.ownProperties.update(self.propertyValues)", "            self.ownProperties.update(self.propertyvalues)", 'self.propertyvalues')
firing('c09-instance-shares-accessible', 'C09', MB,
       "            # make a copy of the Parameter/Command object\n            aobj = aobj.copy()\n", "", 'instance gets copies of the accessibles')
firing('c09-class-datatype-replaced', 'C09', MX,
       "        self.parameters['controlled_by'].datatype = EnumType(Enum(prev_enum, **{name: None}))",
       "        type(self).controlled_by.datatype = EnumType(Enum(prev_enum, **{name: None}))", 'register_input')

# ------------------------------------------------------------------ C10
firing('c10-handler-pass', 'C10', MB,
       "            except KeyError:\n                self.errors.append(f\"'{name}' has no property '{propname}'\")", "            except KeyError:\n                pass", '_add_accessible:handler `KeyError` reports')
firing('c10-leftover-check-deleted', 'C10', MB,
       "        if cfgdict:\n            self.errors.append(\n                f\"{', '.join(cfgdict.keys())} does not exist (use one of\"\n                f\" {', '.join(list(self.accessibles) + list(self.propertyDict))})\")\n", "", 'unknown names reported')
firing('c10-final-raise-conditional', 'C10', MB,
       "        if self.errors:\n            raise ConfigError(self.errors)\n\n    # helper cfg-editor", "        if self.errors and cfgdict:\n            raise ConfigError(self.errors)\n\n    # helper cfg-editor", 'errors end in ConfigError')
firing('c10-register-unconditionally', 'C10', SN,
       "        if modobj:\n            self.add_module(modobj, modulename)\n        return modobj", "        self.add_module(modobj, modulename)\n        return modobj", 'get_module_instance:registration guarded')
firing('c10-write-before-pop', 'C10', MB,
       "            value = self.writeDict.pop(pname, Done)", "            value = self.writeDict.get(pname, Done)", 'writeInitParams:value popped before it is written')
silent('c10-message-in-local', 'C10', MB,
       "            except KeyError:\n                self.errors.append(f\"'{name}' has no property '{propname}'\")",
       "            except KeyError:\n                msg = f\"'{name}' has no property '{propname}'\"\n                self.errors.append(msg)")

# ------------------------------------------------------------------ C11
firing('c11-pending-drain-no-set', 'C11', CL,
       "                _, event, _ = self.pending.get(block=False)\n                event.set()", "                _, event, _ = self.pending.get(block=False)", 'entries drained from pending are released')
firing('c11-put-without-timeout', 'C11', CL, "        self.txq.put(entry, timeout=3)", "        self.txq.put(entry)", 'queue_request:self.txq.put has a time-out')
firing('c11-wait-without-timeout', 'C11', CL, "        if not entry[1].wait(10):  # event", "        if not entry[1].wait():  # event", 'get_reply:entry[1].wait has a time-out')
firing('c11-rx-finally-no-disconnect', 'C11', CL,
       "        finally:\n            self._rxthread = None\n            self.disconnect(shutdown)", "        finally:\n            self._rxthread = None", 'reaches disconnect on every exit')
silent('c11-get-nowait', 'C11', CL, "                entry = self.txq.get(False)", "                entry = self.txq.get_nowait()")

# ------------------------------------------------------------------ C12
firing('c12-callback-deleted', 'C12', CL,
       "        self.callback(module, 'updateItem', module, param, entry)\n", "", 'updateValue:updateItem once per level')
firing('c12-wakeup-before-cache', 'C12', CL,
       "                try:\n                    action, ident, data = decode_msg(reply)\n                    if ident == '.':\n                        ident = None\n                    if action in UPDATE_MESSAGES:",
       "                try:\n                    action, ident, data = decode_msg(reply)\n                    if ident == '.':\n                        ident = None\n                    if (action, ident) in self.active_requests:\n                        self.active_requests[action, ident][1].set()\n                    if action in UPDATE_MESSAGES:",
       'C12')
firing('c12-timestamp-not-clipped', 'C12', CL,
       "                            timestamp = min(now, timestamp)  # no timestamps in the future!\n", "", 'timestamp clipped to now')
firing('c12-update-messages-shrunk', 'C12', CL,
       "UPDATE_MESSAGES = {EVENTREPLY, READREPLY, WRITEREPLY, ERRORPREFIX + READREQUEST, ERRORPREFIX + EVENTREPLY}",
       "UPDATE_MESSAGES = {EVENTREPLY, READREPLY, WRITEREPLY, ERRORPREFIX + EVENTREPLY}", 'UPDATE_MESSAGES')
silent('c12-callbacks-reordered', 'C12', CL,
       "        self.callback(None, 'updateItem', module, param, entry)\n        self.callback(module, 'updateItem', module, param, entry)",
       "        self.callback(module, 'updateItem', module, param, entry)\n        self.callback(None, 'updateItem', module, param, entry)")
firing('c12-second-cache-writer', 'C12', CL,
       "        self.updateValue(module, parameter, None, time.time(), e)", "        self.cache[module, parameter] = CacheItem(None, time.time(), e)", 'readParameter:store into cache')

# ------------------------------------------------------------------ C13
firing('c13-callpollfunc-narrowed', 'C13', MB,
       "                self.pollInfo.pending_errors.discard(rfunc.__name__)\n        except Exception as e:", "                self.pollInfo.pending_errors.discard(rfunc.__name__)\n        except SECoPError as e:", 'callPollFunc:poll function call contained')
firing('c13-direct-dopoll', 'C13', MB,
       "                    mobj.callPollFunc(mobj.doPoll)\n                now = time.time()", "                    mobj.doPoll()\n                now = time.time()", 'call mobj.doPoll (steady)')
firing('c13-steady-raise-com-failed', 'C13', MB,
       "                        mobj.callPollFunc(rfunc)\n                        loop = False  # one poll done", "                        mobj.callPollFunc(rfunc, raise_com_failed=True)\n                        loop = False  # one poll done", 'call mobj.callPollFunc (steady)')
firing('c13-poll-flag-ignored', 'C13', MB,
       "                if rfunc.poll:\n                    pinfo.polled_parameters.append((mobj, rfunc, pobj))", "                pinfo.polled_parameters.append((mobj, rfunc, pobj))", 'registration guarded by the poll flag')
firing('c13-no-trigger-on-fastpoll', 'C13', MB,
       "            self.pollInfo.interval = fast_interval if flag else self.pollinterval\n            self.pollInfo.trigger()", "            self.pollInfo.interval = fast_interval if flag else self.pollinterval", 'setFastPoll:store')
silent('c13-guard-operands-swapped', 'C13', MB,
       "                    if raise_com_failed and isinstance(e, CommunicationFailedError):", "                    if isinstance(e, CommunicationFailedError) and raise_com_failed:")
firing('c13-zero-division-unguarded', 'C13', MB,
       "                    try:\n                        pinfo.last_main = (now // pinfo.interval) * pinfo.interval\n                    except ZeroDivisionError:\n                        pinfo.last_main = now",
       "                    pinfo.last_main = (now // pinfo.interval) * pinfo.interval", 'division by `pinfo.interval`')

# ------------------------------------------------------------------ C14
firing('c14-while-true', 'C14', SM,
       "                for _ in range(self.maxloops):\n                    self.now = time.time()", "                while True:\n                    self.now = time.time()", 'cycle')
firing('c14-stop-without-lock', 'C14', SM,
       "        \"\"\"stop machine, go to idle state\"\"\"\n        with self._lock:\n            self.next_task = Stop()", "        \"\"\"stop machine, go to idle state\"\"\"\n        self.next_task = Stop()", 'stop:next_task stored inside lock')
firing('c14-start-stores-statefunc', 'C14', SM,
       "        with self._lock:\n            self.next_task = Start(statefunc, kwds)", "        with self._lock:\n            self.next_task = Start(statefunc, kwds)\n            self.statefunc = statefunc", 'start:stores only next_task')
firing('c14-init-not-cleared', 'C14', SM,
       "                            ret = self.statefunc(self)\n                            self.init = False\n", "                            ret = self.statefunc(self)\n", 'C14')
firing('c14-cleanup-interruptible', 'C14', SM,
       "                    if self.next_task and not self.cleanup_reason:", "                    if self.next_task:", 'no interruption while cleaning up')
silent('c14-loop-var-renamed', 'C14', SM,
       "                for _ in range(self.maxloops):\n                    self.now = time.time()", "                for _i in range(self.maxloops):\n                    self.now = time.time()")
firing('c14-isbusy-closed-interval', 'C14', MO,
       "        return StatusType.BUSY <= (status or self.status)[0] < StatusType.ERROR", "        return StatusType.BUSY <= (status or self.status)[0] <= StatusType.ERROR", 'isBusy:half-open busy interval')

# ------------------------------------------------------------------ C15
firing('c15-init-order-swapped', 'C15', SN,
       "            modobj.earlyInit()\n            if not modobj.earlyInitDone:\n                self.errors.append(f'{modobj.earlyInit.__qualname__} was not '\n                                   f'called, probably missing super call')\n            modobj.initModule()",
       "            modobj.initModule()\n            modobj.earlyInit()\n            if not modobj.earlyInitDone:\n                self.errors.append(f'{modobj.earlyInit.__qualname__} was not '\n                                   f'called, probably missing super call')",
       'earlyInit before initModule')
firing('c15-early-return-dropped', 'C15', SN,
       "        if modobj._isinitialized:\n            return modobj\n", "", 'initialised module returned at once')
firing('c15-unreversed', 'C15', SN, "        return l[::-1]\n", "        return l\n", 'users before the modules they are attached to')
silent('c15-reversed-form', 'C15', SN, "        return l[::-1]\n", "        return list(reversed(l))\n")
firing('c15-shutdown-before-join', 'C15', SN,
       "        for name in self._getSortedModules():\n            self.modules[name].shutdownModule()",
       "        for name in self._getSortedModules():\n            self.modules[name].shutdownModule()\n        for mod in self.modules.values():\n            mod.joinPollThread(0.1)", 'pollers stopped before shutdown')
firing('c15-callback-twice', 'C15', MB,
       "                    started_callback()\n                    started_callback = None", "                    started_callback()", 'start callback exactly once')
firing('c15-writes-after-polls', 'C15', MB,
       "                for mobj in modules:\n                    # TODO when needed: here we might add a call to a method :meth:`beforeWriteInit`\n                    mobj.writeInitParams()\n                    try:",
       "                for mobj in modules:\n                    try:", 'C15')
firing('c15-attached-type-check-dropped', 'C15', MO,
       "            if not isinstance(modobj, self.basecls):\n                raise ConfigError(f'attached module {self.name}={modobj.name!r} '\n                                  f'must inherit from {self.basecls.__qualname__!r}')\n", "", 'type check before caching')

# ------------------------------------------------------------------ C16
firing('c16-flush-deleted', 'C16', IO,
       "                    garbage = self._conn.flush_recv()\n                    if garbage:\n                        self.comLog('garbage: %r', garbage)\n                    self._conn.send(request)",
       "                    self._conn.send(request)", 'BytesIO.communicate:flush before send')
firing('c16-send-outside-lock', 'C16', IO,
       "        self.check_connection()\n        try:\n            with self._lock:\n                # read garbage and wait before send\n                try:\n                    if self.wait_before:\n                        time.sleep(self.wait_before)",
       "        self.check_connection()\n        try:\n            if True:\n                # read garbage and wait before send\n                try:\n                    if self.wait_before:\n                        time.sleep(self.wait_before)", 'BytesIO.communicate')
firing('c16-multicomm-no-lock', 'C16', IO,
       "        replies = []\n        with self._lock:\n            for cmd, replylen, delay in requests:", "        replies = []\n        if True:\n            for cmd, replylen, delay in requests:", 'BytesIO.multicomm:request loop inside _lock')
firing('c16-handler-no-close', 'C16', IO,
       "                    reply = self._conn.readbytes(replylen, self.timeout)\n                except ConnectionClosed:\n                    self.closeConnection()\n", "                    reply = self._conn.readbytes(replylen, self.timeout)\n                except ConnectionClosed:\n", 'ConnectionClosed handler')
silent('c16-acquire-finally-form', 'C16', IO,
       "        replies = []\n        with self._lock:\n            for cmd, replylen, delay in requests:\n                replies.append(self.communicate(cmd, replylen))\n                if delay:\n                    time.sleep(delay)\n        return replies",
       "        replies = []\n        self._lock.acquire()\n        try:\n            for cmd, replylen, delay in requests:\n                replies.append(self.communicate(cmd, replylen))\n                if delay:\n                    time.sleep(delay)\n        finally:\n            self._lock.release()\n        return replies")
firing('c16-stringio-flush-every-iteration-lost', 'C16', IO,
       "                        if garbage is None:  # read garbage only once\n                            garbage = self._conn.flush_recv()\n                            if garbage:\n                                self.comLog('garbage: %r', garbage)",
       "                        if garbage is not None:  # read garbage only once\n                            garbage = self._conn.flush_recv()\n                            if garbage:\n                                self.comLog('garbage: %r', garbage)", 'StringIO.communicate:flush before send')
firing('c16-remainder-dropped', 'C16', AC,
       "                line, self._rxbuffer = splitted\n                return line", "                line, self._rxbuffer = splitted[0], b''\n                return line", 'readline')

# ------------------------------------------------------------------ C17
firing('c17-open-target-directly', 'C17', PS,
       "                with open(tmpfile, 'w', encoding='utf-8') as f:", "                with open(self.persistentFile, 'w', encoding='utf-8') as f:", 'open for writing')
firing('c17-rename-inside-with', 'C17', PS,
       "                    f.write('\\n')\n                os.rename(tmpfile, self.persistentFile)", "                    f.write('\\n')\n                    os.rename(tmpfile, self.persistentFile)", 'rename after close')
firing('c17-given-ignored', 'C17', PS,
       "                if not pobj.given:\n                    if pname in loaded:", "                if True:\n                    if pname in loaded:", 'restore guarded by not given')
silent('c17-os-replace', 'C17', PS, "                os.rename(tmpfile, self.persistentFile)", "                os.replace(tmpfile, self.persistentFile)")
firing('c17-save-not-deferred', 'C17', PS,
       "        if self.writeDict:\n            # do not save before all values are written to the hw, as potentially\n            # factory default values were read in the meantime\n            return\n", "", 'save deferred while writes pending')
firing('c17-entry-import-uncontained', 'C17', PS,
       "            except Exception as e:\n                # ignore invalid persistent data (in case parameters have changed)", "            except KeyError as e:\n                # ignore invalid persistent data (in case parameters have changed)", 'per-entry import contained')

# ------------------------------------------------------------------ C18
firing('c18-float-from-own-cache', 'C18', EX,
       "        return self.valuedict[instance.parameters[self.idx_name].value]", "        return instance.parameters[self.name].value", 'float value derived from the cached index')
firing('c18-no-deactivation', 'C18', MX,
       "            for name, deactivate_control in out.inputCallbacks.items():\n                if name != self.name:\n                    deactivate_control(self.name)\n            out.controlled_by = self.name", "            out.controlled_by = self.name", 'store controlled_by paired with deactivation')
firing('c18-minmax-check-deleted', 'C18', MB,
       "        if min_ > max_:\n            raise RangeError(f'invalid limits: {pname}_min > {pname}_max')\n", "", 'min/max pair ordered')
firing('c18-postfix-missing', 'C18', MB, "            for postfix in ('_limits', '_min', '_max'):", "            for postfix in ('_limits', '_max'):", 'check generated for every limit postfix')

# ------------------------------------------------------------------ C19
firing('c19-test-flipped', 'C19', DS,
       "            if not isinstance(request, dict) or request.get('SECoP') != 'discover':", "            if not isinstance(request, dict) or request.get('SECoP') == 'discover':", 'answer only to discover requests')
silent('c19-inverted-branches', 'C19', DS,
       "            if not isinstance(request, dict) or request.get('SECoP') != 'discover':\n                continue\n            self.log.debug('Answering UDP broadcast from: %s',\n                           format_address(addr))\n            for port in self.ports:\n                try:\n                    self.sock.sendto(self._getMessage(port), addr)\n                except OSError as e:",
       "            if not (isinstance(request, dict) and request.get('SECoP') == 'discover'):\n                continue\n            self.log.debug('Answering UDP broadcast from: %s',\n                           format_address(addr))\n            for port in self.ports:\n                try:\n                    self.sock.sendto(self._getMessage(port), addr)\n                except OSError as e:")
firing('c19-handler-returns', 'C19', DS, "            except ValueError:  # includes UnicodeDecodeError and JSONDecodeError\n                continue", "            except ValueError:  # includes UnicodeDecodeError and JSONDecodeError\n                return", 'contained')
firing('c19-other-builder-for-budget', 'C19', DS,
       "        available = MAX_MESSAGE_LEN - len(self._getMessage(2**16-1))", "        available = MAX_MESSAGE_LEN - len(self.description) - 100", 'C19.R2')

# ------------------------------------------------------------------ C20
firing('c20-strict-comparison', 'C20', LG, "            if record.levelno >= lev:", "            if record.levelno > lev:", 'send_log guarded by level comparison')
silent('c20-continue-form', 'C20', LG,
       "            if record.levelno >= lev:\n                self.send_log(  # pylint: disable=not-callable\n                    conn, modname, LEVEL_NAMES[record.levelno],\n                    record.getMessage())",
       "            if record.levelno < lev:\n                continue\n            self.send_log(  # pylint: disable=not-callable\n                conn, modname, LEVEL_NAMES[record.levelno],\n                record.getMessage())")
firing('c20-off-not-removed', 'C20', LG,
       "        if level == OFF:\n            subscriptions.pop(conn, None)\n        else:\n            subscriptions[conn] = level", "        subscriptions[conn] = level", 'OFF removes the entry')
firing('c20-len-minus-form', 'C20', LG, "            for filepath in files[:-self.max_days]:", "            for filepath in files[:len(files) - self.max_days]:", 'files removed')
silent('c20-guarded-prefix', 'C20', LG, "            for filepath in files[:-self.max_days]:", "            for filepath in files[:-1 * self.max_days] if False else files[:-self.max_days]:")
firing('c20-reset-no-logging-off', 'C20', DP,
       "        self.set_all_log_levels(conn, 'off')\n        self._active_connections.discard(conn)", "        self._active_connections.discard(conn)", 'reset_connection:switches logging off')

# thorough-tier variants
V.append({'id': 'c08-lock-cycle', 'prop': 'C08', 'kind': 'firing', 'tier': 'thorough', 'file': DP,
          'old': "        self.broadcast_event(make_update(moduleobj.name, pobj))",
          'new': "        with self._lock:\n            self.broadcast_event(make_update(moduleobj.name, pobj))",
          'expect': 'lock-order graph is acyclic'})

silent('c01-range-test-negated-form', 'C01', DTY,
       "        if self.min <= value <= self.max:\n            return value\n        raise RangeError(f'{value!r} must be between {self.min} and {self.max}')",
       "        if not (self.min <= value <= self.max):\n            raise RangeError(f'{value!r} must be between {self.min} and {self.max}')\n        return value")
silent('c01-int-range-test-rejecting-form', 'C01', DTY,       # the converted integer is never a NaN: either form of the test is exact
       "        if self.min <= value <= self.max:\n            return value\n        raise RangeError(f'{value!r} must be between {self.min} and {self.max}')",
       "        if value < self.min or value > self.max:\n            raise RangeError(f'{value!r} must be between {self.min} and {self.max}')\n        return value")
firing('c01-range-test-rejecting-form', 'C01', DTY,
       "        if self.min - prec <= value <= self.max + prec:",
       "        if not (value < self.min - prec or value > self.max + prec):",
       'value returned only on the accepting branch')
_unused = ('c01-range-test-rejecting-form-old', 'C01', DTY,
       "        if self.min <= value <= self.max:\n            return value\n        raise RangeError(f'{value!r} must be between {self.min} and {self.max}')",
       "        if value < self.min or value > self.max:\n            raise RangeError(f'{value!r} must be between {self.min} and {self.max}')\n        return value",
       'value returned only on the accepting branch')
silent('c13-clear-only-when-set', 'C13', MB,
       "                self.triggerPoll.wait(wait_time)\n                self.triggerPoll.clear()\n                continue",
       "                if self.triggerPoll.wait(wait_time):\n                    self.triggerPoll.clear()\n                continue")
silent('c10-optional-guard-other-form', 'C10', MB,
       "            if aobj.optional:\n                continue\n            # make a copy of the Parameter/Command object",
       "            if aobj.optional:\n                continue  # not implemented\n            # make a copy of the Parameter/Command object")
silent('c16-sleep-before-flush', 'C16', IO,
       "                    if self.wait_before:\n                        time.sleep(self.wait_before)\n                    garbage = self._conn.flush_recv()\n                    if garbage:\n                        self.comLog('garbage: %r', garbage)\n                    self._conn.send(request)",
       "                    if self.wait_before > 0:\n                        time.sleep(self.wait_before)\n                    garbage = self._conn.flush_recv()\n                    if garbage:\n                        self.comLog('garbage: %r', garbage)\n                    self._conn.send(request)")
silent('c12-dispatch-tuple-copy', 'C12', CL,
       "        for cbfunc in list(cblist):", "        for cbfunc in tuple(cblist):")
silent('c06-constant-none-test-swapped', 'C06', DP,
       "        if pobj.constant is not None:\n            # really needed? we could just construct a readreply instead....",
       "        if not (pobj.constant is None):\n            # really needed? we could just construct a readreply instead....")

VARIANTS = V
