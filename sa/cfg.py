"""Statement-level control-flow graph with exceptional edges (the stdlib has none).

Supported statement kinds: simple statements, if / for / while (+else) / try (+else, +finally) /
with / return / raise / break / continue / assert / nested def (as one node).  ``match`` is not
supported (CFGUnsupported -> the obligation becomes `undecided`).

Edges carry a label: 'n' normal, 'T'/'F' branch outcome of a test node (for loops: T = next item,
F = exhausted), 'exc' exceptional.  `finally` bodies are duplicated per continuation kind.

All queries are phrased as reachability-with-avoidance, which is trivially correct on these small
graphs:  "every path from A to B passes through C"  ==  B is not reachable from A once C is removed.
"""
import ast

from sa.model import dotted, walk_local, src


class CFGUnsupported(Exception):
    pass


class Node:
    __slots__ = ('id', 'kind', 'ast', 'label', 'handler')

    def __init__(self, id_, kind, ast_=None, label=''):
        self.id = id_
        self.kind = kind      # entry exit exit_exc stmt test for with join handler
        self.ast = ast_
        self.label = label
        self.handler = None

    def __repr__(self):
        a = src(self.ast, 50) if self.ast is not None else ''
        return f'<{self.id}:{self.kind} L{getattr(self.ast, "lineno", "-")} {a}{self.label}>'


class Jump:
    __slots__ = ('kind', 'edges', 'classes')

    def __init__(self, kind, edges, classes=None):
        self.kind = kind            # return break continue raise
        self.edges = edges          # list of (node id, label) dangling
        self.classes = classes      # for raise: frozenset of qualified exception class names


# callees that never raise for the purposes of the default ('calls') policy  (DESIGN A.4)
TOTAL_CALLEES = {
    'print', 'repr', 'isinstance', 'issubclass', 'hasattr', 'id', 'callable', 'type',
    'formatException', 'formatExtendedStack', 'formatExtendedTraceback', 'shortrepr',
    'time.time', 'currenttime', 'sys.exc_info', 'time.monotonic',
    'threading.Event', 'threading.Lock', 'threading.RLock', 'set', 'dict', 'list', 'tuple', 'OrderedDict',
}
TOTAL_METHODS = {
    # logger methods and container operations that can not fail
    'debug', 'info', 'warning', 'warn', 'error', 'exception', 'critical',
    'append', 'add', 'discard', 'clear', 'setdefault', 'copy', 'startswith', 'endswith',
    'format', 'join', 'strip', 'lower', 'upper', 'split', 'rpartition', 'partition',
    'is_set', 'isSet', 'items', 'values', 'keys', 'extend', 'update', 'splitlines',
}
TOTAL_METHODS_COND = {'get': (1, 2), 'pop': (2,), 'getattr': (3,)}   # name -> allowed positional arg counts


def call_is_total(call):
    d = dotted(call.func)
    if d in TOTAL_CALLEES:
        return True
    if isinstance(call.func, ast.Attribute):
        a = call.func.attr
        if a in TOTAL_METHODS:
            return True
        if a in TOTAL_METHODS_COND and len(call.args) in TOTAL_METHODS_COND[a]:
            return True
    if d == 'getattr' and len(call.args) == 3:
        return True
    if d in ('len', 'str', 'bool', 'min', 'max', 'sorted', 'reversed', 'enumerate', 'zip', 'range', 'iter'):
        return True
    return False


def default_may_raise(node):
    """'calls' policy: a statement may raise iff it contains a call of a non-total callee,
    is a raise / assert.  Returns a frozenset of exception class names or None."""
    if isinstance(node, ast.Raise):
        return None  # handled separately
    if isinstance(node, ast.Assert):
        return frozenset({'builtins.AssertionError'})
    for n in walk_local(node):
        if isinstance(n, ast.Call) and not call_is_total(n):
            return frozenset({'builtins.Exception'})
        if isinstance(n, (ast.Await, ast.Yield, ast.YieldFrom)):
            return frozenset({'builtins.Exception'})   # a generator can have an exception thrown in at the yield
    for n in walk_local(node):
        # a division by a variable may raise ZeroDivisionError (`now // interval` inside `try: ... except ZeroDivisionError:`)
        if (isinstance(n, ast.BinOp) and isinstance(n.op, (ast.Div, ast.FloorDiv, ast.Mod)) and not isinstance(n.right, ast.Constant)
                and not isinstance(n.left, (ast.Constant, ast.JoinedStr))) or \
                (isinstance(n, ast.AugAssign) and isinstance(n.op, (ast.Div, ast.FloorDiv, ast.Mod)) and not isinstance(n.value, ast.Constant)):
            return frozenset({'builtins.ZeroDivisionError'})
    return None


class CFG:
    def __init__(self, funcnode, model=None, module=None, may_raise=None, raises_of_call=None):
        """funcnode: ast.FunctionDef / Lambda.
        may_raise(astnode) -> frozenset of class names | None      (policy)
        """
        self.func = funcnode
        self.model = model
        self.module = module
        self.may_raise = may_raise or default_may_raise
        self.nodes = []
        self.succ = {}
        self.pred = {}
        self.by_ast = {}
        self.entry = self._new('entry')
        self.exit = self._new('exit')
        self.exit_exc = self._new('exit_exc')
        self._loops = []
        if isinstance(funcnode, ast.Lambda):
            n = self._new('stmt', funcnode.body)
            self._edge(self.entry, n, 'n')
            self._edge(n, self.exit, 'n')
            cls = self.may_raise(funcnode.body)
            if cls:
                self._edge(n, self.exit_exc, 'exc')
            return
        normal, jumps = self._block(funcnode.body, [(self.entry, 'n')], handler_classes=None)
        for e in normal:
            self._edge(e[0], self.exit, e[1])
        for j in jumps:
            if j.kind == 'return':
                for e in j.edges:
                    self._edge(e[0], self.exit, e[1])
            elif j.kind == 'raise':
                for e in j.edges:
                    self._edge(e[0], self.exit_exc, e[1])
            else:  # break/continue outside loop: syntax error in Python, ignore
                pass

    # ------------------------------------------------------------------ construction
    _NORETURN = {}

    def _helper_never_returns(self, call):
        """`self.<helper>(...)` where the helper (a method of the same class) has no normal exit: every path ends in
        sys.exit / raise.  One level only (the helper's own CFG is built without this resolution)."""
        if self.model is None or not isinstance(call.func, ast.Attribute) or dotted(call.func.value) != 'self':
            return False
        cls = getattr(self.func, 'parent', None)
        while cls is not None and not isinstance(cls, ast.ClassDef):
            cls = getattr(cls, 'parent', None)
        if cls is None:
            return False
        helper = next((n for n in cls.body if isinstance(n, ast.FunctionDef) and n.name == call.func.attr), None)
        if helper is None or helper is self.func:
            return False
        key = id(helper)
        if key not in CFG._NORETURN:
            # only a helper that ends the process counts (a method that merely raises - e.g. an abstract `raise
            # NotImplementedError` - is overridden or handled elsewhere)
            exits = any(isinstance(n, ast.Call) and dotted(n.func) in ('sys.exit', 'os._exit', 'exit') for n in walk_local(helper))
            h = CFG(helper, None, self.module) if exits else None
            CFG._NORETURN[key] = bool(h) and h.exit not in h.reach_from_entry()
        return CFG._NORETURN[key]

    def _new(self, kind, ast_=None, label=''):
        n = Node(len(self.nodes), kind, ast_, label)
        self.nodes.append(n)
        self.succ[n.id] = []
        self.pred[n.id] = []
        if ast_ is not None:
            self.by_ast.setdefault(id(ast_), []).append(n.id)
        return n.id

    def _edge(self, a, b, label):
        if (b, label) not in self.succ[a]:
            self.succ[a].append((b, label))
            self.pred[b].append((a, label))

    def _connect(self, preds, node):
        for a, label in preds:
            self._edge(a, node, label)

    def _exc_class(self, expr):
        """qualified class name of a raised expression, or builtins.Exception when unknown"""
        if expr is None:
            return None
        e = expr.func if isinstance(expr, ast.Call) else expr
        d = dotted(e)
        if d and self.model is not None and self.module is not None:
            r = self.model.resolve_name(self.module, d)
            if r and (r in self.model.classes or r.startswith('builtins.')):
                return r
        return None

    def _raise_jump(self, node, classes):
        return Jump('raise', [(node, 'exc')], classes)

    def _simple(self, st, preds, handler_classes):
        n = self._new('stmt', st)
        self._connect(preds, n)
        jumps = []
        if isinstance(st, ast.Return):
            if st.value is not None:
                cls = self.may_raise(st.value)
                if cls:
                    jumps.append(self._raise_jump(n, cls))
            jumps.append(Jump('return', [(n, 'n')]))
            return [], jumps
        if isinstance(st, ast.Raise):
            if st.exc is None:
                cls = handler_classes or frozenset({'builtins.Exception'})
            else:
                c = self._exc_class(st.exc)
                cls = frozenset({c}) if c else frozenset({'builtins.Exception'})
                # `raise errcls(...)` where errcls is a local conditional: keep unknown
            jumps.append(Jump('raise', [(n, 'exc')], cls))
            return [], jumps
        if isinstance(st, ast.Break):
            return [], [Jump('break', [(n, 'n')])]
        if isinstance(st, ast.Continue):
            return [], [Jump('continue', [(n, 'n')])]
        if isinstance(st, ast.Expr) and isinstance(st.value, ast.Call) and (
                dotted(st.value.func) in ('sys.exit', 'os._exit', 'exit') or self._helper_never_returns(st.value)):
            # never returns normally
            jumps.append(Jump('raise', [(n, 'exc')], frozenset({'builtins.SystemExit'})))
            return [], jumps
        cls = self.may_raise(st)
        if cls:
            jumps.append(self._raise_jump(n, cls))
        return [(n, 'n')], jumps

    def _block(self, stmts, preds, handler_classes):
        jumps = []
        cur = preds
        for st in stmts:
            if not cur:
                break   # unreachable code after return/raise/...
            cur, js = self._stmt(st, cur, handler_classes)
            jumps.extend(js)
        return cur, jumps

    @staticmethod
    def _const_truth(test):
        if isinstance(test, ast.Constant):
            return bool(test.value)
        return None

    def _stmt(self, st, preds, hc):
        if isinstance(st, ast.If):
            t = self._new('test', st.test)
            st.test.cfg_owner = st
            self._connect(preds, t)
            jumps = []
            cls = self.may_raise(st.test)
            if cls:
                jumps.append(self._raise_jump(t, cls))
            truth = self._const_truth(st.test)
            bnormal, bj = self._block(st.body, [(t, 'T')] if truth is not False else [], hc)
            if st.orelse:
                onormal, oj = self._block(st.orelse, [(t, 'F')] if truth is not True else [], hc)
            else:
                onormal, oj = ([(t, 'F')] if truth is not True else []), []
            return bnormal + onormal, jumps + bj + oj
        if isinstance(st, ast.While):
            t = self._new('test', st.test)
            st.test.cfg_owner = st
            self._connect(preds, t)
            jumps = []
            cls = self.may_raise(st.test)
            if cls:
                jumps.append(self._raise_jump(t, cls))
            truth = self._const_truth(st.test)
            bnormal, bj = self._block(st.body, [(t, 'T')] if truth is not False else [], hc)
            self._connect(bnormal, t)
            out = []
            rest = []
            for j in bj:
                if j.kind == 'break':
                    out.extend(j.edges)
                elif j.kind == 'continue':
                    self._connect(j.edges, t)
                else:
                    rest.append(j)
            fexit = [(t, 'F')] if truth is not True else []
            if st.orelse:
                onormal, oj = self._block(st.orelse, fexit, hc)
                rest.extend(oj)
                out.extend(onormal)
            else:
                out.extend(fexit)
            return out, jumps + rest
        if isinstance(st, (ast.For, ast.AsyncFor)):
            it = self._new('stmt', st.iter, label=' [for-iter]')
            self._connect(preds, it)
            jumps = []
            cls = self.may_raise(st.iter)
            if cls:
                jumps.append(self._raise_jump(it, cls))
            t = self._new('for', st)
            self._edge(it, t, 'n')
            bnormal, bj = self._block(st.body, [(t, 'T')], hc)
            self._connect(bnormal, t)
            out = []
            rest = []
            for j in bj:
                if j.kind == 'break':
                    out.extend(j.edges)
                elif j.kind == 'continue':
                    self._connect(j.edges, t)
                else:
                    rest.append(j)
            if st.orelse:
                onormal, oj = self._block(st.orelse, [(t, 'F')], hc)
                rest.extend(oj)
                out.extend(onormal)
            else:
                out.append((t, 'F'))
            return out, jumps + rest
        if isinstance(st, (ast.With, ast.AsyncWith)):
            w = self._new('with', st)
            self._connect(preds, w)
            jumps = []
            for item in st.items:
                cls = self.may_raise(item.context_expr)
                if cls:
                    jumps.append(self._raise_jump(w, cls))
                    break
            bnormal, bj = self._block(st.body, [(w, 'n')], hc)
            return bnormal, jumps + bj
        if isinstance(st, ast.Try) or (hasattr(ast, 'TryStar') and isinstance(st, ast.TryStar)):
            return self._try(st, preds, hc)
        if isinstance(st, (ast.FunctionDef, ast.AsyncFunctionDef, ast.ClassDef)):
            n = self._new('stmt', st, label=' [def]')
            self._connect(preds, n)
            return [(n, 'n')], []
        if hasattr(ast, 'Match') and isinstance(st, ast.Match):
            # the subject, then one node per case (kind 'case': pattern matched -> 'T', else 'F' to the next case; a guard is
            # an ordinary test behind it); an irrefutable last case (`case _:` / a bare capture without guard) has no 'F' side
            subj = self._new('stmt', st.subject, label=' [match-subject]')
            self._connect(preds, subj)
            jumps = []
            cls = self.may_raise(st.subject)
            if cls:
                jumps.append(self._raise_jump(subj, cls))
            cur = [(subj, 'n')]
            normal = []
            for case in st.cases:
                cn = self._new('case', case, label=' [case]')
                self._connect(cur, cn)
                enter = [(cn, 'T')]
                nxt = []
                irrefutable = isinstance(case.pattern, ast.MatchAs) and case.pattern.pattern is None
                if not irrefutable:
                    nxt.append((cn, 'F'))
                if case.guard is not None:
                    g = self._new('test', case.guard)
                    self._connect(enter, g)
                    gcls = self.may_raise(case.guard)
                    if gcls:
                        jumps.append(self._raise_jump(g, gcls))
                    enter = [(g, 'T')]
                    nxt.append((g, 'F'))
                bnormal, bj = self._block(case.body, enter, hc)
                normal.extend(bnormal)
                jumps.extend(bj)
                cur = nxt
                if not cur:
                    break
            return normal + cur, jumps
        return self._simple(st, preds, hc)

    def _handler_types(self, h):
        """-> frozenset of class names, or None for a bare except"""
        if h.type is None:
            return None
        elts = h.type.elts if isinstance(h.type, ast.Tuple) else [h.type]
        res = set()
        for e in elts:
            c = self._exc_class(e)
            res.add(c or f'<unknown:{src(e, 40)}>')
        return frozenset(res)

    def _catches(self, cls, htypes):
        """'always' | 'maybe' | 'never' : does a handler with htypes catch exception class cls"""
        if htypes is None:
            return 'always'
        m = self.model
        verdict = 'never'
        for t in htypes:
            if t.startswith('<unknown'):
                verdict = 'maybe'
                continue
            if t in ('builtins.BaseException',):
                return 'always'
            if m is None:
                if t == cls or t == 'builtins.Exception':
                    return 'always'
                verdict = 'maybe'
                continue
            if m.is_subclass(cls, t):
                return 'always'
            if m.is_subclass(t, cls):
                verdict = 'maybe'
        return verdict

    def _try(self, st, preds, hc):
        bnormal, bj = self._block(st.body, preds, hc)
        out_jumps = []
        handler_entries = []
        for h in st.handlers:
            hn = self._new('handler', h)
            self.nodes[hn].handler = h
            handler_entries.append((h, hn, self._handler_types(h)))
        for j in bj:
            if j.kind != 'raise':
                out_jumps.append(j)
                continue
            remaining = set(j.classes or {'builtins.Exception'})
            for h, hn, htypes in handler_entries:
                if not remaining:
                    break
                caught_always = set()
                for c in remaining:
                    v = self._catches(c, htypes)
                    if v != 'never':
                        self._connect(j.edges, hn)
                    if v == 'always':
                        caught_always.add(c)
                remaining -= caught_always
            if remaining:
                out_jumps.append(Jump('raise', list(j.edges), frozenset(remaining)))
        normal = []
        # else clause
        if st.orelse:
            onormal, oj = self._block(st.orelse, bnormal, hc)
            normal.extend(onormal)
            out_jumps.extend(oj)
        else:
            normal.extend(bnormal)
        # handler bodies
        for h, hn, htypes in handler_entries:
            if not self.pred[hn]:
                # handler never entered (nothing in the body may raise a matching class):
                # still build it, rules may want to look at it; it stays unreachable
                pass
            inner_hc = htypes if htypes is not None else frozenset({'builtins.BaseException'})
            if htypes is not None and any(t.startswith('<unknown') for t in htypes):
                inner_hc = frozenset({'builtins.Exception'})
            hnormal, hj = self._block(h.body, [(hn, 'n')], inner_hc)
            normal.extend(hnormal)
            out_jumps.extend(hj)
        if not st.finalbody:
            return normal, out_jumps
        # finally: one copy per continuation kind
        res_normal = []
        res_jumps = []
        if normal:
            fnormal, fj = self._block(st.finalbody, normal, hc)
            res_normal.extend(fnormal)
            res_jumps.extend(fj)
        bykind = {}
        for j in out_jumps:
            key = j.kind if j.kind != 'raise' else ('raise', j.classes)
            bykind.setdefault(key, []).append(j)
        for key, js in bykind.items():
            edges = [e for j in js for e in j.edges]
            fnormal, fj = self._block(st.finalbody, edges, hc)
            res_jumps.extend(fj)
            if fnormal:
                j0 = js[0]
                res_jumps.append(Jump(j0.kind, fnormal, j0.classes))
        return res_normal, res_jumps

    # ------------------------------------------------------------------ queries
    def ids(self, astnode):
        """cfg node ids for an ast statement / test expression (several when inside finally)"""
        return list(self.by_ast.get(id(astnode), []))

    def node_of(self, astnode):
        """cfg node ids of the statement containing astnode (walks up the parents)"""
        n = astnode
        while n is not None:
            if id(n) in self.by_ast:
                return list(self.by_ast[id(n)])
            n = getattr(n, 'parent', None)
        return []

    def reach(self, sources, avoid=(), exc=True, labels=None):
        """set of node ids reachable from sources (sources themselves only if re-reached) without
        entering any node in `avoid`.  exc=False ignores exceptional edges."""
        avoid = set(avoid)
        seen = set()
        stack = []
        for s in sources:
            for b, lab in self.succ[s]:
                if (exc or lab != 'exc') and b not in avoid and (labels is None or lab in labels):
                    stack.append(b)
        while stack:
            n = stack.pop()
            if n in seen:
                continue
            seen.add(n)
            for b, lab in self.succ[n]:
                if (exc or lab != 'exc') and b not in avoid and b not in seen:
                    stack.append(b)
        return seen

    def reach_from_entry(self, avoid=(), exc=True):
        r = self.reach([self.entry], avoid, exc)
        r.add(self.entry)
        return r

    def dominates(self, a_ids, b, exc=True):
        """every path entry -> b passes through one of a_ids"""
        a_ids = set(a_ids)
        if b in a_ids:
            return True
        return b not in self.reach_from_entry(avoid=a_ids, exc=exc)

    def all_paths_pass(self, src_ids, dst_ids, via_ids, exc=True):
        """every path from any src to any dst passes through a via node"""
        r = self.reach(src_ids, avoid=set(via_ids), exc=exc)
        return not (r & set(dst_ids))

    def reachable(self, a, b, exc=True):
        return b in self.reach([a], exc=exc)

    def live_nodes(self, exc=True):
        return self.reach_from_entry(exc=exc)

    def stmt_nodes(self):
        return [n for n in self.nodes if n.ast is not None]

    def dump(self):
        out = []
        for n in self.nodes:
            out.append(f'{n!r} -> {self.succ[n.id]}')
        return '\n'.join(out)
