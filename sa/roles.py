"""Anchors located by role (semantic first, name as fall-back).  A missing anchor raises AnchorMissing."""
import ast

from sa.model import AnchorMissing, body_walk, call_attr, calls_in, const_str, dotted
from sa.lib import local_assigns, origins

MODULEBASE = 'frappy.modulebase'
HASACC = 'frappy.modulebase.HasAccessibles'
MODULE = 'frappy.modulebase.Module'
DISPATCHER = 'frappy.protocol.dispatcher.Dispatcher'
PARAMETER = 'frappy.params.Parameter'
COMMAND = 'frappy.params.Command'
DATATYPE = 'frappy.datatypes.DataType'
HANDLER = 'frappy.protocol.interface.handler.RequestHandler'
CLIENT = 'frappy.client.SecopClient'
PROXYCLIENT = 'frappy.client.ProxyClient'


def _prefix_of(expr, funcnode):
    """constant string prefix of `'write_' + pname` style expressions (following one local assignment)"""
    for o in origins(expr, funcnode):
        if isinstance(o, ast.BinOp) and isinstance(o.op, ast.Add):
            s = const_str(o.left)
            if s:
                return s
        if isinstance(o, ast.JoinedStr) and o.values and isinstance(o.values[0], ast.Constant):
            return str(o.values[0].value)
        s = const_str(o)
        if s:
            return s
    return None


def wrappers(m):
    """-> {'read': [FuncInfo...], 'write': [FuncInfo...]}: nested functions of
    HasAccessibles.__init_subclass__ stored into cls.wrappedAttributes under a 'read_'/'write_' key"""
    hook = m.method(HASACC, '__init_subclass__', inherited=False)
    res = {'read': [], 'write': []}
    for n in body_walk(hook.node):
        if isinstance(n, ast.Assign) and len(n.targets) == 1 and isinstance(n.targets[0], ast.Subscript):
            t = n.targets[0]
            if dotted(t.value) and dotted(t.value).endswith('wrappedAttributes') and isinstance(n.value, ast.Name):
                prefix = _prefix_of(t.slice, hook.node)
                kind = {'read_': 'read', 'write_': 'write'}.get(prefix)
                if kind:
                    for fi in hook.nested.get(n.value.id, []):
                        res[kind].append(fi)
    if not res['read'] or not res['write']:
        raise AnchorMissing('read/write wrappers in HasAccessibles.__init_subclass__ not found '
                            '(no nested function stored into cls.wrappedAttributes under read_/write_ key)')
    return res


def write_wrapper(m):
    ws = wrappers(m)['write']
    return ws[0]


def read_wrapper_with_driver_call(m):
    """the read wrapper that calls the driver's read function (the other one only returns the cache)"""
    for fi in wrappers(m)['read']:
        for c in calls_in(fi.node):
            if isinstance(c.func, ast.Name) and c.func.id in _param_names(fi.node) and c.func.id != 'self':
                return fi
    raise AnchorMissing('read wrapper calling the driver read function not found')


def _param_names(funcnode):
    a = funcnode.args
    return {x.arg for x in a.posonlyargs + a.args + a.kwonlyargs}


def driver_calls_in_wrapper(fi):
    """calls of a function passed in as default argument (rfunc / wfunc): the driver call"""
    params = _param_names(fi.node)
    res = []
    for c in calls_in(fi.node):
        if isinstance(c.func, ast.Name) and c.func.id in params and c.func.id not in ('self', 'validate'):
            # must be called with self as first argument: rfunc(self) / wfunc(self, v)
            if c.args and isinstance(c.args[0], ast.Name) and c.args[0].id == 'self':
                res.append(c)
    return res


def cache_funnel(m):
    """the method called by Parameter.__set__ on the module object"""
    setter = m.method(PARAMETER, '__set__', inherited=False)
    names = [call_attr(c) for c in calls_in(setter.node)]
    for n in names:
        if n and m.has_method(MODULE, n):
            return m.method(MODULE, n)
    # name fall-back: the setter no longer calls it (C05.R4 reports that)
    if m.has_method(MODULE, 'announceUpdate'):
        return m.method(MODULE, 'announceUpdate')
    raise AnchorMissing('Parameter.__set__ does not call a Module method (cache funnel not found)')


def poll_thread(m):
    """target of the mkthread call in Module.startModule"""
    start = m.method(MODULE, 'startModule', inherited=False)
    for c in calls_in(start.node):
        if dotted(c.func) in ('mkthread', 'threading.Thread') and (c.args or c.keywords):
            tgt = c.args[0] if c.args else None
            for k in c.keywords:
                if k.arg == 'target':
                    tgt = k.value
            if isinstance(tgt, ast.Attribute) and dotted(tgt.value) == 'self':
                if m.has_method(MODULE, tgt.attr, inherited=False):
                    fi = m.method(MODULE, tgt.attr, inherited=False)
                    # a thin wrapper (no loop of its own) around the real body: follow it one level
                    if not any(isinstance(n, ast.While) for n in body_walk(fi.node)):
                        for c2 in calls_in(fi.node):
                            if isinstance(c2.func, ast.Attribute) and dotted(c2.func.value) == 'self' and m.has_method(MODULE, c2.func.attr, inherited=False):
                                g = m.method(MODULE, c2.func.attr, inherited=False)
                                if any(isinstance(n, ast.While) for n in body_walk(g.node)):
                                    return g
                    return fi
    raise AnchorMissing('poll thread body (mkthread target in Module.startModule) not found')


def dispatch_prefix(m):
    """prefix used in getattr(self, f'handle_{action}') of Dispatcher.handle_request"""
    hr = m.method(DISPATCHER, 'handle_request', inherited=False)
    for c in calls_in(hr.node):
        if dotted(c.func) == 'getattr' and len(c.args) >= 2:
            a = c.args[1]
            if isinstance(a, ast.JoinedStr) and a.values and isinstance(a.values[0], ast.Constant):
                return hr, str(a.values[0].value), c
            if isinstance(a, ast.BinOp) and const_str(a.left):
                return hr, const_str(a.left), c
    raise AnchorMissing('prefix dispatch getattr(self, f"handle_{action}") not found in Dispatcher.handle_request')


def dispatch_handlers(m):
    hr, prefix, call = dispatch_prefix(m)
    ci = m.cls(DISPATCHER)
    res = {name[len(prefix):]: fi for name, fi in ci.methods.items() if name.startswith(prefix) and name != 'handle_request'}
    if not res:
        raise AnchorMissing('no handle_* methods in Dispatcher')
    return prefix, res
