"""Testing the checker both ways (thorough tier).

firing variants: single edits of the real source (a reverted fix, a deleted guard, a swapped order ...) that still
compile; the check of the property must exit 1 and name the construct.
silent variants: behaviour-preserving rewrites of the same construct; the check must stay silent.

Every variant is applied to a scratch copy of /repo's package directories under $TMPDIR (outside /repo and /verif),
which is removed immediately afterwards.  A variant whose anchor text is no longer present in /repo is skipped and
counted - the self-test can never produce a VIOLATION line for /repo; a wrong verdict of the checker is reported as
SELFTEST-FAIL and makes the run exit 2 (analysis error).
"""
import json
import os
import py_compile
import shutil
import subprocess
import sys
import tempfile
from concurrent.futures import ThreadPoolExecutor

VERIF = os.path.dirname(os.path.dirname(os.path.abspath(__file__)))
REPO = os.environ.get('VERIF_REPO', '/repo')
PKGS = ('frappy',)


def load_variants():
    sys.path.insert(0, os.path.join(VERIF, 'selftest'))
    import importlib
    mod = importlib.import_module('variants')
    res = list(mod.VARIANTS)
    # reverted fixes
    kf = json.load(open(os.path.join(VERIF, 'known_findings.json')))
    bycommit = {}
    for e in kf.get('fixed', []):
        bycommit.setdefault(e['commit'], []).append(e)
    for sha, entries in sorted(bycommit.items()):
        path = os.path.join(VERIF, 'selftest', 'reverts', f'{sha}.diff')
        if not os.path.exists(path):
            continue
        for prop in sorted({e['property'] for e in entries}):
            keys = [e['key'] for e in entries if e['property'] == prop]
            res.append({'id': f'revert-{sha}-{prop}', 'prop': prop, 'kind': 'firing', 'patch': path, 'expect': keys})
    # independently seeded changes that the checks catch (after strengthening): must stay caught
    import glob
    for meta in sorted(glob.glob(os.path.join(VERIF, 'seeded', '*', 'meta.json'))):
        m = json.load(open(meta))
        sid = os.path.basename(os.path.dirname(meta))
        for prop, keys in (m.get('caught_after_strengthening') or {}).items():
            res.append({'id': f'seed-{sid}-{prop}', 'prop': prop, 'kind': 'firing', 'patch': os.path.join(os.path.dirname(meta), 'patch.diff'),
                        'expect': [k for k in keys[:2]]})
    # behaviour-preserving refactorings written by independent sub-agents: silent for every property whose anchored
    # files they touch
    anchors = {}
    try:
        for line in open(os.path.join(VERIF, 'properties.jsonl'), encoding='utf-8'):
            pr = json.loads(line)
            anchors[pr['id']] = set(pr['anchors']['files'])
    except OSError:
        pass
    for path in sorted(glob.glob(os.path.join(VERIF, 'selftest', 'refactors', '*.diff'))):
        touched = {l[6:].split('\t')[0].strip() for l in open(path, encoding='utf-8') if l.startswith('+++ b/')}
        for prop, files in sorted(anchors.items()):
            if touched & files:
                res.append({'id': f'refactor-{os.path.basename(path)[:-5]}-{prop}', 'prop': prop, 'kind': 'silent', 'patch': path})
    return res


def _scratch():
    base = tempfile.mkdtemp(prefix='frappy-selftest-', dir=os.environ.get('TMPDIR') or None)
    for p in PKGS:
        shutil.copytree(os.path.join(REPO, p), os.path.join(base, p), ignore=shutil.ignore_patterns('__pycache__', 'gui'))
    return base


def _apply(base, v):
    """-> (ok, touched file list, reason)"""
    if 'patch' in v:
        r = subprocess.run(['patch', '-p1', '-s', '-f', '--no-backup-if-mismatch', '-i', v['patch']], cwd=base,
                           capture_output=True, text=True)
        if r.returncode != 0:
            return False, [], 'revert patch does not apply (repository changed)'
        return True, [], ''
    path = os.path.join(base, v['file'])
    try:
        s = open(path, encoding='utf-8').read()
    except OSError:
        return False, [], 'file missing'
    if s.count(v['old']) != 1:
        return False, [], f'anchor text found {s.count(v["old"])} times'
    open(path, 'w', encoding='utf-8').write(s.replace(v['old'], v['new']))
    try:
        compile(open(path, encoding='utf-8').read(), path, 'exec')
    except SyntaxError as e:
        return False, [], f'variant does not compile: {e}'
    return True, [path], ''


def run_variant(v):
    base = _scratch()
    try:
        ok, _, why = _apply(base, v)
        if not ok:
            return dict(v, verdict='skipped', why=why)
        env = dict(os.environ, VERIF_REPO=base, VERIF_NO_EVIDENCE='1', PYTHONDONTWRITEBYTECODE='1')
        env['VERIF_NO_SELFTEST'] = '1'
        r = subprocess.run([sys.executable, os.path.join(VERIF, 'check'), v['prop'], '--tier', v.get('tier', 'quick')], env=env,
                           capture_output=True, text=True, timeout=300)
        out = r.stdout
        if v['kind'] == 'firing':
            exp = v['expect'] if isinstance(v['expect'], list) else [v['expect']]
            named = all(any(e in line for line in out.splitlines()) for e in exp)
            if r.returncode == 1 and named:
                return dict(v, verdict='ok')
            return dict(v, verdict='missed', why=f'rc={r.returncode}; expected a violation naming {exp}; output: {out[-600:]}')
        if r.returncode == 0:
            return dict(v, verdict='ok')
        return dict(v, verdict='alarm', why=f'rc={r.returncode}; output: {out[-800:]}')
    finally:
        shutil.rmtree(base, ignore_errors=True)


def run(props=None, jobs=16):
    vs = [v for v in load_variants() if props is None or v['prop'] in props]
    with ThreadPoolExecutor(max_workers=jobs) as ex:
        res = list(ex.map(run_variant, vs))
    return res


def tally(res):
    t = {'firing_ok': 0, 'firing_missed': 0, 'silent_ok': 0, 'silent_alarm': 0, 'skipped': 0}
    for r in res:
        if r['verdict'] == 'skipped':
            t['skipped'] += 1
        elif r['kind'] == 'firing':
            t['firing_ok' if r['verdict'] == 'ok' else 'firing_missed'] += 1
        else:
            t['silent_ok' if r['verdict'] == 'ok' else 'silent_alarm'] += 1
    return t


def undefined_names_in_rule_sources():
    """lint of the checker itself: a global name that a rule function reads but no module defines would end a rule with a
    NameError the first time a rewritten tree takes it down that path (it happened: an `AnchorMissing` that was never imported
    turned an honest "can not decide" into a traceback).  -> list of "<file>: <name> in <function>" """
    import builtins
    import glob
    import importlib
    import symtable
    out = []
    for path in sorted(glob.glob(os.path.join(VERIF, 'sa', 'rules', '*.py'))) + sorted(glob.glob(os.path.join(VERIF, 'sa', '*.py'))):
        modname = path[len(VERIF) + 1:-3].replace(os.sep, '.')
        try:
            mod = importlib.import_module(modname)
            text = open(path).read()
            tab = symtable.symtable(text, path, 'exec')
        except Exception as e:       # pragma: no cover
            out.append(f'{path}: can not be loaded: {e!r}')
            continue
        guarded = {w.split("'")[1] for w in text.split() if w.startswith("'") and w.count("'") >= 2 and " in globals()" in text and f"{w} in globals()" in text}

        def walk(t):
            for sym in t.get_symbols():
                n = sym.get_name()
                if sym.is_global() and sym.is_referenced() and not sym.is_assigned() and not hasattr(mod, n) and not hasattr(builtins, n) and n not in guarded:
                    out.append(f'{path}: {n} in {t.get_name()}')
            for c in t.get_children():
                walk(c)
        walk(tab)
    return out


def run_for_property(prop):
    """called by the thorough tier after the property held on /repo; returns exit code (0 or 2)"""
    res = run({prop})
    t = tally(res)
    print(f'SELFTEST {prop} {t}')
    undefined = undefined_names_in_rule_sources()
    for u in undefined:
        print(f'SELFTEST-FAIL undefined name in the checker: {u}')
    bad = [r for r in res if r['verdict'] in ('missed', 'alarm')]
    for r in bad:
        print(f'SELFTEST-FAIL {r["id"]} ({r["kind"]}): {r.get("why", "")[:700]}')
    for r in res:
        if r['verdict'] == 'skipped':
            print(f'SELFTEST-SKIP {r["id"]}: {r.get("why", "")}')
    # merge into the evidence written by the property run
    path = os.path.join(VERIF, 'evidence', f'{prop}.json')
    try:
        ev = json.load(open(path))
        ev['coverage']['selftest'] = dict(t, variants=[{'id': r['id'], 'kind': r['kind'], 'verdict': r['verdict']} for r in res])
        json.dump(ev, open(path, 'w'), indent=1)
    except Exception as e:  # pragma: no cover
        print(f'ANALYSIS-ERROR can not update evidence: {e!r}')
        return 2
    return 2 if (bad or undefined) else 0


if __name__ == '__main__':
    props = set(sys.argv[1:]) or None
    res = run(props)
    for r in res:
        if r['verdict'] != 'ok':
            print(r['id'], r['kind'], r['verdict'], r.get('why', '')[:900])
    print(tally(res))
    for u in undefined_names_in_rule_sources():
        print('undefined name in the checker:', u)
