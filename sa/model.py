"""Program model: parsed modules, import tables, classes with MRO, functions (incl. nested).

Never imports repository code.  Everything is keyed by dotted qualified names, e.g.
``frappy.modulebase.Module.announceUpdate`` or, for closures,
``frappy.modulebase.HasAccessibles.__init_subclass__.new_wfunc``.
"""
import ast
import builtins
import hashlib
import os


class AnchorMissing(Exception):
    """the construct a rule is about can not be found at all -> analysis error (exit 2).

    When `violation` names a construct, the absence itself breaks the property (an obligation of the form
    "X must be present"): the runner then records a violated obligation instead of an analysis error."""

    def __init__(self, msg, violation=None):
        super().__init__(msg)
        self.violation = violation


UNKNOWN = object()


# --------------------------------------------------------------------------- ast helpers

def dotted(node):
    """'a.b.c' for Name/Attribute chains, else None"""
    parts = []
    while isinstance(node, ast.Attribute):
        parts.append(node.attr)
        node = node.value
    if isinstance(node, ast.Name):
        parts.append(node.id)
        return '.'.join(reversed(parts))
    return None


def src(node, maxlen=2000):
    try:
        s = ast.unparse(node)
    except Exception:  # pragma: no cover
        s = repr(node)
    s = ' '.join(s.split())
    return s if len(s) <= maxlen else s[:maxlen - 3] + '...'


FUNC_TYPES = (ast.FunctionDef, ast.AsyncFunctionDef, ast.Lambda)
MAX_SHARED_HELPER_STMTS = 12
MAX_HELPER_USES = int(os.environ.get("VERIF_HELPER_USES", "3"))    # private helpers with up to this many references are analysed in place
SCOPE_TYPES = FUNC_TYPES + (ast.ClassDef,)


def walk_local(node, into_lambda=False):
    """walk the subtree in source order, not descending into nested function / class
    definitions (their bodies do not execute here).  Lambdas are skipped unless into_lambda.
    When node itself is a function definition, its own body is walked."""
    stack = [node]
    while stack:
        n = stack.pop()
        yield n
        children = []
        for c in ast.iter_child_nodes(n):
            if isinstance(c, (ast.FunctionDef, ast.AsyncFunctionDef, ast.ClassDef)):
                continue
            if isinstance(c, ast.Lambda) and not into_lambda:
                continue
            children.append(c)
        stack.extend(reversed(children))


def body_walk(funcnode, into_lambda=False):
    """all nodes executing as part of funcnode's own body (no nested defs)"""
    if isinstance(funcnode, ast.Lambda):
        yield from walk_local(funcnode.body, into_lambda)
        return
    for st in funcnode.body:
        if isinstance(st, (ast.FunctionDef, ast.AsyncFunctionDef, ast.ClassDef)):
            continue
        yield from walk_local(st, into_lambda)


def calls_in(node, into_lambda=False):
    if isinstance(node, (ast.FunctionDef, ast.AsyncFunctionDef, ast.Lambda)):
        it = body_walk(node, into_lambda)
    else:
        it = walk_local(node, into_lambda)
    for n in it:
        if isinstance(n, ast.Call):
            yield n


def call_name(call):
    return dotted(call.func)


def call_attr(call):
    """last component of the callee ('validate' for x.y.validate(...))"""
    f = call.func
    if isinstance(f, ast.Attribute):
        return f.attr
    if isinstance(f, ast.Name):
        return f.id
    return None


_NEG_CMP = {ast.Is: ast.IsNot, ast.IsNot: ast.Is, ast.In: ast.NotIn, ast.NotIn: ast.In, ast.Eq: ast.NotEq, ast.NotEq: ast.Eq}


def _push_not(e):
    """the negation of expression e with the `not` pushed inwards as far as it is exact: double negation, De Morgan, and
    the comparison kinds that have an exact opposite (is / in / ==).  Ordering comparisons are NOT flipped: `not (a < b)` and
    `a >= b` differ for NaN, and that difference is what some rules decide."""
    if isinstance(e, ast.UnaryOp) and isinstance(e.op, ast.Not):
        return _norm_expr(e.operand)
    if isinstance(e, ast.BoolOp):
        new = ast.BoolOp(op=ast.Or() if isinstance(e.op, ast.And) else ast.And(), values=[_push_not(v) for v in e.values])
        return ast.copy_location(new, e)
    if isinstance(e, ast.Compare) and len(e.ops) == 1 and type(e.ops[0]) in _NEG_CMP:
        new = ast.Compare(left=e.left, ops=[_NEG_CMP[type(e.ops[0])]()], comparators=e.comparators)
        return ast.copy_location(new, e)
    new = ast.UnaryOp(op=ast.Not(), operand=_norm_expr(e))
    return ast.copy_location(new, e)


def _norm_expr(e):
    if isinstance(e, ast.UnaryOp) and isinstance(e.op, ast.Not):
        return _push_not(e.operand)
    if isinstance(e, ast.BoolOp):
        vals = []
        for v in e.values:
            nv = _norm_expr(v)
            if isinstance(nv, ast.BoolOp) and type(nv.op) is type(e.op):
                vals.extend(nv.values)       # (a and (b and c)) -> (a and b and c): same evaluation order
            else:
                vals.append(nv)
        return ast.copy_location(ast.BoolOp(op=e.op, values=vals), e)
    return e


def normalize_tests(tree):
    """canonical form of the conditions of if / while / conditional expressions / comprehension filters, so that rules see the
    same test for logically identical spellings: negations are pushed inwards (double negation, De Morgan, `not (x is None)`
    -> `x is not None`, `not (a in b)`, `not (a == b)`), and `if not X: A else: B` (a negated test with an else branch) is
    turned into `if X: B else: A`.  Nothing else is touched; evaluation order and short-circuiting are unchanged."""
    for n in ast.walk(tree):
        if isinstance(n, (ast.If, ast.While, ast.IfExp)):
            n.test = _norm_expr(n.test)
            if isinstance(n, ast.If) and n.orelse and isinstance(n.test, ast.UnaryOp) and isinstance(n.test.op, ast.Not) \
                    and not (len(n.orelse) == 1 and isinstance(n.orelse[0], ast.If) and n.orelse[0].col_offset == n.col_offset):
                n.test = n.test.operand
                n.body, n.orelse = n.orelse, n.body
            elif isinstance(n, ast.IfExp) and isinstance(n.test, ast.UnaryOp) and isinstance(n.test.op, ast.Not):
                n.test = n.test.operand
                n.body, n.orelse = n.orelse, n.body
        if isinstance(n, ast.If) and n.orelse and isinstance(n.test, ast.BoolOp) and len(n.test.values) > 1 and \
                all(isinstance(v, ast.UnaryOp) and isinstance(v.op, ast.Not) for v in n.test.values) and \
                not (len(n.orelse) == 1 and isinstance(n.orelse[0], ast.If) and n.orelse[0].col_offset == n.col_offset):
            # `if not a or not b: X else: Y` reads `if a and b: Y else: X` (De Morgan, branches swapped)
            op = ast.And() if isinstance(n.test.op, ast.Or) else ast.Or()
            n.test = ast.copy_location(ast.BoolOp(op=op, values=[v.operand for v in n.test.values]), n.test)
            n.body, n.orelse = n.orelse, n.body
        if isinstance(n, ast.If) and n.orelse and all(isinstance(x, ast.Pass) for x in n.orelse):
            n.orelse = []
        if isinstance(n, ast.comprehension):
            n.ifs = [_norm_expr(x) for x in n.ifs]
        elif isinstance(n, ast.Assert):
            n.test = _norm_expr(n.test)


def set_parents(tree):
    for n in ast.walk(tree):
        for c in ast.iter_child_nodes(n):
            c.parent = n
    tree.parent = None


def ancestors(node):
    n = getattr(node, 'parent', None)
    while n is not None:
        yield n
        n = getattr(n, 'parent', None)


def enclosing_stmt(node):
    """the statement node containing (or being) node"""
    n = node
    while n is not None and not isinstance(n, ast.stmt):
        n = getattr(n, 'parent', None)
    return n


def enclosing_func(node):
    for a in ancestors(node):
        if isinstance(a, FUNC_TYPES):
            return a
    return None


def const_str(node):
    if isinstance(node, ast.Constant) and isinstance(node.value, str):
        return node.value
    return None


def kwarg(call, name):
    for k in call.keywords:
        if k.arg == name:
            return k.value
    return None


def is_name(node, name):
    return isinstance(node, ast.Name) and node.id == name


def names_in(node):
    return {n.id for n in ast.walk(node) if isinstance(n, ast.Name)}


def stmt_lists(node):
    """yield every statement list contained (directly) in a compound statement"""
    for field in ('body', 'orelse', 'finalbody'):
        lst = getattr(node, field, None)
        if isinstance(lst, list) and lst and isinstance(lst[0], ast.stmt):
            yield lst
    for h in getattr(node, 'handlers', []) or []:
        yield h.body


# --------------------------------------------------------------------------- infos

class ModuleInfo:
    def __init__(self, name, path, relpath, source, tree):
        self.name = name
        self.path = path
        self.relpath = relpath
        self.source = source
        self.tree = tree
        self.imports = {}     # local name -> dotted target
        self.consts = {}      # name -> ast expr of module-level simple assignment
        self.digest = hashlib.sha256(source.encode()).hexdigest()[:16]
        self.is_package = os.path.basename(path) == '__init__.py'


class ClassInfo:
    def __init__(self, qualname, node, module):
        self.qualname = qualname
        self.name = node.name
        self.node = node
        self.module = module
        self.base_exprs = node.bases
        self.bases = []        # resolved qualnames (or dotted external names)
        self.methods = {}      # name -> FuncInfo (own)
        self.assigns = {}      # class-level attr -> value expr (last assignment)
        self.mro = None


_KNOWN_NAMES = None


def _names_known_to_rules():
    """identifiers that occur as string constants in the rule sources: methods the rules look up by name"""
    global _KNOWN_NAMES
    if _KNOWN_NAMES is None:
        import re
        res = set()
        here = os.path.dirname(os.path.abspath(__file__))
        files = [os.path.join(here, f) for f in os.listdir(here) if f.endswith('.py')]
        files += [os.path.join(here, 'rules', f) for f in os.listdir(os.path.join(here, 'rules')) if f.endswith('.py')]
        for path in files:
            try:
                tree = ast.parse(open(path, encoding='utf-8').read())
            except (OSError, SyntaxError):
                continue
            for n in ast.walk(tree):
                # a string constant that IS an identifier / a dotted name (what m.method(cls, 'name') and friends take), not
                # the words of messages and doc strings
                if isinstance(n, ast.Constant) and isinstance(n.value, str) and re.fullmatch(r'[A-Za-z_][A-Za-z0-9_.]*', n.value):
                    res.update(n.value.split('.'))
        _KNOWN_NAMES = res
    return _KNOWN_NAMES


MAX_FORMULA_USES = 12
_FORMULA_FUNCS = {'int', 'round', 'float', 'abs', 'min', 'max', 'len', 'bool', 'str', 'isinstance', 'divmod', 'pow'}


def _pure_expr(e):
    """an argument expression without calls or side effects: names, constants, attributes of names, arithmetic on those"""
    ok = (ast.Name, ast.Constant, ast.Attribute, ast.BinOp, ast.UnaryOp, ast.operator, ast.unaryop, ast.expr_context)
    return isinstance(e, (ast.BinOp, ast.UnaryOp)) and all(isinstance(n, ok) for n in ast.walk(e))


def _is_predicate(e):
    return isinstance(e, (ast.Compare, ast.BoolOp)) or (isinstance(e, ast.UnaryOp) and isinstance(e.op, ast.Not))


def _inline_local_closures(root):
    """a local function of ONE return statement that is only ever called by its name in the enclosing function itself
    (`def forms(as_float): return as_float(value), int(value)` ... `a, b = forms(float)`): the returned expression is read in
    place of each call, and a lambda that came in as an argument is applied (`(lambda v: v + 0.0)(value)` reads `value + 0.0`).
    The names the expression takes from the enclosing function must not be re-bound after the definition.  Returns True when
    something was rewritten"""
    changed = False
    stores = {}
    for n in walk_local(root):
        if isinstance(n, ast.Name) and isinstance(n.ctx, (ast.Store, ast.Del)):
            stores.setdefault(n.id, []).append(n)
    for g in _local_defs(root):
        owner = getattr(g, 'parent', None)
        while owner is not None and not isinstance(owner, FUNC_TYPES + (ast.Lambda, ast.For, ast.AsyncFor, ast.While)):
            owner = getattr(owner, 'parent', None)
        if owner is not root or g.decorator_list:
            continue
        body = [x for x in g.body if not (isinstance(x, ast.Expr) and isinstance(x.value, ast.Constant) and isinstance(x.value.value, str))]
        if len(body) != 1 or not isinstance(body[0], ast.Return) or body[0].value is None:
            continue
        expr = body[0].value
        if any(isinstance(x, (ast.Yield, ast.YieldFrom, ast.Await, ast.NamedExpr, ast.Lambda, ast.ListComp, ast.SetComp, ast.DictComp, ast.GeneratorExp))
               for x in ast.walk(expr)):
            continue
        a = g.args
        if a.vararg or a.kwarg or a.kwonlyargs or a.posonlyargs or a.defaults:
            continue
        params = [x.arg for x in a.args]
        free = {x.id for x in ast.walk(expr) if isinstance(x, ast.Name)} - set(params)
        if any(getattr(st_, 'lineno', 0) >= g.lineno for nm in free for st_ in stores.get(nm, [])) or len(stores.get(g.name, [])) > 0:
            continue
        loads = [x for x in ast.walk(root) if isinstance(x, ast.Name) and x.id == g.name and isinstance(x.ctx, ast.Load)]
        calls = []
        for x in loads:
            p = getattr(x, 'parent', None)
            own = p
            while own is not None and not isinstance(own, FUNC_TYPES + (ast.Lambda,)):
                own = getattr(own, 'parent', None)
            if not (isinstance(p, ast.Call) and p.func is x and own is root and not p.keywords and len(p.args) == len(params)
                    and all(isinstance(v, (ast.Name, ast.Constant, ast.Lambda)) or (isinstance(v, ast.Attribute) and dotted(v)) or _pure_expr(v) for v in p.args)):
                calls = None
                break
            calls.append(p)
        if not calls or len(calls) > 4:
            continue
        for c in calls:
            binding = dict(zip(params, c.args))

            class _Sub(ast.NodeTransformer):
                def visit_Name(self, node, binding=binding):
                    if isinstance(node.ctx, ast.Load) and node.id in binding:
                        return ast.copy_location(_clone_ast(binding[node.id]), node)
                    return node
            new = ast.fix_missing_locations(ast.copy_location(_Sub().visit(_clone_ast(expr)), c))
            par = c.parent
            for f_, v in ast.iter_fields(par):
                if v is c:
                    setattr(par, f_, new)
                elif isinstance(v, list) and any(y is c for y in v):
                    v[:] = [new if y is c else y for y in v]
            changed = True
    if changed:
        class _Beta(ast.NodeTransformer):
            def visit_Call(self, node):
                self.generic_visit(node)
                f = node.func
                if isinstance(f, ast.Lambda) and not node.keywords and not (f.args.vararg or f.args.kwarg or f.args.kwonlyargs or f.args.posonlyargs or f.args.defaults) \
                        and len(f.args.args) == len(node.args) \
                        and all(isinstance(v, (ast.Name, ast.Constant)) or (isinstance(v, ast.Attribute) and dotted(v)) or _pure_expr(v) for v in node.args):
                    binding = dict(zip([x.arg for x in f.args.args], node.args))

                    class _Sub(ast.NodeTransformer):
                        def visit_Name(self, n2):
                            if isinstance(n2.ctx, ast.Load) and n2.id in binding:
                                return ast.copy_location(_clone_ast(binding[n2.id]), n2)
                            return n2
                    return ast.copy_location(_Sub().visit(_clone_ast(f.body)), node)
                return node
        _Beta().visit(root)
        ast.fix_missing_locations(root)
        set_parents(root)
    return changed


def _local_defs(root):
    """the function definitions directly inside root's own body (at any statement depth, not inside other definitions)"""
    res = []
    stack = list(root.body)
    while stack:
        n = stack.pop()
        if isinstance(n, ast.FunctionDef):
            res.append(n)
            continue
        if isinstance(n, (ast.AsyncFunctionDef, ast.ClassDef, ast.Lambda)):
            continue
        stack.extend(c for c in ast.iter_child_nodes(n) if isinstance(c, ast.stmt) or isinstance(c, ast.ExceptHandler) or isinstance(c, ast.match_case))
    return res


def _has_local_closure(root):
    for g in _local_defs(root):
        if True:
            body = [x for x in g.body if not (isinstance(x, ast.Expr) and isinstance(x.value, ast.Constant) and isinstance(x.value.value, str))]
            if len(body) == 1 and isinstance(body[0], ast.Return) and body[0].value is not None:
                return True
    return False


def _flag_locals(root):
    """locals bound exactly once (outside loops) to a comparison over names, constants and attributes that the function never
    stores, and read only where a truth value is asked for (`below = n < self.min` ... `if below or above:`): name -> expression"""
    params = {a.arg for a in root.args.posonlyargs + root.args.args + root.args.kwonlyargs} | {a.arg for a in (root.args.vararg, root.args.kwarg) if a}
    stores, loads = {}, {}
    attr_stores = set()
    for n in walk_local(root):
        if isinstance(n, ast.Name):
            (stores if isinstance(n.ctx, (ast.Store, ast.Del)) else loads).setdefault(n.id, []).append(n)
        elif isinstance(n, ast.Attribute) and isinstance(n.ctx, (ast.Store, ast.Del)) and dotted(n):
            attr_stores.add(dotted(n))
    ok = (ast.Name, ast.Constant, ast.Attribute, ast.Compare, ast.BoolOp, ast.UnaryOp, ast.BinOp, ast.operator, ast.unaryop, ast.cmpop, ast.boolop, ast.expr_context)
    res = {}
    for nm, sts in stores.items():
        if len(sts) != 1 or nm in params or nm not in loads:
            continue
        d = getattr(sts[0], 'parent', None)
        if not (isinstance(d, ast.Assign) and len(d.targets) == 1 and d.targets[0] is sts[0] and _is_predicate(d.value)
                and all(isinstance(x, ok) or (isinstance(x, ast.Call) and isinstance(x.func, ast.Name) and x.func.id in ('isinstance', 'hasattr', 'callable')
                                              and not x.keywords) or isinstance(x, ast.Tuple) for x in ast.walk(d.value))):
            continue
        if any(isinstance(a, (ast.For, ast.AsyncFor, ast.While, ast.Try, ast.With)) for a in ancestors(d)):
            continue
        names = {x.id for x in ast.walk(d.value) if isinstance(x, ast.Name)}
        if any(len(stores.get(x, [])) + (x in params) > 1 for x in names) or nm in names:
            continue
        if any(dotted(x) in attr_stores for x in ast.walk(d.value) if isinstance(x, ast.Attribute) and dotted(x)):
            continue
        if any(isinstance(x, ast.Attribute) and not dotted(x) for x in ast.walk(d.value)):
            continue

        def in_test(x):
            p, c = getattr(x, 'parent', None), x
            while isinstance(p, (ast.BoolOp, ast.UnaryOp)) and (not isinstance(p, ast.UnaryOp) or isinstance(p.op, ast.Not)):
                p, c = getattr(p, 'parent', None), p
            return isinstance(p, (ast.If, ast.While, ast.IfExp)) and p.test is c
        if not all(in_test(x) and getattr(x, 'lineno', 0) > d.lineno for x in loads[nm]):
            continue
        if any(isinstance(a, (ast.For, ast.AsyncFor, ast.While)) for x in loads[nm] for a in ancestors(x)):
            continue
        res[nm] = d.value
    return res


def _pattern_test(subject, pat):
    """the test a simple pattern stands for (class patterns without sub-patterns, constants, None/True/False, alternatives of
    those); True for the wildcard, None when the pattern binds names or looks inside the subject"""
    sub = lambda: _clone_ast(subject)
    if isinstance(pat, ast.MatchAs) and pat.pattern is None and pat.name is None:
        return True
    if isinstance(pat, ast.MatchClass) and not pat.patterns and not pat.kwd_patterns and dotted(pat.cls):
        return ast.Call(func=ast.Name(id='isinstance', ctx=ast.Load()), args=[sub(), _clone_ast(pat.cls)], keywords=[])
    if isinstance(pat, ast.MatchValue) and (isinstance(pat.value, ast.Constant) or dotted(pat.value)):
        return ast.Compare(left=sub(), ops=[ast.Eq()], comparators=[_clone_ast(pat.value)])
    if isinstance(pat, ast.MatchSingleton):
        return ast.Compare(left=sub(), ops=[ast.Is()], comparators=[ast.Constant(value=pat.value)])
    if isinstance(pat, ast.MatchOr):
        parts = [_pattern_test(subject, p) for p in pat.patterns]
        if any(p is None or p is True for p in parts):
            return None
        if all(isinstance(p, ast.Call) for p in parts):
            return ast.Call(func=ast.Name(id='isinstance', ctx=ast.Load()), args=[sub(), ast.Tuple(elts=[p.args[1] for p in parts], ctx=ast.Load())], keywords=[])
        return ast.BoolOp(op=ast.Or(), values=parts)
    return None


def _lower_match(root):
    """`match x: case A() | B(): S1  case _: S2` over a plain name / dotted name reads `if isinstance(x, (A, B)): S1 else: S2`"""
    changed = False

    def tr(lst):
        nonlocal changed
        out = []
        for st in lst:
            for field in ('body', 'orelse', 'finalbody'):
                sub = getattr(st, field, None)
                if isinstance(sub, list) and sub and isinstance(sub[0], ast.stmt) and not isinstance(st, FUNC_TYPES + (ast.ClassDef,)):
                    setattr(st, field, tr(sub))
            for h in getattr(st, 'handlers', []):
                h.body = tr(h.body)
            for c in getattr(st, 'cases', []):
                c.body = tr(c.body)
            if isinstance(st, ast.Match) and (isinstance(st.subject, ast.Name) or dotted(st.subject)):
                tests = [_pattern_test(st.subject, c.pattern) for c in st.cases]
                if all(t is not None for t in tests) and all(t is not True for t in tests[:-1]):
                    chain = None
                    for c, t in reversed(list(zip(st.cases, tests))):
                        if t is True and c.guard is None:
                            chain = list(c.body)
                            continue
                        test = c.guard if t is True else (t if c.guard is None else ast.BoolOp(op=ast.And(), values=[t, c.guard]))
                        node = ast.copy_location(ast.If(test=test, body=list(c.body), orelse=chain or []), c.body[0])
                        chain = [node]
                    new = chain[0] if len(chain) == 1 else None
                    if new is not None and isinstance(new, ast.If):
                        ast.copy_location(new, st)
                        out.append(ast.fix_missing_locations(new))
                        changed = True
                        continue
            out.append(st)
        return out
    root.body = tr(root.body)
    if changed:
        set_parents(root)
    return changed


class _IfCall:
    """`if self._helper(...):` as an inlining site: the if statement and the synthetic `_r = self._helper(...)` before it;
    with `nested`: any statement with the helper call somewhere inside its expression (`if helper(v) != n:`,
    `x = len(self._h())`) - the call is hoisted into the synthetic assignment and its place taken by the synthetic name"""
    def __init__(self, ifnode, syn, nested=None):
        self.ifnode = ifnode
        self.syn = syn
        self.nested = nested


def _unconditional_calls(e, top=True):
    """calls inside expression e that are evaluated whenever e is (not behind and/or, a conditional expression, a lambda or a
    comprehension), outermost first; e itself is not reported"""
    if isinstance(e, ast.Call):
        if not top:
            yield e
        if isinstance(e.func, ast.Attribute):
            yield from _unconditional_calls(e.func.value, False)
        for a in e.args:
            yield from _unconditional_calls(a, False)
        for k in e.keywords:
            yield from _unconditional_calls(k.value, False)
    elif isinstance(e, ast.Compare):
        yield from _unconditional_calls(e.left, False)
        yield from _unconditional_calls(e.comparators[0], False)
    elif isinstance(e, ast.UnaryOp):
        yield from _unconditional_calls(e.operand, False)
    elif isinstance(e, ast.BinOp):
        yield from _unconditional_calls(e.left, False)
        yield from _unconditional_calls(e.right, False)
    elif isinstance(e, (ast.Attribute, ast.Starred)):
        yield from _unconditional_calls(e.value, False)
    elif isinstance(e, ast.Subscript):
        yield from _unconditional_calls(e.value, False)
        yield from _unconditional_calls(e.slice, False)
    elif isinstance(e, ast.BoolOp):
        yield from _unconditional_calls(e.values[0], False)
    elif isinstance(e, (ast.Tuple, ast.List)):
        for x in e.elts:
            yield from _unconditional_calls(x, False)


def _clone_ast(node):
    """copy of a tree (or list of trees) without the parent / finfo back references"""
    if isinstance(node, ast.AST):
        new = node.__class__()
        for f in node._fields:
            if hasattr(node, f):
                setattr(new, f, _clone_ast(getattr(node, f)))
        for a in node._attributes:
            if hasattr(node, a):
                setattr(new, a, getattr(node, a))
        return new
    if isinstance(node, list):
        return [_clone_ast(x) for x in node]
    return node


def _has_return(stmts):
    return any(isinstance(n, ast.Return) for st in stmts for n in walk_local(st))


def _always_returns(block):
    if not block:
        return False
    last = block[-1]
    if isinstance(last, (ast.Return, ast.Raise)):
        return True
    if isinstance(last, ast.If):
        return _always_returns(last.body) and _always_returns(last.orelse)
    if isinstance(last, ast.With):
        return _always_returns(last.body)
    if isinstance(last, ast.Try) and not last.finalbody:
        return _always_returns(last.body + last.orelse) and all(_always_returns(h.body) for h in last.handlers)
    return False


def _genloop_ok(hnode, yld, forst):
    """the generator helper can be read in place of `for T in helper(): BODY`: the yield is a statement of its own, and BODY
    leaves the loop only in ways that mean the same in the helper's loop (no break; continue only when the yield is the last
    statement of a loop body)"""
    par = getattr(yld, 'parent', None)
    if not isinstance(par, ast.Expr):
        return False
    holder = getattr(par, 'parent', None)
    last_in_loop = isinstance(holder, (ast.For, ast.While)) and holder.body and holder.body[-1] is par

    def escapes(stmts, kinds):
        for x in stmts:
            if isinstance(x, kinds):
                return True
            if isinstance(x, FUNC_TYPES + (ast.ClassDef, ast.For, ast.AsyncFor, ast.While)):
                if isinstance(x, (ast.For, ast.AsyncFor, ast.While)) and escapes(x.orelse, kinds):
                    return True
                continue
            for field in ('body', 'orelse', 'finalbody'):
                if escapes(getattr(x, field, []) or [], kinds):
                    return True
            for hd in getattr(x, 'handlers', []):
                if escapes(hd.body, kinds):
                    return True
        return False
    if escapes(forst.body, (ast.Break,)):
        return False
    if escapes(forst.body, (ast.Continue,)) and not last_in_loop:
        return False
    if isinstance(forst.target, ast.Name) is False and not isinstance(forst.target, (ast.Tuple, ast.List)):
        return False
    return True


def _returns_to_breaks(block, ost):
    """a helper called for its effect only (`self._drain(q)` as a statement) whose last statement is a loop that is left by
    plain `return`: inside that loop (not in a loop nested in it) `return` reads `break`.  None when the shape is another one."""
    if not isinstance(ost, ast.Expr) or not block or not isinstance(block[-1], (ast.While, ast.For)) or block[-1].orelse:
        return None
    if _has_return(block[:-1]):
        return None

    class Fail(Exception):
        pass

    def tr(stmts):
        out = []
        for s in stmts:
            if isinstance(s, ast.Return):
                if s.value is not None and not (isinstance(s.value, ast.Constant) and s.value.value is None):
                    raise Fail()
                out.append(ast.copy_location(ast.Break(), s))
                continue
            if isinstance(s, FUNC_TYPES + (ast.ClassDef,)) or not _has_return([s]):
                out.append(s)
                continue
            if isinstance(s, (ast.For, ast.AsyncFor, ast.While)) or (isinstance(s, ast.Try) and s.finalbody):
                raise Fail()
            for field in ('body', 'orelse'):
                sub = getattr(s, field, None)
                if isinstance(sub, list) and sub and isinstance(sub[0], ast.stmt):
                    setattr(s, field, tr(sub))
            for h in getattr(s, 'handlers', []):
                h.body = tr(h.body)
            out.append(s)
        return out
    try:
        block[-1].body = tr(block[-1].body)
    except Fail:
        return None
    return block


def _const_truth_of(test, name, value):
    """truth of a test that only asks about local `name` when it holds the constant `value`; None when not decided"""
    if isinstance(test, ast.UnaryOp) and isinstance(test.op, ast.Not):
        v = _const_truth_of(test.operand, name, value)
        return None if v is None else not v
    if isinstance(test, ast.Name) and test.id == name:
        return bool(value)
    if isinstance(test, ast.Compare) and len(test.ops) == 1 and isinstance(test.left, ast.Name) and test.left.id == name \
            and isinstance(test.comparators[0], ast.Constant):
        c = test.comparators[0].value
        op = test.ops[0]
        if isinstance(op, ast.Is):
            return value is c
        if isinstance(op, ast.IsNot):
            return value is not c
        if isinstance(op, ast.Eq) and type(value) is type(c):
            return value == c
        if isinstance(op, ast.NotEq) and type(value) is type(c):
            return value != c
    return None


_NOT_NONE = object()


def _abstract_truth(test, name, value):
    """like _const_truth_of, for a local that holds SOME object that is not None (value is _NOT_NONE)"""
    if value is not _NOT_NONE:
        return _const_truth_of(test, name, value)
    if isinstance(test, ast.UnaryOp) and isinstance(test.op, ast.Not):
        v = _abstract_truth(test.operand, name, value)
        return None if v is None else not v
    if isinstance(test, ast.Compare) and len(test.ops) == 1 and isinstance(test.left, ast.Name) and test.left.id == name \
            and isinstance(test.comparators[0], ast.Constant) and test.comparators[0].value is None:
        if isinstance(test.ops[0], ast.Is):
            return False
        if isinstance(test.ops[0], ast.IsNot):
            return True
    return None


def _thread_once_exits(root):
    """`x = helper()` expanded as a once-block, followed by `if x is None: return ...` (the hand-over protocol of a helper that
    reports failure by its result): when every exit of the block binds x to something that decides that test - a constant, or
    an object that can not be None (a tuple / list / dict display, or a name an isinstance / issubclass test was true for) -
    the exits go straight to their side: `x = None; break` reads `x = None; return ...`, the other exits continue with the
    else side, and the test itself is gone.  The failure exits of the helper stay separate paths instead of meeting the
    successful one in front of the test."""
    def lists(node):
        for field in ('body', 'orelse', 'finalbody'):
            sub = getattr(node, field, None)
            if isinstance(sub, list) and sub and isinstance(sub[0], ast.stmt):
                yield sub
        for h in getattr(node, 'handlers', []):
            yield h.body

    def not_none_expr(e, block, facts):
        if isinstance(e, (ast.Tuple, ast.List, ast.Dict, ast.Set, ast.JoinedStr, ast.ListComp, ast.DictComp, ast.SetComp)):
            return True
        if isinstance(e, ast.Constant):
            return e.value is not None
        if isinstance(e, ast.Name):
            if e.id in facts:
                return True
            defs = [n.value for n in ast.walk(block) if isinstance(n, ast.Assign) and len(n.targets) == 1 and isinstance(n.targets[0], ast.Name)
                    and n.targets[0].id == e.id]
            return bool(defs) and all(not isinstance(d, ast.Name) and not_none_expr(d, block, facts) for d in defs)
        return False

    def exits(stmts, name, block, facts, out):
        """collect (list, index of the break, abstract value | None) for every way out of the once block"""
        for i, st in enumerate(stmts):
            if isinstance(st, ast.Break):
                val = None
                prev = stmts[i - 1] if i > 0 else None
                if isinstance(prev, ast.Assign) and len(prev.targets) == 1 and isinstance(prev.targets[0], ast.Name) and prev.targets[0].id == name:
                    if isinstance(prev.value, ast.Constant):
                        val = ('const', prev.value.value)
                    elif not_none_expr(prev.value, block, facts):
                        val = ('const', _NOT_NONE)
                elif name in facts:
                    val = ('const', _NOT_NONE)      # `x = x` was dropped: x is what the test found
                out.append((stmts, i, val))
            elif isinstance(st, (ast.For, ast.AsyncFor, ast.While) + FUNC_TYPES + (ast.ClassDef,)):
                continue
            elif isinstance(st, ast.If):
                pos = set(facts)
                for c in ast.walk(st.test):
                    if isinstance(c, ast.Call) and isinstance(c.func, ast.Name) and c.func.id in ('isinstance', 'issubclass') and c.args \
                            and isinstance(c.args[0], ast.Name) and not isinstance(getattr(c, 'parent', None), ast.UnaryOp):
                        pos.add(c.args[0].id)
                only_and = not any(isinstance(x, ast.BoolOp) and isinstance(x.op, ast.Or) for x in ast.walk(st.test)) and \
                    not any(isinstance(x, ast.UnaryOp) for x in ast.walk(st.test))
                exits(st.body, name, block, pos if only_and else facts, out)
                exits(st.orelse, name, block, facts, out)
            else:
                for sub in lists(st):
                    exits(sub, name, block, facts, out)

    for node in list(ast.walk(root)):
        for lst in lists(node):
            for i, st in enumerate(lst[:-1]):
                nxt = lst[i + 1]
                if not (isinstance(st, ast.While) and isinstance(st.test, ast.Constant) and getattr(st.test, 'kind', None) == 'once' and isinstance(nxt, ast.If)):
                    continue
                names = {x.id for x in ast.walk(nxt.test) if isinstance(x, ast.Name)}
                if len(names) != 1:
                    continue
                name = next(iter(names))
                found = []
                exits(st.body, name, st, set(), found)
                if not found:
                    continue
                truths = [(_abstract_truth(nxt.test, name, v[1]) if v is not None else None) for _, _, v in found]
                if any(t is None for t in truths):
                    continue
                if any(t is True for t in truths) and not _always_returns(nxt.body):
                    # small branches are carried into the exits instead: `x = None; <then branch>; break` / `<else branch>; break`
                    small = len(nxt.body) <= 3 and len(nxt.orelse) <= 3 and \
                        not any(isinstance(y, (ast.Break, ast.Continue)) for b in nxt.body + nxt.orelse for y in ast.walk(b))
                    if not small:
                        continue
                    for (stmts, idx, v), t in sorted(zip(found, truths), key=lambda x: -x[0][1]):
                        branch = nxt.body if t is True else nxt.orelse
                        stmts[idx:idx] = _clone_ast(branch)
                    lst[i + 1:i + 2] = []
                    break
                # replace from the back so that indices stay valid
                for (stmts, idx, v), t in sorted(zip(found, truths), key=lambda x: -x[0][1]):
                    if t is True:
                        stmts[idx:idx + 1] = _clone_ast(nxt.body)
                lst[i + 1:i + 2] = nxt.orelse
                break


def _once_block(block, ost):
    """fallback of _eliminate_returns for shapes that would need statements to be duplicated: the helper body inside a
    synthetic `while True:` that every path leaves by `break` - `return v` reads `target = v; break`.  The control flow graph
    of that form is exact (the loop test is constant, no path reaches the loop head again).  None when a return sits inside a
    loop of the helper (a break would only leave that loop) or inside a try with a finally clause."""
    def rep(ret):
        v = ret.value
        if isinstance(ost, ast.Assign):
            if isinstance(v, ast.Name) and len(ost.targets) == 1 and isinstance(ost.targets[0], ast.Name) and ost.targets[0].id == v.id:
                return []       # `x = helper()` with `return x` in the helper: nothing to re-bind
            a = ast.Assign(targets=_clone_ast(ost.targets), value=v if v is not None else ast.Constant(value=None), type_comment=None)
            return [ast.fix_missing_locations(ast.copy_location(a, ret))]
        if v is None or isinstance(v, (ast.Constant, ast.Name)):
            return []
        return [ast.copy_location(ast.Expr(value=v), ret)]

    class Fail(Exception):
        pass

    def tr(stmts):
        out = []
        for s in stmts:
            if isinstance(s, ast.Return):
                out.extend(rep(s))
                out.append(ast.copy_location(ast.Break(), s))
                continue
            if isinstance(s, FUNC_TYPES + (ast.ClassDef,)) or not _has_return([s]):
                out.append(s)
                continue
            if isinstance(s, (ast.For, ast.AsyncFor, ast.While)) or (isinstance(s, ast.Try) and s.finalbody) or isinstance(s, ast.Match if hasattr(ast, 'Match') else ()):
                raise Fail()
            for field in ('body', 'orelse'):
                sub = getattr(s, field, None)
                if isinstance(sub, list) and sub and isinstance(sub[0], ast.stmt):
                    setattr(s, field, tr(sub))
            for h in getattr(s, 'handlers', []):
                h.body = tr(h.body)
            out.append(s)
        return out
    try:
        body = tr(block)
    except Fail:
        return None
    if not _always_returns(block) or True:
        # falling off the end of the helper returns None
        if not (body and isinstance(body[-1], (ast.Break, ast.Raise))):
            last = ast.copy_location(ast.Return(value=None), block[-1])
            body.extend(rep(last))
            body.append(ast.copy_location(ast.Break(), block[-1]))
    w = ast.While(test=ast.Constant(value=True, kind='once'), body=body, orelse=[])
    return [ast.fix_missing_locations(ast.copy_location(w, block[0]))]


def _eliminate_returns(block, ost, at_end=True):
    """the helper body (a private copy) with every `return v` replaced by what the call statement `ost` does with the value
    (`target = v` / the bare expression / nothing) and the statements following a guard clause moved into the other branch.
    None when the shape would need statements to be duplicated (a return inside a loop, two partial branches)."""
    def rep(ret):
        v = ret.value
        if isinstance(ost, ast.Assign):
            if isinstance(v, ast.Name) and len(ost.targets) == 1 and isinstance(ost.targets[0], ast.Name) and ost.targets[0].id == v.id:
                return []       # `value = helper(value)` with `return value` in the helper: nothing to re-bind
            a = ast.Assign(targets=_clone_ast(ost.targets), value=v if v is not None else ast.Constant(value=None), type_comment=None)
            return [ast.fix_missing_locations(ast.copy_location(a, ret))]
        if v is None or isinstance(v, (ast.Constant, ast.Name)):
            return []
        return [ast.copy_location(ast.Expr(value=v), ret)]

    def filled(lst, like):
        return lst if lst else [ast.copy_location(ast.Pass(), like)]

    out = []
    for i, s in enumerate(block):
        rest = block[i + 1:]
        if isinstance(s, ast.Return):
            if not at_end:
                return None
            return out + rep(s)
        if isinstance(s, FUNC_TYPES + (ast.ClassDef,)) or not _has_return([s]):
            out.append(s)
            continue
        if isinstance(s, ast.If):
            if not rest:
                a, b = _eliminate_returns(s.body, ost, at_end), _eliminate_returns(s.orelse, ost, at_end)
            elif not at_end:
                return None
            elif _always_returns(s.body) and _always_returns(s.orelse):
                a, b = _eliminate_returns(s.body, ost), _eliminate_returns(s.orelse, ost)
            elif _always_returns(s.body) and not _has_return(s.orelse):
                a, b = _eliminate_returns(s.body, ost), _eliminate_returns(s.orelse + rest, ost)
            elif _always_returns(s.orelse) and not _has_return(s.body):
                a, b = _eliminate_returns(s.body + rest, ost), _eliminate_returns(s.orelse, ost)
            elif len(rest) == 1 and isinstance(rest[0], ast.Return) and (rest[0].value is None or isinstance(rest[0].value, (ast.Constant, ast.Name))):
                # both branches may fall through to a plain `return <flag>`: that one statement is put at the end of each
                a, b = _eliminate_returns(s.body + _clone_ast(rest), ost), _eliminate_returns(s.orelse + _clone_ast(rest), ost)
            else:
                return None
            if a is None or b is None:
                return None
            s.body, s.orelse = filled(a, s), b
            return out + [s]
        if rest or not at_end:
            return None
        if isinstance(s, ast.Try):
            if s.orelse and _has_return(s.body):
                return None
            parts = [_eliminate_returns(s.body, ost), _eliminate_returns(s.orelse, ost)] + [_eliminate_returns(h.body, ost) for h in s.handlers]
            if any(x is None for x in parts) or _has_return(s.finalbody):
                return None
            s.body, s.orelse = filled(parts[0], s), parts[1]
            for h, b in zip(s.handlers, parts[2:]):
                h.body = filled(b, h)
            return out + [s]
        if isinstance(s, ast.With):
            a = _eliminate_returns(s.body, ost)
            if a is None:
                return None
            s.body = filled(a, s)
            return out + [s]
        return None
    return out


class FuncInfo:
    def __init__(self, qualname, node, module, cls, parent):
        self.qualname = qualname
        self.name = getattr(node, 'name', '<lambda>')
        self.node = node
        self.module = module
        self.cls = cls          # ClassInfo of the directly enclosing class, or the class of the outer method
        self.parent = parent    # enclosing FuncInfo for closures
        self.nested = {}

    @property
    def short(self):
        q = self.qualname
        m = self.module.name + '.'
        return q[len(m):] if q.startswith(m) else q


class Model:
    def __init__(self, root='/repo', packages=('frappy',)):
        self.root = root
        self.packages = tuple(packages)
        self.modules = {}
        self.classes = {}
        self.functions = {}
        self.parse_errors = []
        for pkg in packages:
            self._load_tree(os.path.join(root, pkg))
        for m in self.modules.values():
            self._index_module(m)
        for c in self.classes.values():
            c.bases = [self._resolve_base(c, b) for b in c.base_exprs]
        self._mro_cache = {}
        self._subclasses = None
        self.inlined = {}       # qualname of the caller -> [qualname of the expanded helper]
        if not os.environ.get('VERIF_NO_INLINE'):
            self._inline_helpers()
            if not os.environ.get('VERIF_NO_TABLES'):
                self._normalise_tables()

    # -- single-use private helper methods are analysed in place
    def _inline_helpers(self):
        """`self._helper(...)` where _helper is a private method of the same class hierarchy with exactly ONE call site in
        the whole model (the shape an 'extract method' refactoring produces) is expanded in the caller's tree: the
        caller's FuncInfo gets a private copy of its body with the helper's statements in place of the call.  The helper
        itself stays available under its own name.  Only straightforward shapes are expanded (no early return, no
        generator, no *args); everything else is left as a call."""
        uses = {}
        known = _names_known_to_rules()
        for fi in self.functions.values():
            for n in ast.walk(fi.node):
                if isinstance(n, ast.Attribute) and n.attr.startswith('_') and not n.attr.endswith('__'):
                    uses[n.attr] = uses.get(n.attr, 0) + 1
        self._orig_size = {fi.qualname: sum(isinstance(n, ast.stmt) for n in ast.walk(fi.node)) - 1 for fi in self.functions.values()}
        # module level helper functions: references by bare name inside their own module
        self._func_uses = {}
        for mod in self.modules.values():
            for n in ast.walk(mod.tree):
                if isinstance(n, ast.Name) and isinstance(n.ctx, ast.Load) and f'{mod.name}.{n.id}' in self.functions:
                    k = f'{mod.name}.{n.id}'
                    self._func_uses[k] = self._func_uses.get(k, 0) + 1
        for rnd in range(2):
            changed = False
            for fi in list(self.functions.values()):
                if fi.parent is not None:
                    continue
                cands = self._inline_candidates(fi, uses, known)
                exprs = self._inline_expr_candidates(fi, uses, known, {id(c[1]) for c in cands}) if fi.cls is not None else []
                if cands or exprs:
                    self._expand(fi, cands, exprs)
                    changed = True
            if not changed:
                break

    # -- table driven code reads like the spelled out form
    def _normalise_tables(self):
        """in methods that were expanded or that index a class level constant table: `self._TABLE['key']` (a dict literal of the
        class with constant keys) reads as the value it denotes, `a, b = (x, y)` as two assignments, a local bound exactly once
        to a string constant or a class name is read through, and `getattr(obj, 'name')` reads `obj.name` - so that
        `attr, errcls = self._KINDS['parameter']; getattr(mobj, attr).get(n)` is analysed as `mobj.parameters.get(n)`"""
        for fi in list(self.functions.values()):
            if fi.parent is not None:
                continue

            def table_value(n, fi=fi):
                if isinstance(n, ast.Subscript) and isinstance(n.ctx, ast.Load) and isinstance(n.slice, ast.Constant) and isinstance(n.value, ast.Name) \
                        and n.value.id.isupper():
                    # a module level table: `_KINDS = {'parameter': (...), ...}` ... `_KINDS['parameter']`
                    val = fi.module.consts.get(n.value.id)
                    if isinstance(val, ast.Dict) and all(isinstance(k, ast.Constant) for k in val.keys):
                        for k, v in zip(val.keys, val.values):
                            if k.value == n.slice.value and type(k.value) is type(n.slice.value):
                                return v
                if fi.cls is None:
                    return None
                if isinstance(n, ast.Subscript) and isinstance(n.ctx, ast.Load) and isinstance(n.slice, ast.Constant) and isinstance(n.value, ast.Attribute) \
                        and isinstance(n.value.value, ast.Name) and n.value.attr.isupper():
                    owner = fi.cls.qualname if n.value.value.id in ('self', 'cls') else self.resolve_name(fi.module, n.value.value.id)
                    if owner in self.classes:
                        ci, val = self.class_attr(owner, n.value.attr)
                        if isinstance(val, ast.Dict) and all(isinstance(k, ast.Constant) for k in val.keys):
                            for k, v in zip(val.keys, val.values):
                                if k.value == n.slice.value and type(k.value) is type(n.slice.value):
                                    return v
                return None
            def type_tuple(n, fi=fi):
                # `isinstance(x, NO_SEQUENCES)` with a module level `NO_SEQUENCES = str, bytes, dict`
                if isinstance(n, ast.Call) and isinstance(n.func, ast.Name) and n.func.id in ('isinstance', 'issubclass') and len(n.args) == 2 \
                        and isinstance(n.args[1], ast.Name):
                    v = fi.module.consts.get(n.args[1].id)
                    if isinstance(v, ast.Tuple) and v.elts and all(isinstance(e, (ast.Name, ast.Attribute)) for e in v.elts):
                        return v
                return None
            has_table = any(table_value(n) is not None or type_tuple(n) is not None for n in ast.walk(fi.node))
            has_walrus = any(isinstance(n, ast.If) and any(isinstance(x, ast.NamedExpr) for x in ast.walk(n.test)) for n in ast.walk(fi.node))
            has_closure = not os.environ.get('VERIF_NO_CLOSURES') and _has_local_closure(fi.node)
            has_flags = not os.environ.get('VERIF_NO_FLAGS') and bool(_flag_locals(fi.node))
            has_pair = not os.environ.get('VERIF_NO_FLAGS') and any(
                isinstance(n, ast.Assign) and isinstance(n.value, ast.Tuple) and isinstance(n.targets[0], ast.Tuple)
                and any(_is_predicate(e) for e in n.value.elts) for n in ast.walk(fi.node))
            has_match = not os.environ.get('VERIF_NO_MATCH') and any(isinstance(n, ast.Match) for n in ast.walk(fi.node))
            if not has_table and not has_walrus and not has_match and not has_closure and not has_flags and not has_pair and fi.qualname not in self.inlined:
                continue
            full = has_table or has_walrus or has_match or fi.qualname in self.inlined
            if fi.qualname not in self.inlined:
                self._expand(fi, [], [])       # a private copy of the tree
            root = fi.node
            if has_match:
                _lower_match(root)
                if not os.environ.get('VERIF_NO_NORMALIZE'):
                    normalize_tests(root)
            if has_closure:
                _inline_local_closures(root)

            class _Tab(ast.NodeTransformer):
                def visit_Subscript(self, node):
                    self.generic_visit(node)
                    v = table_value(node)
                    return ast.copy_location(_clone_ast(v), node) if v is not None else node
            if has_table:
                _Tab().visit(root)
                for n in ast.walk(root):
                    v = type_tuple(n)
                    if v is not None:
                        n.args[1] = ast.copy_location(_clone_ast(v), n.args[1])

            def split(lst):
                out = []
                for st in lst:
                    for field in ('body', 'orelse', 'finalbody'):
                        sub = getattr(st, field, None)
                        if isinstance(sub, list) and sub and isinstance(sub[0], ast.stmt) and not isinstance(st, FUNC_TYPES + (ast.ClassDef,)):
                            setattr(st, field, split(sub))
                    for h in getattr(st, 'handlers', []):
                        h.body = split(h.body)
                    if isinstance(st, ast.Assign) and len(st.targets) == 1 and isinstance(st.targets[0], ast.Tuple) and isinstance(st.value, ast.Tuple) \
                            and len(st.targets[0].elts) == len(st.value.elts) and not any(isinstance(v, ast.Starred) for v in st.value.elts) \
                            and all(isinstance(t, ast.Name) or (isinstance(t, ast.Attribute) and dotted(t)) for t in st.targets[0].elts) \
                            and any(isinstance(t, ast.Attribute) for t in st.targets[0].elts):
                        # `result, self._buf = (self._buf[:n], self._buf[n:])`: an attribute among the targets - read one after the other
                        # when no element mentions an attribute target that an EARLIER position re-binds
                        tsrc = [dotted(t) if isinstance(t, ast.Attribute) else t.id for t in st.targets[0].elts]
                        safe = len(set(tsrc)) == len(tsrc) and all(
                            not any((isinstance(x, ast.Name) and x.id == tsrc[i]) or (isinstance(x, ast.Attribute) and dotted(x) == tsrc[i])
                                    for i in range(j) for x in ast.walk(v)) for j, v in enumerate(st.value.elts))
                        if safe:
                            for t, v in zip(st.targets[0].elts, st.value.elts):
                                out.append(ast.fix_missing_locations(ast.copy_location(ast.Assign(targets=[t], value=v, type_comment=None), st)))
                            continue
                    if isinstance(st, ast.Assign) and len(st.targets) == 1 and isinstance(st.targets[0], ast.Tuple) and isinstance(st.value, ast.Tuple) \
                            and len(st.targets[0].elts) == len(st.value.elts) and all(isinstance(t, ast.Name) for t in st.targets[0].elts) \
                            and not any(isinstance(v, ast.Starred) for v in st.value.elts):
                        tnames = [t.id for t in st.targets[0].elts]
                        # read one after the other: an element may mention a target only if that target is not re-bound before it
                        rebound = [t for t, v in zip(tnames, st.value.elts) if not (isinstance(v, ast.Name) and v.id == t)]
                        safe = len(set(tnames)) == len(tnames) and \
                            all(not any(isinstance(x, ast.Name) and x.id in rebound and tnames.index(x.id) < j for x in ast.walk(v))
                                for j, v in enumerate(st.value.elts))
                        if safe:
                            for t, v in zip(st.targets[0].elts, st.value.elts):
                                if isinstance(v, ast.Name) and v.id == t.id:
                                    continue
                                out.append(ast.fix_missing_locations(ast.copy_location(ast.Assign(targets=[t], value=v, type_comment=None), st)))
                            continue
                    out.append(st)
                return out
            # `if (mobj := lookup(name)) is None:` reads `mobj = lookup(name)` + `if mobj is None:` (the walrus is evaluated first);
            # `flag = 'a' if c1 else 'b' if c2 else None` reads as the if / elif / else statement that binds flag in each branch
            def plain(lst):
                out = []
                for st in lst:
                    for field in ('body', 'orelse', 'finalbody'):
                        sub = getattr(st, field, None)
                        if isinstance(sub, list) and sub and isinstance(sub[0], ast.stmt) and not isinstance(st, FUNC_TYPES + (ast.ClassDef,)):
                            setattr(st, field, plain(sub))
                    for h in getattr(st, 'handlers', []):
                        h.body = plain(h.body)
                    if isinstance(st, ast.If):
                        first = st.test
                        while isinstance(first, (ast.Compare, ast.BoolOp, ast.UnaryOp)):
                            first = first.left if isinstance(first, ast.Compare) else (first.values[0] if isinstance(first, ast.BoolOp) else first.operand)
                        if isinstance(first, ast.NamedExpr) and isinstance(first.target, ast.Name):
                            a = ast.Assign(targets=[ast.Name(id=first.target.id, ctx=ast.Store())], value=first.value, type_comment=None)
                            out.append(ast.fix_missing_locations(ast.copy_location(a, st)))
                            tgt = first

                            class _W(ast.NodeTransformer):
                                def visit_NamedExpr(self, node, tgt=tgt):
                                    if node is tgt:
                                        return ast.copy_location(ast.Name(id=tgt.target.id, ctx=ast.Load()), node)
                                    return self.generic_visit(node)
                            st.test = _W().visit(st.test)
                    if isinstance(st, ast.Assign) and len(st.targets) == 1 and isinstance(st.targets[0], ast.Name) and isinstance(st.value, ast.IfExp):
                        def leaves(e):
                            return leaves(e.body) + leaves(e.orelse) if isinstance(e, ast.IfExp) else [e]
                        if all(isinstance(x, (ast.Constant, ast.JoinedStr)) for x in leaves(st.value)):     # a flag / message chosen by conditions
                            def build(e, st=st):
                                if not isinstance(e, ast.IfExp):
                                    return [ast.copy_location(ast.Assign(targets=[ast.Name(id=st.targets[0].id, ctx=ast.Store())], value=e, type_comment=None), st)]
                                return [ast.copy_location(ast.If(test=e.test, body=build(e.body), orelse=build(e.orelse)), st)]
                            out.extend(ast.fix_missing_locations(x) for x in build(st.value))
                            continue
                    out.append(st)
                return out
            if not os.environ.get('VERIF_NO_PLAIN'):
                root.body = plain(root.body)

            # inside `except T as e:` the test isinstance(e, T) is true; in a LATER handler of the same try isinstance(e2, T) is false
            for tr_ in [x for x in ast.walk(root) if isinstance(x, ast.Try)]:
                earlier = []
                for hd in tr_.handlers:
                    tn = dotted(hd.type) if hd.type is not None and not isinstance(hd.type, ast.Tuple) else None
                    if hd.name:
                        rebound = any(isinstance(x, ast.Name) and x.id == hd.name and isinstance(x.ctx, ast.Store) for b in hd.body for x in ast.walk(b))
                        if not rebound:
                            for b in hd.body:
                                for c in [x for x in ast.walk(b) if isinstance(x, ast.Call) and isinstance(x.func, ast.Name) and x.func.id == 'isinstance'
                                          and len(x.args) == 2 and isinstance(x.args[0], ast.Name) and x.args[0].id == hd.name and dotted(x.args[1])]:
                                    verdict = True if dotted(c.args[1]) == tn else (False if dotted(c.args[1]) in earlier else None)
                                    if verdict is not None:
                                        c.func = ast.Name(id='bool', ctx=ast.Load())
                                        c.args = [ast.Constant(value=verdict)]
                    if tn:
                        earlier.append(tn)

            class _FoldBool(ast.NodeTransformer):
                def visit_Call(self, node):
                    self.generic_visit(node)
                    if isinstance(node.func, ast.Name) and node.func.id == 'bool' and len(node.args) == 1 and isinstance(node.args[0], ast.Constant) \
                            and isinstance(node.args[0].value, bool) and not node.keywords:
                        return ast.copy_location(ast.Constant(value=node.args[0].value), node)
                    return node
            _FoldBool().visit(root)
            ast.fix_missing_locations(root)

            # a substituted constant argument compared with None (`if None is None: raise` / `if 'text' is None:`) decides its branch
            class _FoldNoneTest(ast.NodeTransformer):
                def visit_Compare(self, node):
                    self.generic_visit(node)
                    if len(node.ops) == 1 and isinstance(node.ops[0], (ast.Is, ast.IsNot)) and isinstance(node.left, ast.Constant) \
                            and isinstance(node.comparators[0], ast.Constant) and node.comparators[0].value is None \
                            and (node.left.value is None or isinstance(node.left.value, (str, int, float, bytes, bool))):
                        same = node.left.value is None
                        return ast.copy_location(ast.Constant(value=same if isinstance(node.ops[0], ast.Is) else not same), node)
                    return node
            if not os.environ.get('VERIF_NO_CONSTFOLD'):
                _FoldNoneTest().visit(root)

                def prune(lst):
                    out = []
                    for st in lst:
                        for field in ('body', 'orelse', 'finalbody'):
                            sub = getattr(st, field, None)
                            if isinstance(sub, list) and sub and isinstance(sub[0], ast.stmt) and not isinstance(st, FUNC_TYPES + (ast.ClassDef,)):
                                setattr(st, field, prune(sub) or [ast.copy_location(ast.Pass(), st)] if field == 'body' else prune(sub))
                        for h in getattr(st, 'handlers', []):
                            h.body = prune(h.body) or [ast.copy_location(ast.Pass(), h)]
                        if isinstance(st, ast.If) and isinstance(st.test, ast.Constant) and isinstance(st.test.value, bool):
                            out.extend(st.body if st.test.value else st.orelse)
                            if out and isinstance(out[-1], (ast.Raise, ast.Return, ast.Break, ast.Continue)):
                                break           # what follows an unconditional exit in the same block never runs
                            continue
                        if isinstance(st, ast.Try) and not st.orelse and not st.finalbody and st.handlers and \
                                all(len(h.body) == 1 and isinstance(h.body[0], ast.Raise) and h.body[0].exc is None for h in st.handlers):
                            out.extend(st.body)         # every handler only re-raises: the try statement changes nothing
                            continue
                        out.append(st)
                    return out
                root.body = prune(root.body) or [ast.copy_location(ast.Pass(), root)]
                ast.fix_missing_locations(root)

            class _FoldIfExp(ast.NodeTransformer):
                def visit_IfExp(self, node):
                    self.generic_visit(node)
                    if isinstance(node.test, ast.Constant):     # a substituted flag argument: `a if True else b`
                        return node.body if node.test.value else node.orelse
                    return node
            _FoldIfExp().visit(root)
            # a pair that is only built to be taken apart: `both = (x, y)` (every binding a display of the same length) and one
            # `a, b = both` as the only use, a and b bound nowhere else - reads `a = x; b = y` at the places of the bindings
            names = {}
            for n in walk_local(root):
                if isinstance(n, ast.Name):
                    names.setdefault(n.id, []).append(n)
            for nm, occ in list(names.items()):
                loads = [x for x in occ if isinstance(x.ctx, ast.Load)]
                stores_ = [x for x in occ if isinstance(x.ctx, ast.Store)]
                if len(loads) != 1 or not stores_:
                    continue
                use = getattr(loads[0], 'parent', None)
                if not (isinstance(use, ast.Assign) and use.value is loads[0] and len(use.targets) == 1 and isinstance(use.targets[0], ast.Tuple)
                        and all(isinstance(t, ast.Name) for t in use.targets[0].elts)):
                    continue
                tnames = [t.id for t in use.targets[0].elts]
                defs = [getattr(x, 'parent', None) for x in stores_]
                if not all(isinstance(d, ast.Assign) and len(d.targets) == 1 and d.targets[0] in stores_ and isinstance(d.value, ast.Tuple)
                           and len(d.value.elts) == len(tnames) and not any(isinstance(e, ast.Starred) for e in d.value.elts) for d in defs):
                    continue
                if any(len([x for x in names.get(t, []) if isinstance(x.ctx, ast.Store)]) != 1 for t in tnames) or len(set(tnames)) != len(tnames):
                    continue
                if any(isinstance(x, ast.Name) and x.id in tnames for d in defs for x in ast.walk(d.value)):
                    continue
                for d in defs:
                    d.targets = [ast.Tuple(elts=[ast.Name(id=t, ctx=ast.Store()) for t in tnames], ctx=ast.Store())]
                    ast.fix_missing_locations(d)
                use.targets = [ast.Name(id='_', ctx=ast.Store())]
                use.value = ast.Constant(value=None)
                ast.fix_missing_locations(use)
            set_parents(root)
            root.body = split(root.body)
            if has_flags or has_pair:
                set_parents(root)
                flags = _flag_locals(root)
                if flags:
                    class _Flag(ast.NodeTransformer):
                        def visit_Name(self, node):
                            if isinstance(node.ctx, ast.Load) and node.id in flags:
                                return ast.copy_location(_clone_ast(flags[node.id]), node)
                            return node

                        def visit_FunctionDef(self, node):
                            return node if node is not root else self.generic_visit(node)
                        visit_Lambda = visit_AsyncFunctionDef = visit_FunctionDef
                    _Flag().visit(root)
                    ast.fix_missing_locations(root)
                    if not os.environ.get('VERIF_NO_NORMALIZE'):
                        normalize_tests(root)
                    set_parents(root)

            # `for limit in (self.min, self.max): other.validate(limit)`: a loop over a short display with a small body is read unrolled
            def unroll(lst):
                out = []
                for st in lst:
                    for field in ('body', 'orelse', 'finalbody'):
                        sub = getattr(st, field, None)
                        if isinstance(sub, list) and sub and isinstance(sub[0], ast.stmt) and not isinstance(st, FUNC_TYPES + (ast.ClassDef,)):
                            setattr(st, field, unroll(sub))
                    for h in getattr(st, 'handlers', []):
                        h.body = unroll(h.body)
                    if isinstance(st, ast.For) and isinstance(st.iter, (ast.Tuple, ast.List)) and 1 <= len(st.iter.elts) <= 4 and isinstance(st.target, ast.Name) \
                            and not st.orelse and len(st.body) <= 3 and not any(isinstance(e, ast.Starred) for e in st.iter.elts) \
                            and all(isinstance(e, (ast.Name, ast.Attribute, ast.Constant)) for e in st.iter.elts) \
                            and not any(isinstance(x, (ast.Break, ast.Continue, ast.Return, ast.Yield)) or
                                        (isinstance(x, ast.Name) and x.id == st.target.id and isinstance(x.ctx, (ast.Store, ast.Del)))
                                        for b in st.body for x in ast.walk(b)):
                        for e in st.iter.elts:
                            class _S(ast.NodeTransformer):
                                def visit_Name(self, node, e=e, name=st.target.id):
                                    return ast.copy_location(_clone_ast(e), node) if node.id == name and isinstance(node.ctx, ast.Load) else node
                            out.extend(ast.fix_missing_locations(_S().visit(_clone_ast(b))) for b in st.body)
                        continue
                    out.append(st)
                return out
            if not os.environ.get('VERIF_NO_UNROLL') and full:
                root.body = unroll(root.body)
            # locals bound exactly once to a string constant / a class name are read through
            params = {a.arg for a in root.args.posonlyargs + root.args.args + root.args.kwonlyargs} | \
                {a.arg for a in (root.args.vararg, root.args.kwarg) if a}
            stores = {}
            for n in walk_local(root):
                if isinstance(n, ast.Name) and isinstance(n.ctx, (ast.Store, ast.Del)):
                    stores[n.id] = stores.get(n.id, 0) + 1
            consts = {}
            for n in walk_local(root):
                if isinstance(n, ast.Assign) and len(n.targets) == 1 and isinstance(n.targets[0], ast.Name):
                    t = n.targets[0].id
                    if stores.get(t) == 1 and t not in params and not isinstance(getattr(n, 'parent', None), (ast.For, ast.While)):
                        if isinstance(n.value, ast.Constant) and isinstance(n.value.value, str):
                            consts[t] = n.value
                        elif isinstance(n.value, ast.Name) and self.resolve_name(fi.module, n.value.id) in self.classes and n.value.id not in stores:
                            consts[t] = n.value
            if consts:
                class _Prop(ast.NodeTransformer):
                    def visit_Name(self, node):
                        if isinstance(node.ctx, ast.Load) and node.id in consts:
                            return ast.copy_location(_clone_ast(consts[node.id]), node)
                        return node

                    def visit_FunctionDef(self, node):
                        return node if node is not root else self.generic_visit(node)
                    visit_Lambda = visit_AsyncFunctionDef = visit_FunctionDef
                _Prop().visit(root)

            class _Get(ast.NodeTransformer):
                def visit_Call(self, node):
                    self.generic_visit(node)
                    if isinstance(node.func, ast.Name) and node.func.id == 'getattr' and len(node.args) == 2 and not node.keywords \
                            and isinstance(node.args[1], ast.Constant) and isinstance(node.args[1].value, str) and node.args[1].value.isidentifier():
                        return ast.copy_location(ast.Attribute(value=node.args[0], attr=node.args[1].value, ctx=ast.Load()), node)
                    return node
            _Get().visit(root)
            _thread_once_exits(root)        # again: a hand-over test may have been a conditional expression until now
            ast.fix_missing_locations(root)
            par = getattr(root, 'parent', None)
            set_parents(root)
            root.parent = par

    def is_inlined(self, fi):
        """fi is a single-use helper whose body is analysed in place of its (only) call"""
        return any(fi.qualname in v for v in self.inlined.values())

    def _helper_for(self, fi, call):
        f = call.func
        if not (isinstance(f, ast.Attribute) and dotted(f.value) == 'self') or fi.cls is None:
            return None
        for q in self.mro(fi.cls.qualname) + self.subclasses(fi.cls.qualname):
            ci = self.classes.get(q)
            if ci and f.attr in ci.methods and ci.methods[f.attr] is not fi:
                return ci.methods[f.attr]
        return None

    def _inline_expr_candidates(self, fi, uses, known, taken):
        """`... self._helper(args) ...` anywhere in an expression, where the private helper consists of ONE return statement:
        the returned expression stands in place of the call (`self._messageSize()` reads `len(self._getMessage(MAX_PORT))`)"""
        res = []
        for call in ast.walk(fi.node):
            if not isinstance(call, ast.Call) or id(call) in taken:
                continue
            f = call.func
            if not (isinstance(f, ast.Attribute) and dotted(f.value) == 'self' and f.attr.startswith('_') and not f.attr.endswith('__')
                    and 1 <= uses.get(f.attr, 0) <= MAX_FORMULA_USES):
                continue
            if f.attr in known or (f.attr.startswith('__') and f.attr.lstrip('_') in known):
                continue
            owner = call
            while owner is not None and not isinstance(owner, FUNC_TYPES):
                owner = getattr(owner, 'parent', None)
            if owner is not fi.node:
                continue
            h = self._helper_for(fi, call)
            if h is None or not isinstance(h.node, ast.FunctionDef) or {dotted(d) for d in h.node.decorator_list} - {'staticmethod'}:
                continue
            body = [x for x in h.node.body if not (isinstance(x, ast.Expr) and isinstance(x.value, ast.Constant) and isinstance(x.value.value, str))]
            if len(body) != 1 or not isinstance(body[0], ast.Return) or body[0].value is None:
                continue
            # only thin wrappers around another method of the object (`return len(self._getMessage(MAX_PORT))`): a helper that
            # builds something itself is a unit the rules may look for by its role
            thin = any(isinstance(x, ast.Call) and isinstance(x.func, ast.Attribute) and dotted(x.func.value) == 'self' for x in ast.walk(body[0].value))
            # ... and formulas over the parameters and attributes (`return int(round(value / self.scale))`), which may be shared widely
            formula = all(isinstance(x.func, ast.Name) and x.func.id in _FORMULA_FUNCS for x in ast.walk(body[0].value) if isinstance(x, ast.Call)) \
                and not any(isinstance(x, (ast.Lambda, ast.ListComp, ast.SetComp, ast.DictComp, ast.GeneratorExp, ast.JoinedStr, ast.Dict, ast.Await, ast.Yield))
                            for x in ast.walk(body[0].value))
            if not (formula or (thin and uses.get(f.attr, 0) <= MAX_HELPER_USES + 2)):
                continue
            binding = self._bind(h.node, call)
            if binding is None or not all(isinstance(a, (ast.Name, ast.Constant)) or (isinstance(a, ast.Attribute) and dotted(a)) for a in binding.values()):
                continue
            res.append((call, h, binding, body[0].value))
        return res

    def _inline_candidates(self, fi, uses, known):
        res = []
        sites = []

        def synthetic(call, st):
            syn = ast.Assign(targets=[ast.Name(id='_r_' + (getattr(call.func, 'attr', None) or getattr(call.func, 'id', 'h')).lstrip('_'), ctx=ast.Store())], value=call, type_comment=None)
            return ast.fix_missing_locations(ast.copy_location(syn, st))
        for st in ast.walk(fi.node):
            if isinstance(st, ast.Expr) and isinstance(st.value, ast.Call):
                sites.append((st, st.value))
            elif isinstance(st, (ast.Assign, ast.Return)) and isinstance(st.value, ast.Call):
                sites.append((st, st.value))
            elif isinstance(st, ast.If) and (isinstance(st.test, ast.Call) or (
                    isinstance(st.test, ast.BoolOp) and isinstance(st.test.op, ast.And) and not st.orelse and (
                        isinstance(st.test.values[-1], ast.Call) or (isinstance(st.test.values[-1], ast.UnaryOp) and isinstance(st.test.values[-1].op, ast.Not)
                                                                     and isinstance(st.test.values[-1].operand, ast.Call))))):
                # `if self._helper(...):` reads as `_r = self._helper(...)` followed by `if _r:`;
                # `if a and self._helper(...): B` (no else) as `if a:` + `_r = self._helper(...)` + `if _r: B` (also `and not self._helper(...)`)
                call = st.test if isinstance(st.test, ast.Call) else st.test.values[-1]
                if isinstance(call, ast.UnaryOp):
                    call = call.operand
                sites.append((_IfCall(st, synthetic(call, st)), call))
            if isinstance(st, ast.For) and isinstance(st.iter, ast.Call) and not st.orelse and not os.environ.get('VERIF_NO_GENINLINE'):
                # `for x in self._items(...): BODY` over a generator helper with one yield
                sites.append((st, st.iter))
            if isinstance(st, (ast.If, ast.Assign, ast.Return, ast.Expr)) and not os.environ.get('VERIF_NO_HOIST'):
                # the helper call somewhere inside the statement's expression: hoisted in front of the statement
                expr = st.test if isinstance(st, ast.If) else st.value
                if expr is not None:
                    for call in _unconditional_calls(expr):
                        sites.append((_IfCall(st, synthetic(call, st), nested=call), call))
        taken_stmts = set()
        for st, call in sites:
            if id(st.ifnode if isinstance(st, _IfCall) else st) in taken_stmts:
                continue
            f = call.func
            modfunc = None
            if isinstance(f, ast.Name):
                # a module level helper of the same module (extract-function refactoring), small and used in a few places only
                modfunc = self.functions.get(f'{fi.module.name}.{f.id}')
                if modfunc is None or modfunc.cls is not None or modfunc.parent is not None or modfunc is fi:
                    continue
                nuses = self._func_uses.get(modfunc.qualname, 0)
                if not (1 <= nuses <= MAX_HELPER_USES) or self._orig_size.get(modfunc.qualname, 99) > MAX_SHARED_HELPER_STMTS:
                    continue
                if f.id in known or (f.id.startswith('__') and f.id.lstrip('_') in known):
                    continue
                hname = f.id
            else:
                if not (isinstance(f, ast.Attribute) and f.attr.startswith('_') and not f.attr.endswith('__') and 1 <= uses.get(f.attr, 0) <= MAX_HELPER_USES):
                    continue
                if f.attr in known or (f.attr.startswith('__') and f.attr.lstrip('_') in known):
                    continue    # a unit the rules address by name is analysed as a unit
                hname = f.attr
            # the statement has to belong to fi itself, not to a nested def
            owner = st.ifnode if isinstance(st, _IfCall) else st
            while owner is not None and not isinstance(owner, FUNC_TYPES):
                owner = getattr(owner, 'parent', None)
            if owner is not fi.node:
                continue
            h = modfunc if modfunc is not None else self._helper_for(fi, call)
            if h is None or not isinstance(h.node, ast.FunctionDef):
                continue
            binding = self._bind(h.node, call, is_method=modfunc is None)
            if binding is None:
                continue
            body = [x for x in h.node.body]
            if body and isinstance(body[0], ast.Expr) and isinstance(body[0].value, ast.Constant) and isinstance(body[0].value.value, str):
                body = body[1:]
            if not body:
                continue
            if modfunc is None and uses.get(f.attr, 0) > 1 and self._orig_size.get(h.qualname, 99) > MAX_SHARED_HELPER_STMTS:
                continue    # a larger shared helper is a unit of its own (rules find it by role)
            # hygiene: a local of the helper that is also a name of the caller which is read outside the call statement would be
            # clobbered by the expansion - such a helper stays a call
            hparams = {a.arg for a in h.node.args.posonlyargs + h.node.args.args + h.node.args.kwonlyargs}
            hlocals = {n.id for x in body for n in ast.walk(x) if isinstance(n, ast.Name) and isinstance(n.ctx, (ast.Store, ast.Del))} - hparams
            site_stmt = st.ifnode if isinstance(st, _IfCall) else st
            inside = {id(n) for n in ast.walk(site_stmt)} if not isinstance(site_stmt, (ast.If, ast.For)) else \
                {id(n) for n in ast.walk(site_stmt.test if isinstance(site_stmt, ast.If) else site_stmt.iter)}
            own_targets = {n.id for t in getattr(site_stmt, 'targets', []) for n in ast.walk(t) if isinstance(n, ast.Name)}
            in_loop = any(isinstance(a, (ast.For, ast.AsyncFor, ast.While)) for a in ancestors(site_stmt))

            def bound_by_enclosing_loop(n):
                # a read of a loop variable inside its own loop / comprehension: re-bound before it is read, whatever happened earlier
                for a in ancestors(n):
                    if isinstance(a, (ast.For, ast.AsyncFor)) and any(isinstance(x, ast.Name) and x.id == n.id for x in ast.walk(a.target)) \
                            and not any(x is n for x in ast.walk(a.iter)):
                        return True
                    if isinstance(a, (ast.ListComp, ast.SetComp, ast.DictComp, ast.GeneratorExp)) and \
                            any(isinstance(x, ast.Name) and x.id == n.id for g in a.generators for x in ast.walk(g.target)):
                        return True
                    if isinstance(a, FUNC_TYPES):
                        break
                return False
            if any(isinstance(n, ast.Name) and n.id in hlocals and n.id not in own_targets and isinstance(n.ctx, ast.Load) and id(n) not in inside
                   and not bound_by_enclosing_loop(n)
                   and (in_loop or getattr(n, 'lineno', 10**9) > getattr(site_stmt, 'end_lineno', 0))       # read after the call (or the call is repeated)
                   for n in walk_local(fi.node)) and os.environ.get('VERIF_HYGIENE'):
                continue        # (opt-in: declining such helpers turned out to cost more decided cases than the merged names ever cost)
            rets = [n for n in walk_local(h.node) if isinstance(n, ast.Return)]
            ylds = [n for n in walk_local(h.node) if isinstance(n, (ast.Yield, ast.YieldFrom))]
            if isinstance(st, _IfCall) and st.nested is not None and len(body) == 1 and isinstance(body[0], ast.Return) and body[0].value is not None:
                # a one-expression helper inside a larger expression: only predicates, formulas and thin wrappers are read in place
                # (a helper that builds something - the discovery message - is a unit the rules find by its role)
                v = body[0].value
                thin = any(isinstance(x, ast.Call) and isinstance(x.func, ast.Attribute) and dotted(x.func.value) == 'self' for x in ast.walk(v))
                formula = all(isinstance(x.func, ast.Name) and x.func.id in _FORMULA_FUNCS for x in ast.walk(v) if isinstance(x, ast.Call)) \
                    and not any(isinstance(x, (ast.Lambda, ast.ListComp, ast.SetComp, ast.DictComp, ast.GeneratorExp, ast.JoinedStr, ast.Dict)) for x in ast.walk(v))
                if not (thin or formula or _is_predicate(v)):
                    continue
            if isinstance(st, ast.For):
                if len(ylds) != 1 or not isinstance(ylds[0], ast.Yield) or ylds[0].value is None or rets or not _genloop_ok(h.node, ylds[0], st):
                    continue
                res.append((st, call, h, binding, body, 'gen'))
                taken_stmts.add(id(st))
                continue
            if ylds:
                continue
            if len(rets) > 1 or (rets and rets[0] is not body[-1]):
                # early returns: `return self._helper()` keeps every return as it is; elsewhere the guard clauses are turned
                # into if/else nesting (`if c: return` + rest  ->  `if c: pass else: rest`) when that is possible without
                # duplicating statements
                orig_body = body
                body = _clone_ast(body)
                # the once-block form is used outside loops only: its `break`s would read as leaving the caller's loop
                site = st.ifnode if isinstance(st, _IfCall) else st
                once = not os.environ.get('VERIF_NO_ONCE') and not any(isinstance(a, (ast.For, ast.AsyncFor, ast.While)) for a in ancestors(site))
                if isinstance(st, _IfCall):
                    if not _always_returns(body):
                        continue
                    body = _eliminate_returns(body, st.syn)
                    if body is None and once:
                        body = _once_block(_clone_ast(orig_body), st.syn)
                    if body is None:
                        continue
                elif isinstance(st, ast.Return):
                    if not _always_returns(body):
                        body.append(ast.copy_location(ast.Return(value=None), body[-1]))
                else:
                    if isinstance(st, ast.Assign) and not _always_returns(body):
                        continue
                    body = _eliminate_returns(body, st)
                    if body is None and once:
                        body = _returns_to_breaks(_clone_ast(orig_body), st)
                    if body is None and once:
                        body = _once_block(_clone_ast(orig_body), st)
                    if body is None:
                        continue
                res.append((st, call, h, binding, body, True))
                taken_stmts.add(id(st.ifnode if isinstance(st, _IfCall) else st))
                continue
            res.append((st, call, h, binding, body, False))
            taken_stmts.add(id(st.ifnode if isinstance(st, _IfCall) else st))
        return res

    @staticmethod
    def _bind(hnode, call, is_method=True):
        """parameter name -> argument expression (None when the shape is not simple)"""
        a = hnode.args
        if a.vararg or a.kwarg or a.kwonlyargs or a.posonlyargs:
            return None
        decos = {dotted(d) for d in hnode.decorator_list}
        if decos - {'staticmethod'}:
            return None
        params = [x.arg for x in a.args]
        if 'staticmethod' not in decos and is_method:
            params = params[1:]
        if any(isinstance(x, ast.Starred) for x in call.args) or any(k.arg is None for k in call.keywords) or len(call.args) > len(params):
            return None
        res = dict(zip(params, call.args))
        for k in call.keywords:
            if k.arg not in params or k.arg in res:
                return None
            res[k.arg] = k.value
        defaults = dict(zip(reversed(params), reversed(a.defaults)))
        for prm in params:
            if prm not in res:
                if prm not in defaults:
                    return None
                res[prm] = defaults[prm]
        return res

    def _expand(self, fi, cands, exprs=()):
        mapping = {}

        def clone(node):
            if isinstance(node, ast.AST):
                new = node.__class__()
                for f in node._fields:
                    if hasattr(node, f):
                        setattr(new, f, clone(getattr(node, f)))
                for a in node._attributes:
                    if hasattr(node, a):
                        setattr(new, a, getattr(node, a))
                mapping[id(node)] = new
                return new
            if isinstance(node, list):
                return [clone(x) for x in node]
            return node

        todo = {id(st): ((st.ifnode if isinstance(st, _IfCall) else st), call, h, binding, body, pre, (st.syn if isinstance(st, _IfCall) else None),
                         (st.nested if isinstance(st, _IfCall) else None))
                for st, call, h, binding, body, pre in cands}
        new_root = clone(fi.node)
        if exprs:
            repl = {}
            for call, helper, binding, expr in exprs:
                new = _clone_ast(expr)

                class _Sub(ast.NodeTransformer):
                    def visit_Name(self, node, binding=binding):
                        if isinstance(node.ctx, ast.Load) and node.id in binding:
                            return ast.copy_location(_clone_ast(binding[node.id]), node)
                        return node
                new = ast.fix_missing_locations(ast.copy_location(_Sub().visit(new), call))
                if id(call) in mapping:
                    repl[id(mapping[id(call)])] = new
                    self.inlined.setdefault(fi.qualname, []).append(helper.qualname)

            class _Repl(ast.NodeTransformer):
                def visit_Call(self, node):
                    self.generic_visit(node)
                    return repl.get(id(node), node)
            _Repl().visit(new_root)

        def rewrite(lst):
            out = []
            for st in lst:
                orig = next((o for o in todo.values() if mapping.get(id(o[0])) is st), None)
                if orig is None:
                    for field in ('body', 'orelse', 'finalbody'):
                        sub = getattr(st, field, None)
                        if isinstance(sub, list) and sub and isinstance(sub[0], ast.stmt) and not isinstance(st, FUNC_TYPES + (ast.ClassDef,)):
                            setattr(st, field, rewrite(sub))
                    for h in getattr(st, 'handlers', []):
                        h.body = rewrite(h.body)
                    for c in getattr(st, 'cases', []):
                        c.body = rewrite(c.body)
                    out.append(st)
                    continue
                ifst, call, helper, binding, body, pre, syn, nested = orig
                ost = syn if syn is not None else ifst
                emitted = []
                stmts = [clone(x) for x in body]
                # a parameter the helper never re-binds and that receives a plain name / constant / dotted name is substituted in
                # the copy (`datatype.min` reads `self.min` again); the others are bound by an assignment in front
                stored = {n.id for x in body for n in ast.walk(x) if isinstance(n, ast.Name) and isinstance(n.ctx, (ast.Store, ast.Del))}
                # (an argument that mentions a name the helper binds itself - its loop variable `cbargs`, say - would be captured: bound instead)
                subst = {prm: arg for prm, arg in binding.items()
                         if prm not in stored and (isinstance(arg, (ast.Name, ast.Constant)) or (isinstance(arg, ast.Attribute) and dotted(arg))
                                                   or _pure_expr(arg))
                         and not any(isinstance(x, ast.Name) and x.id in stored for x in ast.walk(arg))}
                if subst:
                    class _Sub(ast.NodeTransformer):
                        def visit_Name(self, node):
                            if isinstance(node.ctx, ast.Load) and node.id in subst:
                                return ast.copy_location(_clone_ast(subst[node.id]), node)
                            return node
                    stmts = [ast.fix_missing_locations(_Sub().visit(x)) for x in stmts]
                for prm, arg in binding.items():
                    if (isinstance(arg, ast.Name) and arg.id == prm) or prm in subst:
                        continue
                    a = ast.Assign(targets=[ast.Name(id=prm, ctx=ast.Store())], value=clone(arg), type_comment=None)
                    ast.copy_location(a, ost)
                    ast.fix_missing_locations(a)
                    emitted.append(a)
                last = stmts[-1]
                if pre == 'gen':
                    loop_body = rewrite(st.body)

                    def put(lst, st=st, loop_body=loop_body):
                        out2 = []
                        for x in lst:
                            if isinstance(x, ast.Expr) and isinstance(x.value, ast.Yield):
                                a = ast.Assign(targets=[st.target], value=x.value.value, type_comment=None)
                                out2.append(ast.fix_missing_locations(ast.copy_location(a, x)))
                                out2.extend(loop_body)
                                continue
                            for field in ('body', 'orelse', 'finalbody'):
                                sub = getattr(x, field, None)
                                if isinstance(sub, list) and sub and isinstance(sub[0], ast.stmt) and not isinstance(x, FUNC_TYPES + (ast.ClassDef,)):
                                    setattr(x, field, put(sub))
                            for hd in getattr(x, 'handlers', []):
                                hd.body = put(hd.body)
                            out2.append(x)
                        return out2
                    emitted.extend(put(stmts))
                    self.inlined.setdefault(fi.qualname, []).append(helper.qualname)
                    out.extend(emitted)
                    continue
                if pre:
                    pass        # returns were dealt with by _eliminate_returns (or are kept: `return self._helper()`)
                elif isinstance(last, ast.Return):
                    val = last.value if last.value is not None else ast.copy_location(ast.Constant(value=None), last)
                    if isinstance(ost, ast.Assign) and len(ost.targets) == 1 and isinstance(ost.targets[0], ast.Name) and isinstance(val, ast.Name) \
                            and val.id == ost.targets[0].id:
                        rep = ast.Pass()        # `x = helper()` with `return x` in the helper: nothing to re-bind
                    elif isinstance(ost, ast.Assign):
                        rep = ast.Assign(targets=[clone(t) for t in ost.targets], value=val, type_comment=None)
                    elif isinstance(ost, ast.Return):
                        rep = ast.Return(value=val)
                    else:
                        rep = ast.Expr(value=val)
                    ast.copy_location(rep, last)
                    stmts[-1] = rep
                elif isinstance(ost, ast.Assign):
                    rep = ast.Assign(targets=[clone(t) for t in ost.targets], value=ast.Constant(value=None), type_comment=None)
                    ast.copy_location(rep, ost)
                    ast.fix_missing_locations(rep)
                    stmts.append(rep)
                elif isinstance(ost, ast.Return):
                    rep = ast.Return(value=None)
                    ast.copy_location(rep, ost)
                    stmts.append(rep)
                emitted.extend(stmts)
                self.inlined.setdefault(fi.qualname, []).append(helper.qualname)
                if syn is None:
                    out.extend(emitted)
                else:
                    # the if statement itself, now testing the helper's result
                    flag = ast.copy_location(ast.Name(id=syn.targets[0].id, ctx=ast.Load()), st.test if isinstance(st, ast.If) else st)
                    if not pre and len(emitted) == 1 and isinstance(emitted[0], ast.Assign) and isinstance(emitted[0].targets[0], ast.Name) \
                            and emitted[0].targets[0].id == syn.targets[0].id and (_is_predicate(emitted[0].value) or nested is not None):
                        # a predicate helper (`return not low <= value <= high`): the if statement tests its expression itself
                        flag = emitted[0].value
                        emitted = []
                    if nested is not None:
                        target = mapping.get(id(nested))

                        class _Put(ast.NodeTransformer):
                            def visit_Call(self, node):
                                if node is target:
                                    return flag
                                return self.generic_visit(node)
                        if isinstance(st, ast.If):
                            st.test = _Put().visit(st.test)
                            st.body = rewrite(st.body)
                            st.orelse = rewrite(st.orelse)
                        else:
                            st.value = _Put().visit(st.value)
                        out.extend(emitted)
                        out.append(st)
                    elif isinstance(st.test, ast.BoolOp):
                        conds = st.test.values[:-1]
                        if isinstance(st.test.values[-1], ast.UnaryOp):
                            flag = ast.copy_location(ast.UnaryOp(op=ast.Not(), operand=flag), flag)
                        inner = ast.copy_location(ast.If(test=flag, body=rewrite(st.body), orelse=[]), st)
                        st.test = conds[0] if len(conds) == 1 else ast.copy_location(ast.BoolOp(op=ast.And(), values=conds), st.test)
                        st.body = emitted + [inner]
                        out.append(st)
                    else:
                        st.test = flag
                        st.body = rewrite(st.body)
                        st.orelse = rewrite(st.orelse)
                        out.extend(emitted)
                        out.append(st)
            return out

        new_root.body = rewrite(new_root.body)
        if not os.environ.get('VERIF_NO_NORMALIZE'):
            normalize_tests(new_root)       # guard clauses of expanded helpers read like the rest
        _thread_once_exits(new_root)
        set_parents(new_root)
        new_root.parent = getattr(fi.node, 'parent', None)
        new_root.finfo = fi
        fi.node = new_root

        def fix_nested(f):
            for lst in f.nested.values():
                for nf in lst:
                    if id(nf.node) in mapping:
                        nf.node = mapping[id(nf.node)]
                        nf.node.finfo = nf
                    fix_nested(nf)
        fix_nested(fi)

    # -- loading
    def _load_tree(self, top):
        if os.path.isfile(top):
            files = [top]
        else:
            files = []
            for dp, dn, fn in os.walk(top):
                dn[:] = sorted(d for d in dn if d != '__pycache__')
                for f in sorted(fn):
                    if f.endswith('.py'):
                        files.append(os.path.join(dp, f))
        for path in files:
            rel = os.path.relpath(path, self.root)
            name = rel[:-3].replace(os.sep, '.')
            if name.endswith('.__init__'):
                name = name[:-9]
            try:
                with open(path, encoding='utf-8') as f:
                    source = f.read()
                tree = ast.parse(source, filename=path)
            except (SyntaxError, UnicodeDecodeError, OSError) as e:
                self.parse_errors.append((rel, repr(e)))
                continue
            if not os.environ.get('VERIF_NO_NORMALIZE'):
                normalize_tests(tree)
            set_parents(tree)
            self.modules[name] = ModuleInfo(name, path, rel, source, tree)

    def _index_module(self, m):
        pkg = m.name if m.is_package else m.name.rpartition('.')[0]
        for st in ast.walk(m.tree):
            if isinstance(st, ast.Import):
                for a in st.names:
                    if a.asname:
                        m.imports.setdefault(a.asname, a.name)
                    else:
                        m.imports.setdefault(a.name.split('.')[0], a.name.split('.')[0])
            elif isinstance(st, ast.ImportFrom):
                base = st.module or ''
                if st.level:
                    parts = pkg.split('.') if pkg else []
                    parts = parts[:len(parts) - (st.level - 1)] if st.level > 1 else parts
                    base = '.'.join(parts + ([st.module] if st.module else []))
                for a in st.names:
                    m.imports.setdefault(a.asname or a.name, f'{base}.{a.name}' if base else a.name)
        for st in m.tree.body:
            if isinstance(st, ast.Assign) and len(st.targets) == 1 and isinstance(st.targets[0], ast.Name):
                m.consts[st.targets[0].id] = st.value
            elif isinstance(st, ast.AnnAssign) and isinstance(st.target, ast.Name) and st.value is not None:
                m.consts[st.target.id] = st.value
        self._index_scope(m, m.tree.body, m.name, None, None)

    def _index_scope(self, m, body, prefix, cls, parentfunc):
        for st in body:
            self._index_stmt(m, st, prefix, cls, parentfunc)

    def _index_stmt(self, m, st, prefix, cls, parentfunc):
        if isinstance(st, ast.ClassDef):
            q = f'{prefix}.{st.name}'
            ci = ClassInfo(q, st, m)
            self.classes.setdefault(q, ci)
            for s in st.body:
                if isinstance(s, ast.Assign):
                    for t in s.targets:
                        for tn in ([t] if isinstance(t, ast.Name) else
                                   [e for e in getattr(t, 'elts', []) if isinstance(e, ast.Name)]):
                            ci.assigns[tn.id] = s.value
                elif isinstance(s, ast.AnnAssign) and isinstance(s.target, ast.Name) and s.value is not None:
                    ci.assigns[s.target.id] = s.value
            self._index_scope(m, st.body, q, ci, None)
        elif isinstance(st, (ast.FunctionDef, ast.AsyncFunctionDef)):
            q = f'{prefix}.{st.name}'
            fi = FuncInfo(q, st, m, cls if cls is not None else (parentfunc.cls if parentfunc else None), parentfunc)
            # keep the first definition under the plain name, later ones get a suffix
            key = q
            k = 2
            while key in self.functions:
                key = f'{q}#{k}'
                k += 1
            fi.qualname = key
            self.functions[key] = fi
            st.finfo = fi
            if cls is not None and parentfunc is None and prefix == cls.qualname:
                cls.methods[st.name] = fi   # last definition wins, like Python
            if parentfunc is not None:
                parentfunc.nested.setdefault(st.name, []).append(fi)
            self._index_nested(m, st.body, key, fi)
        else:
            # compound statements at module / class level (if/try/for/with)
            for lst in stmt_lists(st):
                self._index_scope(m, lst, prefix, cls, parentfunc)

    def _index_nested(self, m, body, prefix, parentfunc):
        for st in body:
            if isinstance(st, (ast.FunctionDef, ast.AsyncFunctionDef, ast.ClassDef)):
                self._index_stmt(m, st, prefix, None, parentfunc)
            else:
                for lst in stmt_lists(st):
                    self._index_nested(m, lst, prefix, parentfunc)

    # -- name resolution
    def resolve_dotted(self, name, _depth=0):
        """follow re-exports: 'frappy.core.Parameter' -> 'frappy.params.Parameter'"""
        if name in self.classes or name in self.functions or name in self.modules:
            return name
        if _depth > 6:
            return name
        mod, _, attr = name.rpartition('.')
        if mod in self.modules:
            m = self.modules[mod]
            if attr in m.imports:
                return self.resolve_dotted(m.imports[attr], _depth + 1)
            if attr in m.consts:
                # alias assignment  X = Y
                d = dotted(m.consts[attr])
                if d:
                    r = self.resolve_name(m, d)
                    if r:
                        return r
            return name
        if mod:
            rmod = self.resolve_dotted(mod, _depth + 1)
            if rmod != mod:
                return self.resolve_dotted(f'{rmod}.{attr}', _depth + 1)
        return name

    def resolve_name(self, module, name):
        """resolve a (possibly dotted) name used in `module` to a qualified name (or external dotted name)"""
        head, _, rest = name.partition('.')
        if f'{module.name}.{head}' in self.classes or f'{module.name}.{head}' in self.functions:
            q = f'{module.name}.{name}'
            return self.resolve_dotted(q)
        if head in module.imports:
            target = module.imports[head]
            return self.resolve_dotted(f'{target}.{rest}' if rest else target)
        if head in module.consts and not rest:
            d = dotted(module.consts[head])
            if d and d != head:
                return self.resolve_name(module, d)
        if hasattr(builtins, head) and not rest:
            return f'builtins.{head}'
        return None

    def _resolve_base(self, c, expr):
        d = dotted(expr)
        if d is None:
            return f'<expr:{src(expr, 60)}>'
        # nested in a class / function scope: try module scope
        r = self.resolve_name(c.module, d)
        return r or d

    # -- classes
    def cls(self, qualname):
        try:
            return self.classes[qualname]
        except KeyError:
            raise AnchorMissing(f'class {qualname} not found') from None

    def func(self, qualname):
        try:
            return self.functions[qualname]
        except KeyError:
            raise AnchorMissing(f'function {qualname} not found') from None

    def method(self, clsname, name, inherited=True):
        """FuncInfo of clsname.name (searching the MRO when inherited)"""
        c = self.cls(clsname)
        for q in (self.mro(c.qualname) if inherited else [c.qualname]):
            ci = self.classes.get(q)
            if ci and name in ci.methods:
                return ci.methods[name]
        raise AnchorMissing(f'method {clsname}.{name} not found')

    def has_method(self, clsname, name, inherited=True):
        try:
            self.method(clsname, name, inherited)
            return True
        except AnchorMissing:
            return False

    def mro(self, qualname):
        if qualname in self._mro_cache:
            return self._mro_cache[qualname]
        self._mro_cache[qualname] = [qualname]  # recursion guard
        c = self.classes.get(qualname)
        if c is None:
            res = [qualname]
        else:
            seqs = [list(self.mro(b)) for b in c.bases] + [list(c.bases)]
            res = [qualname] + self._c3(seqs)
        self._mro_cache[qualname] = res
        return res

    @staticmethod
    def _c3(seqs):
        res = []
        seqs = [s for s in seqs if s]
        while seqs:
            for s in seqs:
                cand = s[0]
                if not any(cand in t[1:] for t in seqs):
                    break
            else:
                # inconsistent hierarchy: fall back to depth-first order
                cand = seqs[0][0]
            res.append(cand)
            seqs = [[x for x in s if x != cand] for s in seqs]
            seqs = [s for s in seqs if s]
        return res

    def is_subclass(self, a, b):
        """a, b: qualified names; repo classes through the model, builtins through the interpreter"""
        if a == b:
            return True
        if b in self.mro(a):
            return True
        # builtin tail
        for q in self.mro(a):
            if q.startswith('builtins.') or ('.' not in q and hasattr(builtins, q)):
                pa = getattr(builtins, q.rpartition('.')[2], None)
                pb = getattr(builtins, b.rpartition('.')[2], None) if (b.startswith('builtins.') or '.' not in b) else None
                if isinstance(pa, type) and isinstance(pb, type) and issubclass(pa, pb):
                    return True
        return False

    def subclasses(self, qualname):
        if self._subclasses is None:
            self._subclasses = {}
            for q in self.classes:
                for b in self.mro(q)[1:]:
                    self._subclasses.setdefault(b, []).append(q)
        return list(self._subclasses.get(qualname, []))

    def class_attr(self, clsname, attr):
        """value expr of a class-level assignment, searching the MRO -> (ClassInfo, expr) or (None, None)"""
        for q in self.mro(clsname):
            ci = self.classes.get(q)
            if ci and attr in ci.assigns:
                return ci, ci.assigns[attr]
        return None, None

    def all_class_attrs(self, clsname):
        """names defined anywhere in the MRO: methods, class-level assignments, self.x stores"""
        res = set()
        for q in self.mro(clsname):
            ci = self.classes.get(q)
            if not ci:
                continue
            res.update(ci.methods)
            res.update(ci.assigns)
            for n in ast.walk(ci.node):
                if isinstance(n, ast.Attribute) and isinstance(n.ctx, (ast.Store, ast.Del)) \
                        and isinstance(n.value, ast.Name) and n.value.id in ('self', 'cls', 'res', 'obj'):
                    res.add(n.attr)
        return res

    # -- constants
    def const(self, module, expr, _depth=0):
        """safe constant folding: literals, names of module-level constants (also imported), + on
        strings/numbers, f-strings over constants, tuple/list/set/dict literals"""
        if _depth > 12:
            return UNKNOWN
        if isinstance(expr, ast.Constant):
            return expr.value
        if isinstance(expr, ast.Name):
            return self.const_name(module, expr.id, _depth + 1)
        if isinstance(expr, ast.Attribute):
            d = dotted(expr)
            if d:
                head, _, rest = d.partition('.')
                tgt = module.imports.get(head)
                if tgt and tgt in self.modules and '.' not in rest:
                    return self.const_name(self.modules[tgt], rest, _depth + 1)
            return UNKNOWN
        if isinstance(expr, ast.BinOp) and isinstance(expr.op, ast.Add):
            a = self.const(module, expr.left, _depth + 1)
            b = self.const(module, expr.right, _depth + 1)
            if a is UNKNOWN or b is UNKNOWN:
                return UNKNOWN
            try:
                return a + b
            except Exception:
                return UNKNOWN
        if isinstance(expr, ast.JoinedStr):
            out = []
            for v in expr.values:
                if isinstance(v, ast.Constant):
                    out.append(str(v.value))
                elif isinstance(v, ast.FormattedValue) and v.format_spec is None and v.conversion == -1:
                    c = self.const(module, v.value, _depth + 1)
                    if c is UNKNOWN:
                        return UNKNOWN
                    out.append(str(c))
                else:
                    return UNKNOWN
            return ''.join(out)
        if isinstance(expr, (ast.Tuple, ast.List, ast.Set)):
            vals = [self.const(module, e, _depth + 1) for e in expr.elts]
            if any(v is UNKNOWN for v in vals):
                return UNKNOWN
            if isinstance(expr, ast.Tuple):
                return tuple(vals)
            if isinstance(expr, ast.List):
                return list(vals)
            try:
                return set(vals)
            except TypeError:
                return UNKNOWN
        if isinstance(expr, ast.Dict):
            res = {}
            for k, v in zip(expr.keys, expr.values):
                if k is None:
                    return UNKNOWN
                kk = self.const(module, k, _depth + 1)
                vv = self.const(module, v, _depth + 1)
                if kk is UNKNOWN or vv is UNKNOWN:
                    return UNKNOWN
                try:
                    res[kk] = vv
                except TypeError:
                    return UNKNOWN
            return res
        if isinstance(expr, ast.UnaryOp) and isinstance(expr.op, ast.USub):
            v = self.const(module, expr.operand, _depth + 1)
            return -v if isinstance(v, (int, float)) else UNKNOWN
        return UNKNOWN

    def const_name(self, module, name, _depth=0):
        if name in module.consts:
            return self.const(module, module.consts[name], _depth + 1)
        tgt = module.imports.get(name)
        if tgt:
            mod, _, attr = tgt.rpartition('.')
            if mod in self.modules:
                return self.const_name(self.modules[mod], attr, _depth + 1)
        return UNKNOWN

    # -- misc
    def site(self, node, finfo=None):
        """'frappy/x.py:123 Class.func' for a node (the line is informational only; keys never use it)"""
        n = node
        mod = None
        fi = finfo
        while n is not None:
            if fi is None and hasattr(n, 'finfo'):
                fi = n.finfo
            if isinstance(n, ast.Module):
                for m in self.modules.values():
                    if m.tree is n:
                        mod = m
                break
            n = getattr(n, 'parent', None)
        rel = mod.relpath if mod else (fi.module.relpath if fi else '?')
        where = fi.short if fi else ''
        return f'{rel}:{getattr(node, "lineno", 0)} {where}'.strip()

    def functions_of_module(self, modname):
        return [f for f in self.functions.values() if f.module.name == modname]

    def stats(self):
        return {'modules': len(self.modules), 'classes': len(self.classes), 'functions': len(self.functions)}
