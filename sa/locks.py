"""Lock-order graph (thorough tier): an edge A -> B whenever lock B may be acquired while A is held.

Locks are attributes assigned from threading.Lock()/RLock(); a lock is identified by (defining class, attribute).
Held sets come from `with <lock>:` regions and the acquire/try/finally idiom (sa.lib.lock_regions); calls inside a
region are followed through a name-based call graph (self.m() through the class hierarchy incl. overriding
subclasses, obj.m() by method name over the framework classes = over-approximation), to a bounded depth.
"""
import ast

from sa.model import body_walk, call_attr, calls_in, dotted
from sa.lib import attr_stores, lock_regions

SKIP_MODULES = ('frappy.gui', 'frappy.client.interactive', 'frappy.playground', 'frappy.protocol.router')
# method names that are far too generic to be followed by name (would connect everything with everything)
GENERIC = {'get', 'set', 'put', 'pop', 'append', 'add', 'update', 'items', 'values', 'keys', 'copy', 'clear', 'wait', 'join',
           'format', 'split', 'strip', 'encode', 'decode', 'debug', 'info', 'warning', 'error', 'exception', 'log', 'close',
           'read', 'write', 'send', 'recv', 'start', 'stop', 'run', 'remove', 'discard', 'extend', 'setdefault', 'index',
           'validate', 'export_value', 'import_value', 'format_value', '__call__', 'connect', 'disconnect', 'shutdown', 'register',
           'callback', 'is_set', 'acquire', 'release', 'sleep', 'time', 'insert', 'sort', 'count', 'handle', 'emit', 'flush'}


def find_locks(m):
    """-> {(class qualname, attr): 'Lock'|'RLock'}"""
    res = {}
    for q, ci in m.classes.items():
        if not ci.module.name.startswith('frappy') or ci.module.name.startswith(SKIP_MODULES):
            continue
        for fi in ci.methods.values():
            for t, v, s in attr_stores(fi.node):
                if isinstance(v, ast.Call) and dotted(v.func) in ('threading.Lock', 'threading.RLock', 'Lock', 'RLock') and dotted(t.value) == 'self':
                    res[(q, t.attr)] = dotted(v.func).rpartition('.')[2]
    return res


class LockGraph:
    def __init__(self, m, max_depth=6):
        self.m = m
        self.locks = find_locks(m)
        self.by_attr = {}
        for (q, a), k in self.locks.items():
            self.by_attr.setdefault(a, []).append(q)
        self.max_depth = max_depth
        self.methods_by_name = {}
        for q, fi in m.functions.items():
            if fi.module.name.startswith('frappy') and not fi.module.name.startswith(SKIP_MODULES) and fi.cls is not None and fi.parent is None:
                self.methods_by_name.setdefault(fi.name, []).append(fi)
        self.aliases = self._callable_attr_aliases()
        self._acq_cache = {}
        self.edges = {}      # (A, B) -> witness string
        self.imprecise = 0
        self._build()

    def _callable_attr_aliases(self):
        """self.updateCallback = srv.dispatcher.announce_update  ->  {'updateCallback': 'announce_update'}"""
        res = {}
        for q, fi in self.m.functions.items():
            if not fi.module.name.startswith('frappy') or fi.module.name.startswith(SKIP_MODULES):
                continue
            for t, v, s in attr_stores(fi.node):
                if isinstance(v, ast.Attribute) and dotted(t.value) == 'self' and v.attr in self.methods_by_name and v.attr not in GENERIC:
                    res[t.attr] = v.attr
        return res

    def lock_id(self, expr_dotted, fi):
        """resolve 'self._lock' / 'moduleobj.updateLock' used in function fi to a lock identity"""
        recv, _, attr = expr_dotted.rpartition('.')
        cands = self.by_attr.get(attr, [])
        if not cands:
            return None
        if recv == 'self' and fi.cls is not None:
            owner = fi.cls.qualname
            for c in cands:
                if c in self.m.mro(owner) or owner in self.m.mro(c):
                    return (c, attr)
        if len(cands) == 1:
            return (cands[0], attr)
        return None

    def callees(self, call, fi):
        """-> list of FuncInfo, imprecise flag"""
        f = call.func
        m = self.m
        if isinstance(f, ast.Attribute):
            name = self.aliases.get(f.attr, f.attr) if dotted(f.value) == 'self' else f.attr
            if dotted(f.value) == 'self' and fi.cls is not None:
                res = []
                owner = fi.cls.qualname
                for q in m.mro(owner) + m.subclasses(owner):
                    ci = m.classes.get(q)
                    if ci and name in ci.methods:
                        res.append(ci.methods[name])
                if res:
                    return res, False
            if isinstance(f.value, ast.Call) and dotted(f.value.func) == 'super' and fi.cls is not None:
                for q in m.mro(fi.cls.qualname)[1:]:
                    ci = m.classes.get(q)
                    if ci and name in ci.methods:
                        return [ci.methods[name]], False
                return [], False
            if name in GENERIC:
                return [], True
            return list(self.methods_by_name.get(name, [])), True
        if isinstance(f, ast.Name):
            r = m.resolve_name(fi.module, f.id)
            if r in m.functions:
                return [m.functions[r]], False
            # local alias:  handler = getattr(self, f'handle_{action}', None) ; handler(...)
            from sa.lib import origins
            al = [o for o in origins(f, fi.node) if isinstance(o, ast.Call) and dotted(o.func) == 'getattr']
            if al:
                f = al[0]
            # getattr(moduleobj, 'write_' + pname)(...)  handled by the caller as prefix dispatch
        if isinstance(f, ast.Call) and dotted(f.func) == 'getattr' and len(f.args) >= 2:
            a = f.args[1]
            pre = None
            if isinstance(a, ast.BinOp) and isinstance(a.left, ast.Constant):
                pre = a.left.value
            if isinstance(a, ast.JoinedStr) and a.values and isinstance(a.values[0], ast.Constant):
                pre = a.values[0].value
            if pre in ('read_', 'write_'):
                hook = self.m.functions.get('frappy.modulebase.HasAccessibles.__init_subclass__')
                if hook:
                    nm = 'new_rfunc' if pre == 'read_' else 'new_wfunc'
                    return list(hook.nested.get(nm, [])), False
            if pre == 'handle_':
                return [fi2 for n, lst in self.methods_by_name.items() if n.startswith('handle_') for fi2 in lst
                        if fi2.cls is not None and fi2.cls.name == 'Dispatcher'], False
        return [], True

    def acquired(self, fi, depth=0, stack=()):
        """locks that may be acquired (transitively) by calling fi"""
        if fi.qualname in self._acq_cache:
            return self._acq_cache[fi.qualname]
        if depth > self.max_depth or fi.qualname in stack:
            return set()
        res = set()
        for n in body_walk(fi.node):
            if isinstance(n, (ast.With, ast.AsyncWith)):
                for it in n.items:
                    d = dotted(it.context_expr)
                    lid = self.lock_id(d, fi) if d else None
                    if lid:
                        res.add(lid)
        for c in calls_in(fi.node):
            if call_attr(c) == 'acquire' and isinstance(c.func, ast.Attribute):
                d = dotted(c.func.value)
                lid = self.lock_id(d, fi) if d else None
                if lid:
                    res.add(lid)
            cal, imprecise = self.callees(c, fi)
            for g in cal:
                res |= self.acquired(g, depth + 1, stack + (fi.qualname,))
        if depth == 0:
            self._acq_cache[fi.qualname] = res
        return res

    def _build(self):
        for q, fi in self.m.functions.items():
            if not fi.module.name.startswith('frappy') or fi.module.name.startswith(SKIP_MODULES):
                continue
            # nested wrappers carry `self`: treat their class as Module
            for c in calls_in(fi.node):
                held = [self.lock_id(d, fi) for d in lock_regions(c)]
                held = [h for h in held if h]
                if not held:
                    continue
                cal, imprecise = self.callees(c, fi)
                if imprecise:
                    self.imprecise += 1
                inner = set()
                for g in cal:
                    inner |= self.acquired(g)
                for a in held:
                    for b in inner:
                        if a != b or self.locks.get(a) == 'Lock':
                            self.edges.setdefault((a, b), f'{fi.short}: `{ast.unparse(c.func)}(...)` while holding {a[0].rpartition(".")[2]}.{a[1]}')
            # nested with statements
            for n in body_walk(fi.node):
                if isinstance(n, (ast.With, ast.AsyncWith)):
                    for it in n.items:
                        d = dotted(it.context_expr)
                        b = self.lock_id(d, fi) if d else None
                        if not b:
                            continue
                        for d2 in lock_regions(n):
                            a = self.lock_id(d2, fi)
                            if a and (a != b or self.locks.get(a) == 'Lock'):
                                self.edges.setdefault((a, b), f'{fi.short}: nested with')

    def cycles(self):
        """simple cycles (as lists of lock ids) in the order graph; self-loops on RLocks were not added"""
        graph = {}
        for (a, b) in self.edges:
            graph.setdefault(a, set()).add(b)
        res = []
        seen_cycles = set()

        def dfs(start, node, path):
            for nxt in graph.get(node, ()):
                if nxt == start:
                    key = frozenset(path)
                    if key not in seen_cycles:
                        seen_cycles.add(key)
                        res.append(list(path))
                elif nxt not in path and len(path) < 6:
                    dfs(start, nxt, path + [nxt])
        for s in graph:
            dfs(s, s, [s])
        return res


def name(lid):
    return f'{lid[0].rpartition(".")[2]}.{lid[1]}'
