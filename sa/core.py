"""Rule registry, obligations, runner, evidence and known-findings handling."""
import json
import os
import sys
import time
import traceback

from sa.model import AnchorMissing, Model

VERIF = os.path.dirname(os.path.dirname(os.path.abspath(__file__)))
REPO = os.environ.get('VERIF_REPO', '/repo')

DISCHARGED, VIOLATED, UNDECIDED, INFO = 'discharged', 'violated', 'undecided', 'info'


class Obligation:
    def __init__(self, rule, construct, site, status, why, path=None):
        self.rule = rule
        self.construct = construct      # qualified construct, no line numbers
        self.site = site                # file:line function (informational)
        self.status = status
        self.why = why
        self.path = path

    @property
    def key(self):
        return f'{self.rule}:{self.construct}'

    def asdict(self):
        d = {'rule': self.rule, 'key': self.key, 'site': self.site, 'status': self.status, 'why': self.why}
        if self.path:
            d['path'] = self.path
        return d


class Rule:
    def __init__(self, rid, prop, func, min_instances, doc, tier):
        self.id = rid
        self.prop = prop
        self.func = func
        self.min_instances = min_instances
        self.doc = doc
        self.tier = tier


RULES = {}          # prop -> [Rule]
PROP_INFO = {}      # prop -> dict(explanation=..., assumptions=[...])


def rule(rid, min_instances=1, tier='quick'):
    prop = rid.split('.')[0]

    def deco(f):
        RULES.setdefault(prop, []).append(Rule(rid, prop, f, min_instances, (f.__doc__ or '').strip(), tier))
        return f
    return deco


def prop_info(prop, explanation, assumptions=(), not_decided=''):
    PROP_INFO[prop] = {'explanation': explanation, 'assumptions': list(assumptions), 'not_decided': not_decided}


class Ctx:
    """what a rule gets: the model and obligation constructors"""

    def __init__(self, model, ruleobj, tier):
        self.m = model
        self.rule = ruleobj
        self.tier = tier
        self.out = []
        self.functions = set()
        self.call_sites = 0

    def _add(self, status, construct, node_or_site, why, finfo=None, path=None):
        if isinstance(node_or_site, str) or node_or_site is None:
            site = node_or_site or ''
        else:
            site = self.m.site(node_or_site, finfo)
        if finfo is not None:
            self.functions.add(finfo.qualname)
        self.out.append(Obligation(self.rule.id, construct, site, status, why, path))

    def ok(self, construct, node, why, finfo=None):
        self._add(DISCHARGED, construct, node, why, finfo)

    def bad(self, construct, node, why, finfo=None, path=None):
        self._add(VIOLATED, construct, node, why, finfo, path)

    def undecided(self, construct, node, why, finfo=None):
        self._add(UNDECIDED, construct, node, why, finfo)

    def info(self, construct, node, why, finfo=None):
        self._add(INFO, construct, node, why, finfo)

    def check(self, cond, construct, node, ok_why, bad_why, finfo=None):
        if cond:
            self.ok(construct, node, ok_why, finfo)
        else:
            self.bad(construct, node, bad_why, finfo)
        return cond

    def analysed(self, finfo):
        self.functions.add(finfo.qualname)


def load_known():
    p = os.path.join(VERIF, 'known_findings.json')
    try:
        with open(p, encoding='utf-8') as f:
            d = json.load(f)
    except FileNotFoundError:
        return {'findings': [], 'fixed': []}
    return d


_MODEL_CACHE = {}


def get_model(tier):
    pk = ('frappy',) if tier == 'quick' else ('frappy', 'frappy_demo', 'frappy_psi', 'frappy_mlz', 'frappy_ess')
    pk = tuple(p for p in pk if os.path.isdir(os.path.join(REPO, p)))
    if pk not in _MODEL_CACHE:
        _MODEL_CACHE[pk] = Model(REPO, pk)
    return _MODEL_CACHE[pk]


def run_property(prop, tier='quick', explain=None, quiet=False, write=True):
    """runs all rules of a property; returns exit code"""
    t0 = time.time()
    seed = int(os.environ.get('VERIF_SEED', '0') or 0)
    out = []   # printed lines

    def p(line):
        out.append(line)
        if not quiet:
            try:
                print(line, flush=True)
            except BrokenPipeError:  # the reader went away (e.g. `| head`): keep analysing, the exit code still counts
                pass

    try:
        import sa.rules  # noqa: F401  (registers everything)
        if prop not in RULES:
            p(f'ANALYSIS-ERROR unknown property {prop}')
            return 2
        model = get_model(tier)
        if not os.path.isdir(os.path.join(REPO, 'frappy')):
            p(f'ANALYSIS-ERROR {REPO}/frappy not found')
            return 2
        if model.parse_errors:
            # a file that does not parse can not be analysed: the tree does not "compile"
            for rel, err in model.parse_errors:
                p(f'ANALYSIS-ERROR can not parse {rel}: {err}')
            return 2
        obligations = []
        per_rule = {}
        functions = set()
        errors = []
        for r in RULES[prop]:
            if r.tier == 'thorough' and tier != 'thorough':
                continue
            ctx = Ctx(model, r, tier)
            try:
                r.func(ctx)
            except AnchorMissing as e:
                if getattr(e, 'violation', None):
                    ctx.bad(e.violation, None, f'{e} - a construct the property depends on is missing')
                    obligations.extend(ctx.out)
                    per_rule[r.id] = {'instances': len(ctx.out), 'min_instances': r.min_instances, 'doc': ' '.join(r.doc.split())[:400]}
                    functions |= ctx.functions
                else:
                    errors.append(f'{r.id}: anchor missing: {e}')
                continue
            n = sum(1 for o in ctx.out if o.status != INFO)
            per_rule[r.id] = {'instances': n, 'min_instances': r.min_instances,
                              'doc': ' '.join(r.doc.split())[:400]}
            if n < r.min_instances and not any(o.status == VIOLATED for o in ctx.out):
                errors.append(f'{r.id}: only {n} instances found, at least {r.min_instances} were confirmed by hand '
                              f'(the rule no longer matches its anchors)')
            obligations.extend(ctx.out)
            functions |= ctx.functions
        for e in errors:
            p(f'ANALYSIS-ERROR {e}')
        known = load_known()
        known_keys = {k['key']: k for k in known.get('findings', []) if k.get('property') == prop}
        viol = [o for o in obligations if o.status == VIOLATED]
        # distinct violations by key
        seen = set()
        new_viol = []
        known_hit = []
        for o in viol:
            if o.key in seen:
                continue
            seen.add(o.key)
            if o.key in known_keys:
                known_hit.append(o)
            else:
                new_viol.append(o)
        nd = sum(1 for o in obligations if o.status == DISCHARGED)
        nu = sum(1 for o in obligations if o.status == UNDECIDED)
        nobl = sum(1 for o in obligations if o.status != INFO)
        p(f'OBLIGATIONS {nobl} discharged={nd} undecided={nu} violated={len(viol)} '
          f'rules={len(per_rule)} functions={len(functions)} tier={tier}')
        if os.environ.get('VERIF_DUMP_KEYS'):    # maintenance: list every obligation (engine regression comparison)
            with open(os.environ['VERIF_DUMP_KEYS'], 'a', encoding='utf-8') as f:
                for o in obligations:
                    f.write(f'{o.status}\t{o.key}\n')
        for o in known_hit:
            p(f'KNOWN-FINDING: property={prop} {o.key} :: {known_keys[o.key].get("what", o.why)}')
        vdir = os.path.join(VERIF, 'evidence', 'violations')
        if os.environ.get('VERIF_NO_EVIDENCE'):
            vdir = os.path.join(os.environ.get('TMPDIR') or '/tmp', 'verif-selftest-violations')
        elif os.path.isdir(vdir) and not explain:
            for fn in os.listdir(vdir):      # replay files of earlier runs of this property are stale now
                if fn.startswith(prop + '-'):
                    try:
                        os.remove(os.path.join(vdir, fn))
                    except OSError:
                        pass
        for o in new_viol:
            os.makedirs(vdir, exist_ok=True)
            safe = ''.join(ch if ch.isalnum() or ch in '._-' else '_' for ch in o.key)[:150]
            path = os.path.join(vdir, f'{prop}-{safe}.json')
            with open(path, 'w', encoding='utf-8') as f:
                json.dump({'property': prop, 'obligation': o.asdict(), 'tier': tier,
                           'rule_doc': per_rule.get(o.rule, {}).get('doc', '')}, f, indent=1)
            p(f'  {o.key}\n    at {o.site}\n    {o.why}')
            p(f'VIOLATION property={prop} replay={path}')
        if explain:
            try:
                with open(explain, encoding='utf-8') as f:
                    want = json.load(f)['obligation']['key']
            except Exception as e:
                p(f'ANALYSIS-ERROR can not read {explain}: {e!r}')
                return 2
            hits = [o for o in obligations if o.key == want]
            for o in hits:
                p(f'EXPLAIN {o.key}: {o.status} at {o.site}: {o.why}')
            if not hits:
                p(f'EXPLAIN {want}: construct no longer present')
        wall = time.time() - t0
        if write and not os.environ.get('VERIF_NO_EVIDENCE') and not errors:
            info = PROP_INFO.get(prop, {})
            samples = []
            for st in (VIOLATED, DISCHARGED, UNDECIDED):
                per = {}
                for o in obligations:
                    if o.status == st and per.setdefault(o.rule, 0) < 2:
                        per[o.rule] += 1
                        samples.append(o.asdict())
            ev = {
                'property_id': prop, 'tier': tier, 'seed': seed, 'level': 'other',
                'coverage': {
                    'explanation': info.get('explanation', '') + ' NOT DECIDED: ' + info.get('not_decided', ''),
                    'obligations': nobl, 'discharged': nd, 'undecided': nu,
                    'violated_known': len(known_hit), 'violated_new': len(new_viol),
                    'evaluations': nobl,
                    'distinct_nontrivial': len({o.key for o in obligations if o.status != INFO}),
                    'rule': 'one obligation per (rule, resolved construct) found in the parsed tree of /repo; '
                            'distinct = distinct (rule, construct) keys; all are non-trivial (each is a site the rule applies to)',
                    'rule_instances': per_rule,
                    'functions_analysed': sorted(functions),
                    'model': model.stats(),
                    'packages': list(model.packages),
                    'samples': samples[:60],
                    'info': [o.asdict() for o in obligations if o.status == INFO][:40],
                    'known_findings': [o.key for o in known_hit],
                    'checker_cmd': f'/venv/bin/python /verif/check {prop} --tier {tier}',
                    'trusted_base': ['CPython ast parser', '/verif/sa/model.py name/MRO resolution',
                                     '/verif/sa/cfg.py CFG with exception edges', 'idiom tables in /verif/sa/rules'],
                },
                'assumptions': info.get('assumptions', []) + [
                    'name-based call resolution (no type inference)',
                    'user drivers do not monkey-patch framework classes'],
                'wall_s': round(wall, 3),
                'violations': len(new_viol),
            }
            if tier == 'thorough':
                from sa import minilint
                ev['coverage']['minilint_cross_reference'] = minilint.lint_files(model, minilint.anchor_files(VERIF, prop))
            os.makedirs(os.path.join(VERIF, 'evidence'), exist_ok=True)
            with open(os.path.join(VERIF, 'evidence', f'{prop}.json'), 'w', encoding='utf-8') as f:
                json.dump(ev, f, indent=1)
        if new_viol:
            return 1
        return 2 if errors else 0
    except Exception:  # never let a traceback look like a violation
        p('ANALYSIS-ERROR ' + traceback.format_exc().replace('\n', ' | '))
        return 2


def main(argv=None):
    import argparse
    ap = argparse.ArgumentParser()
    ap.add_argument('prop')
    ap.add_argument('--tier', default=os.environ.get('VERIF_TIER') or 'quick', choices=['quick', 'thorough'])
    ap.add_argument('--explain')
    ap.add_argument('--list', action='store_true')
    a = ap.parse_args(argv)
    if a.prop == 'all':
        import sa.rules  # noqa: F401
        rc = 0
        for prop in sorted(RULES):
            print(f'== {prop}')
            rc = max(rc, run_property(prop, a.tier))
        return rc
    rc = run_property(a.prop, a.tier, explain=a.explain)
    if a.tier == 'thorough' and rc == 0 and not os.environ.get('VERIF_NO_SELFTEST'):
        from sa import selftest
        rc = selftest.run_for_property(a.prop)
    return rc


if __name__ == '__main__':
    sys.exit(main())
