"""Cross-cutting rule families shared by several properties (registered from the cNN modules)."""
from sa.lib import *  # noqa: F401,F403
from sa.model import AnchorMissing

CORE_SKIP = ('frappy.gui', 'frappy.client.interactive', 'frappy.playground', 'frappy.protocol.router')

# attributes that legitimately hold falsy values (0, 0.0, '', False, empty containers): "is it set?" must be asked by identity
VALUE_SLOTS = {'constant', 'value', 'default', 'target', 'min', 'max', 'minlen', 'maxlen', 'minbytes', 'maxbytes', 'minchars', 'maxchars', 'scale'}


def _truthiness_operands(test):
    """attribute expressions whose truth value decides the test (through and / or / not)"""
    out = []

    def walk(t):
        if isinstance(t, ast.BoolOp):
            for v in t.values:
                walk(v)
        elif isinstance(t, ast.UnaryOp) and isinstance(t.op, ast.Not):
            walk(t.operand)
        elif isinstance(t, ast.Attribute):
            out.append(t)
    walk(test)
    return out


def _in_test_position(node):
    """node is (part of) the test of an if / while / conditional expression (through and / or / not)"""
    cur = node
    par = getattr(cur, 'parent', None)
    while isinstance(par, (ast.BoolOp, ast.UnaryOp)):
        cur, par = par, getattr(par, 'parent', None)
    return isinstance(par, (ast.If, ast.IfExp, ast.While)) and par.test is cur


def truthiness_on_value_slots(ctx, modules, slots=None):
    """no `if x.<slot>:` on slots that may hold falsy values (limits of 0, constant 0 / '', value False ...)"""
    m = ctx.m
    slots = slots or VALUE_SLOTS
    n = 0
    for q, fi in sorted(m.functions.items()):
        if fi.module.name not in modules:
            continue
        for node in body_walk(fi.node, into_lambda=True):
            if isinstance(node, (ast.If, ast.IfExp, ast.While)):
                n += 1
                for t in _truthiness_operands(node.test):
                    if t.attr in slots:
                        ctx.analysed(fi)
                        ctx.bad(f'{fi.qualname}:`{src(t)}` tested by truthiness', node,
                                f'`{src(node.test)}` asks whether `{src(t)}` is set by its truth value, but 0, 0.0, \'\', False and empty containers are '
                                f'legitimate values of `{t.attr}`: for them the branch is taken as if nothing was set', fi)
            elif isinstance(node, ast.BoolOp) and isinstance(node.op, ast.Or) and not _in_test_position(node):
                # `x.<slot> or D` as a value: a legitimate falsy value of the slot is replaced by D - harmless only when D is
                # itself the falsy constant (`self.minlen or 0`)
                n += 1
                for i, v in enumerate(node.values[:-1]):
                    if isinstance(v, ast.Attribute) and v.attr in slots:
                        rest = node.values[i + 1:]
                        if all(isinstance(r, ast.Constant) and not r.value for r in rest):
                            continue
                        ctx.analysed(fi)
                        ctx.bad(f'{fi.qualname}:`{src(v)}` tested by truthiness', node,
                                f'`{src(node)}` replaces a legitimate falsy value of `{src(v)}` (0, 0.0, \'\', False, an empty container) by '
                                f'`{src(rest[-1])}` as if nothing was set: e.g. a declared limit of 0 is taken as no limit', fi)
    ctx.ok(f'truthiness scan over {len(modules)} modules', None, f'{n} conditions inspected, value slots {sorted(slots)} are tested by identity / comparison only')


def iterate_while_mutating(ctx, modules):
    """a for loop over a live collection whose body adds to / removes from that collection must iterate a copy
    (accepted idiom: mutate and leave the loop at once by break / return)"""
    m = ctx.m
    MUT = {'remove', 'pop', 'discard', 'clear', 'append', 'add', 'insert', 'popitem', 'update', 'setdefault', 'extend'}
    n = 0
    for q, fi in sorted(m.functions.items()):
        if fi.module.name not in modules:
            continue
        for loop in [x for x in body_walk(fi.node) if isinstance(x, ast.For)]:
            n += 1
            it = src(loop.iter)
            base = it
            for suf in ('.items()', '.values()', '.keys()'):
                if base.endswith(suf):
                    base = base[:-len(suf)]
            if not isinstance(loop.iter, (ast.Name, ast.Attribute)) and base == it:
                continue   # list(x), x[:], sorted(x) ... : a copy or a new object
            for c in [x for st in loop.body for x in walk_local(st)]:   # the else clause runs after the loop
                hit = None
                if isinstance(c, ast.Call) and call_attr(c) in MUT and isinstance(c.func, ast.Attribute) and src(c.func.value) == base:
                    hit = c
                if isinstance(c, ast.Subscript) and isinstance(c.ctx, (ast.Store, ast.Del)) and src(c.value) == base:
                    hit = c
                if hit is None:
                    continue
                st = enclosing_stmt(hit)
                par = getattr(st, 'parent', None)
                leaves = False
                for field in ('body', 'orelse', 'finalbody'):
                    lst = getattr(par, field, None)
                    if isinstance(lst, list) and st in lst:
                        nxt = lst[lst.index(st) + 1:lst.index(st) + 2]
                        leaves = bool(nxt) and isinstance(nxt[0], (ast.Break, ast.Return))
                ctx.analysed(fi)
                ctx.check(leaves, f'{fi.qualname}:loop over `{base}` mutates it', hit, 'the loop is left directly after the mutation',
                          f'`for ... in {it}` iterates the live collection while `{src(hit)}` changes it: elements are skipped (or RuntimeError '
                          'for dicts) - e.g. the callback registered after a one-shot callback misses a message', fi)
    ctx.ok(f'iteration scan over {len(modules)} modules', None, f'{n} for loops inspected')

