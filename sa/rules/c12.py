"""C12 - client cache and callbacks mirror the node end to end"""
from sa.core import rule, prop_info
from sa.lib import *  # noqa: F401,F403
from sa.lib import attr_stores, func_calls, ReachingDefs, is_method_call
from sa.model import AnchorMissing, UNKNOWN, kwarg
from sa import roles

C = roles.CLIENT
PC = roles.PROXYCLIENT

prop_info(
    'C12',
    'Decided: R1 the client cache has a single writer (SecopClient.updateValue) and the stored value is the result of '
    'import_value; R2 updateValue invokes the updateItem callbacks once for each of the three key levels and the '
    'legacy updateEvent trio through super(), all after the cache store; R3 in the receive loop the cache update of '
    'a message precedes the wake-up of the waiting caller; R4 the timestamp handed to updateValue is min(now, t); '
    'R5 UPDATE_MESSAGES equals the set of actions the node emits for a parameter; R6 every write/command path sends '
    'the exported (transport) value and imports the result; R7 the proxy forwards value, error and timestamp '
    'unchanged into the funnel of the proxy module.',
    not_decided='cache equality on concrete message histories, error reconstruction text, end-to-end fidelity over TCP (values).')


@rule('C12.R1', min_instances=2)
def single_cache_writer(ctx):
    """self.cache[...] = only in SecopClient.updateValue; value imported with datatype.import_value"""
    m = ctx.m
    writers = []
    for q, fi in m.functions.items():
        if not fi.module.name.startswith('frappy.client') and fi.module.name != 'frappy.proxy':
            continue
        for n in body_walk(fi.node):
            if isinstance(n, ast.Subscript) and isinstance(n.ctx, (ast.Store, ast.Del)) and src(n.value).endswith('.cache') :
                writers.append((fi, n))
            if isinstance(n, ast.Call) and call_attr(n) in ('update', 'pop', 'clear', 'setdefault', 'popitem') and isinstance(n.func, ast.Attribute) \
                    and src(n.func.value).endswith('.cache'):
                writers.append((fi, n))
    if not writers:
        raise AnchorMissing('no store into the client cache found')
    for fi, n in writers:
        ctx.analysed(fi)
        ctx.check(fi.qualname == f'{C}.updateValue', f'{fi.qualname}:store into cache', n, 'the single cache writer',
                  f'`{src(n)}` modifies the client cache outside SecopClient.updateValue: callbacks are not invoked for this change', fi)
    uv = m.method(C, 'updateValue', inherited=False)
    cfg = CFG(uv.node, m, uv.module)
    rd = ReachingDefs(cfg, uv.node)
    items = [c for c in calls_in(uv.node) if call_name(c) == 'CacheItem']
    errp = uv.node.args.args[5].arg if len(uv.node.args.args) > 5 else 'readerror'
    err_side = sides_with_fact(cfg, lambda a, tv: tv and src(a) == errp)
    ok_side = sides_with_fact(cfg, lambda a, tv: not tv and src(a) == errp)

    def value_is_imported(site, expr):
        """what is handed on as the value is the imported one - except where an error is cached (the value is unused then)"""
        o = rd.origins_at(site, expr)
        imported = [x for x in o if is_method_call(x, {'import_value'})]
        rest = [x for x in o if x not in imported]
        ids = set(cfg.node_of(site))
        if ids and ids <= err_side:
            return True, o          # only reached with an error
        if ids and ids <= ok_side:
            return bool(imported) and not rest, o
        ok = bool(imported) and all(isinstance(x, ast.Name) and x.id.startswith('<param') for x in rest)
        guarded = any(isinstance(a, ast.If) and errp in src(a.test) for x in imported for a in ancestors(x))
        return ok and guarded, o
    for c in items:
        if not c.args:
            continue
        ok, o = value_is_imported(c, c.args[0])
        ctx.check(ok, f'{uv.qualname}:cached value is imported', c, 'value = datatype.import_value(value) unless an error is cached',
                  f'the cached value is {[src(x) for x in o]}: the transport form is stored without import_value', uv)
    # the legacy fan-out (updateEvent callbacks of the base class) gets the same value as the cache
    for c in calls_in(uv.node):
        if not (call_attr(c) == 'updateValue' and 'super()' in src(c.func)):
            continue
        vals = c.args[2:]
        if vals and isinstance(vals[0], ast.Starred):
            o = rd.origins_at(c, vals[0].value)
            ok = bool(o) and all(isinstance(x, ast.Call) and call_name(x) == 'CacheItem' for x in o)
        elif vals:
            ok, o = value_is_imported(c, vals[0])
        else:
            ok, o = False, []
        ctx.check(ok, f'{uv.qualname}:updateEvent callbacks get the imported value', c, 'the value handed to the base class is the cached one',
                  f'`{src(c)}` hands {[src(x) for x in o]} to the updateEvent callbacks: the transport form of the value (123 for a scaled 1.23, base64 text '
                  'for a blob, a list for a tuple) while the cache and the updateItem callbacks hold the imported one', uv)


@rule('C12.R2', min_instances=4)
def callbacks_once_per_level(ctx):
    """exactly one callback call per key level, after the cache store"""
    m = ctx.m
    uv = m.method(C, 'updateValue', inherited=False)
    ctx.analysed(uv)
    cfg = CFG(uv.node, m, uv.module)
    store = [i for n in body_walk(uv.node) if isinstance(n, ast.Subscript) and isinstance(n.ctx, ast.Store) and src(n.value).endswith('.cache') for i in cfg.node_of(n)]
    if not store:
        raise AnchorMissing('cache store in updateValue not found')
    for fi, cbname in ((uv, 'updateItem'), (m.method(PC, 'updateValue', inherited=False), 'updateEvent')):
        ctx.analysed(fi)
        cfgf = CFG(fi.node, m, fi.module)
        calls = [c for c in calls_in(fi.node) if call_attr(c) == 'callback' and len(c.args) >= 2 and isinstance(c.args[1], ast.Constant) and c.args[1].value == cbname]
        # `for key in (None, module, (module, param)): self.callback(key, ...)`: a loop over a literal tuple is the unrolled form
        unrolled = {}
        for c in calls:
            loop = next((a for a in ancestors(c) if isinstance(a, (ast.For, ast.While))), None)
            stc = next((a for a in ancestors(c) if isinstance(a, ast.stmt)), None)
            if isinstance(loop, ast.For) and isinstance(loop.iter, (ast.Tuple, ast.List)) and isinstance(loop.target, ast.Name) and \
                    src(c.args[0]) == loop.target.id and any(stc is x for x in loop.body) and not loop.orelse and \
                    not any(isinstance(x, (ast.Break, ast.Continue, ast.Return)) for x in ast.walk(loop)):
                unrolled[id(c)] = loop
        keys = sorted(k for c in calls for k in ([src(e) for e in unrolled[id(c)].iter.elts] if id(c) in unrolled else [src(c.args[0])]))
        p = [a.arg for a in fi.node.args.args]
        want = sorted(['None', p[1], f'({p[1]}, {p[2]})'])
        ctx.check(keys == want, f'{fi.qualname}:{cbname} once per level', fi.node, f'callback keys {keys}',
                  f'{cbname} callbacks are invoked for keys {keys}, expected exactly {want} (node, module, parameter level once each)', fi)
        inloop = [c for c in calls if id(c) not in unrolled and any(isinstance(a, (ast.For, ast.While)) for a in ancestors(c))]
        allpass = all(cfgf.all_paths_pass([cfgf.entry], [cfgf.exit], cfgf.ids(unrolled[id(c)]) if id(c) in unrolled else cfgf.node_of(c), exc=False) for c in calls)
        ctx.check(bool(calls) and not inloop and allpass, f'{fi.qualname}:{cbname} unconditional', fi.node, 'every normal path passes each callback call once',
                  f'a {cbname} callback call is conditional or in a loop: not exactly once per message', fi)
    sup = [c for c in calls_in(uv.node) if call_attr(c) == 'updateValue' and src(c.func.value) == 'super()']
    ctx.check(len(sup) == 1, f'{uv.qualname}:legacy callbacks through super()', uv.node, 'super().updateValue(...) once',
              'the legacy updateEvent callbacks are not invoked exactly once', uv)
    cbs = [i for c in calls_in(uv.node) if call_attr(c) in ('callback', 'updateValue') for i in cfg.node_of(c)]
    ok = all(cfg.dominates(store, i) for i in cbs) and not (cfg.reach(cbs) & set(store))
    ctx.check(ok, f'{uv.qualname}:callbacks after the cache store', uv.node, 'the store dominates every callback',
              'a callback runs before the cache holds the new entry: a callback reading the cache sees the previous message', uv)


def _rx(m):
    ci = m.cls(C)
    for name, fi in ci.methods.items():
        if 'rxthread' in name:
            return fi
    raise AnchorMissing('receive thread of SecopClient not found')


@rule('C12.R3', min_instances=1)
def cache_before_wakeup(ctx):
    """rx loop: updateValue precedes entry[1].set() for the same message"""
    m = ctx.m
    rx = _rx(m)
    ctx.analysed(rx)
    cfg = CFG(rx.node, m, rx.module)
    upd = [i for c in calls_in(rx.node) if call_attr(c) == 'updateValue' for i in cfg.node_of(c)]
    sets = [c for c in calls_in(rx.node) if call_attr(c) == 'set' and isinstance(c.func, ast.Attribute) and
            ('entry' in src(c.func) or (isinstance(c.func.value, ast.Subscript) and src(c.func.value.slice) == '1'))]
    reads = [i for c in calls_in(rx.node) if call_attr(c) == 'readline' for i in cfg.node_of(c)]
    tests = [t.id for t in cfg.nodes if t.kind == 'test' and 'UPDATE_MESSAGES' in src(t.ast)]
    if not (upd and sets and reads and tests):
        raise AnchorMissing('updateValue / entry[1].set() / readline / UPDATE_MESSAGES test not found in the receive thread')
    for c in sets:
        ids = cfg.node_of(c)
        ok = all(cfg.all_paths_pass(reads, [i], tests) for i in ids) and not (cfg.reach(ids, avoid=set(reads)) & set(upd))
        ctx.check(ok, f'{rx.qualname}:cache updated before the caller is woken', c,
                  'the UPDATE_MESSAGES branch lies on every path from readline to the wake-up, and no cache update follows it',
                  'the waiting caller can be woken before the cache was updated from the same message: setParameter / readParameter '
                  'return the previous cache entry', rx)


@rule('C12.R4', min_instances=1)
def no_future_timestamps(ctx):
    """timestamp argument of updateValue in the rx loop is min(now, ...)"""
    m = ctx.m
    rx = _rx(m)
    cfg = CFG(rx.node, m, rx.module)
    rd = ReachingDefs(cfg, rx.node)
    for c in calls_in(rx.node):
        if call_attr(c) == 'updateValue' and len(c.args) >= 4:
            # updateValue(module, param, value, timestamp, readerror) - also as updateValue(*module_param, value, timestamp, readerror)
            ts = c.args[-2] if any(isinstance(a, ast.Starred) for a in c.args) else c.args[3]
            o = rd.origins_at(c, ts)
            ok = bool(o) and all(isinstance(x, ast.Call) and dotted(x.func) == 'min' and any('now' in src(a) or 'time.time()' in src(a) for a in x.args) for x in o)
            ctx.check(ok, f'{rx.qualname}:timestamp clipped to now', c, 'timestamp = min(now, timestamp)',
                      f'the timestamp handed to the cache is {[src(x) for x in o]}: a node clock ahead of the client yields timestamps in the future', rx)


@rule('C12.R5', min_instances=1)
def message_kind_table(ctx):
    """UPDATE_MESSAGES == actions the dispatcher can emit for a parameter"""
    m = ctx.m
    mod = m.modules.get('frappy.client')
    msgs = m.modules.get('frappy.protocol.messages')
    if mod is None or msgs is None:
        raise AnchorMissing('frappy.client / messages module not found')
    um = m.const_name(mod, 'UPDATE_MESSAGES')
    table = m.const_name(msgs, 'REQUEST2REPLY')
    ev = m.const_name(msgs, 'EVENTREPLY')
    pre = m.const_name(msgs, 'ERRORPREFIX')
    rr = m.const_name(msgs, 'READREQUEST')
    wr = m.const_name(msgs, 'WRITEREQUEST')
    if UNKNOWN in (um, table, ev, pre, rr, wr) or not isinstance(um, (set, frozenset)):
        ctx.undecided('frappy.client.UPDATE_MESSAGES', None, 'constants can not be folded')
        return
    expected = {ev, pre + ev, table[rr], table[wr], pre + rr}
    ctx.check(set(um) == expected, 'frappy.client.UPDATE_MESSAGES:equals the emitted parameter messages', mod.consts['UPDATE_MESSAGES'],
              f'{sorted(um)}', f'UPDATE_MESSAGES is {sorted(um)}, the node emits {sorted(expected)} for a parameter: '
              f'missing {sorted(expected - set(um))}, superfluous {sorted(set(um) - expected)} - such messages do not update the cache')


def rdo(f, cfg, at, name_expr):
    """flow-sensitive origins of a local at a use"""
    return ReachingDefs(cfg, f.node).origins_at(at, name_expr)


@rule('C12.R5b', min_instances=1)
def every_update_message_kind_finds_its_parameter(ctx):
    """a specifier that is a bare module name stands for `<module>:value` (`<module>:target` for `changed`) - for EVERY message
    kind that updates the cache (UPDATE_MESSAGES), the error forms included.  Where the accessible is taken from a table
    keyed by the message kind, the table covers all of UPDATE_MESSAGES: a kind that is missing is treated as an unknown
    parameter, the message is not cached and no callback sees it"""
    from sa.model import UNKNOWN
    m = ctx.m
    mod = m.modules.get('frappy.client')
    um = m.const_name(mod, 'UPDATE_MESSAGES') if mod else UNKNOWN
    if um is UNKNOWN or not isinstance(um, (set, frozenset)):
        ctx.undecided('frappy.client.UPDATE_MESSAGES', None, 'constant can not be folded')
        return
    tables = []
    for name, expr in sorted(mod.consts.items()):
        if isinstance(expr, ast.Dict) and expr.values and all(isinstance(v, ast.Constant) and v.value in ('value', 'target') for v in expr.values):
            t = m.const_name(mod, name)
            if t is not UNKNOWN and isinstance(t, dict):
                tables.append((name, expr, t))
    if not tables:
        ctx.ok('frappy.client:default accessible for a bare module specifier', None, 'chosen by an if / else over the message kind (total)')
        return
    for name, expr, t in tables:
        missing = set(um) - set(t)
        ctx.check(not missing, f'frappy.client.{name}:covers every kind of update message', expr, f'keys {sorted(t)}',
                  f'{name} has no entry for {sorted(missing)}: such a message with a bare module specifier (e.g. `error_update mod [...]`) finds no parameter - '
                  'the cache keeps the previous value, no updateItem / updateEvent callback is invoked and the message ends as unhandled')


@rule('C12.R6', min_instances=3)
def write_paths_export(ctx):
    """data of every change/do request is datatype.export_value(...); command results are imported"""
    m = ctx.m
    ci = m.cls(C)
    n = 0
    for fi in ci.methods.values():
        cfg = None
        for c in calls_in(fi.node):
            if call_attr(c) == 'request' and dotted(c.func.value) == 'self' and c.args and src(c.args[0]) in ('WRITEREQUEST', 'COMMANDREQUEST') and len(c.args) >= 3:
                n += 1
                ctx.analysed(fi)
                if cfg is None:
                    cfg = CFG(fi.node, m, fi.module)
                    rd = ReachingDefs(cfg, fi.node)
                o = rd.origins_at(c, c.args[2])
                bad = [x for x in o if not is_method_call(x, {'export_value'})]
                # argument None of a command without argument comes from the parameter default: guarded by `if datatype`
                # (the raw parameter reaches the request only where the test of the argument type came out false)
                def no_argtype(a, tv, fi=fi):
                    return not tv and isinstance(a, ast.Name) and any(src(o).endswith('.argument') for o in origins(a, fi.node))
                if isinstance(c.args[2], ast.Name) and src(c.args[0]) == 'COMMANDREQUEST' and any(isinstance(x, ast.Name) and x.id.startswith('<param') for x in bad):
                    nm = c.args[2].id
                    redefs = [i for st in body_walk(fi.node) if isinstance(st, ast.Assign) and nm in rd._target_names(st.targets[0]) for i in cfg.ids(st)]
                    if paths_need_fact(cfg, [cfg.entry], cfg.node_of(c), no_argtype, avoid=redefs):
                        bad = [x for x in bad if not (isinstance(x, ast.Name) and x.id.startswith('<param'))]
                ctx.check(not bad, f'{fi.qualname}:{src(c.args[0])} data is exported', c, 'data = datatype.export_value(...)',
                          f'the request data is {[src(x) for x in bad]}: the internal value is sent instead of the transport form - '
                          "a ScaledInteger '0.5' arrives as 0 / 0.0, a blob raises TypeError in json.dumps, an enum sends its name", fi)
    if n < 3:
        raise AnchorMissing('WRITEREQUEST / COMMANDREQUEST request calls not found in SecopClient')
    ec = m.method(C, 'execCommand', inherited=False)
    ok = any(call_attr(c) == 'import_value' for c in calls_in(ec.node))
    ctx.check(ok, f'{ec.qualname}:command result imported', ec.node, 'result = datatype.import_value(data)', 'the command result is not imported', ec)
    # ... with the RESULT type of the command, on the side where the command has one (and every return of reply data that is
    # not imported lies on the side where it has none)
    ecfg = CFG(ec.node, m, ec.module)

    def res_type(a, want):
        return isinstance(a, ast.Name) and any(src(o).endswith('.result') for o in origins(a, ec.node)) or (isinstance(a, ast.Attribute) and a.attr == 'result')
    has = sides_with_fact(ecfg, lambda a, tv: tv and res_type(a, True))
    has_not = sides_with_fact(ecfg, lambda a, tv: not tv and res_type(a, True))
    for c in [c for c in calls_in(ec.node) if call_attr(c) == 'import_value']:
        recv = c.func.value
        from_result = (isinstance(recv, ast.Name) and any(src(o).endswith('.result') for o in rdo(ec, ecfg, c, recv))) or src(recv).endswith('.result')
        ctx.check(from_result and not (set(ecfg.node_of(c)) & has_not), f'{ec.qualname}:command result imported with the result type', c,
                  'import_value of the result datatype, where the command has one',
                  f'`{src(c)}` does not import the reply with the result datatype of the command (or only when the command has NO result type): '
                  'the caller receives the transport form (a scaled integer as its grid index, a blob as base64 text, an enum as a bare int)', ec)


@rule('C12.R7', min_instances=2)
def proxy_forwards(ctx):
    """ProxyModule.updateEvent forwards value, error and timestamp unchanged into announceUpdate"""
    m = ctx.m
    f = m.method('frappy.proxy.ProxyModule', 'updateEvent', inherited=False)
    ctx.analysed(f)
    p = [a.arg for a in f.node.args.args]   # self, module, parameter, value, timestamp, readerror
    calls = func_calls(f.node, attr='announceUpdate')
    ok = False
    for c in calls:
        args = [src(a) for a in c.args] + [f'{k.arg}={src(k.value)}' for k in c.keywords]
        if args[:4] == [p[2], p[3], p[5], p[4]] or (args[:2] == [p[2], p[3]] and f'err={p[5]}' in args and f'timestamp={p[4]}' in args):
            ok = True
    ctx.check(ok, f'{f.qualname}:forwards (value, error, timestamp)', f.node, 'announceUpdate(parameter, value, readerror, timestamp)',
              'the proxy does not forward value, error and timestamp of the remote update unchanged (argument order of announceUpdate is value, err, timestamp)', f)
    im = m.method('frappy.proxy.ProxyModule', 'initModule', inherited=False)
    ok = any(call_attr(c) == 'register_callback' and any('updateEvent' in src(a) for a in c.args) for c in calls_in(im.node))
    ctx.check(ok, f'{im.qualname}:registers updateEvent', im.node, 'register_callback(module, self.updateEvent, ...)',
              'the proxy module does not register its updateEvent callback', im)


@rule('C12.R2b', min_instances=1)
def callback_dispatch_iterates_a_copy(ctx):
    """ProxyClient.callback: the list that callbacks may shrink during dispatch (UnregisterCallback) is iterated as a copy"""
    m = ctx.m
    f = m.method(PC, 'callback', inherited=False)
    ctx.analysed(f)
    n = 0
    for loop in [x for x in body_walk(f.node) if isinstance(x, ast.For)]:
        removed = {src(c.func.value) for c in calls_in(loop) if call_attr(c) in ('remove', 'pop', 'clear') and isinstance(c.func, ast.Attribute)}
        if not removed:
            continue
        n += 1
        it = loop.iter
        copied = (isinstance(it, ast.Call) and dotted(it.func) in ('list', 'tuple') and it.args and src(it.args[0]) in removed) or \
            (isinstance(it, ast.Call) and call_attr(it) == 'copy') or (isinstance(it, ast.Subscript) and isinstance(it.slice, ast.Slice))
        direct = src(it) in removed
        if copied:
            ctx.ok(f'{f.qualname}:dispatch iterates a copy', loop, f'for ... in {src(it)}', f)
        elif direct:
            ctx.bad(f'{f.qualname}:dispatch iterates a copy', loop, f'`for ... in {src(it)}` iterates the live list while the loop body removes from it: after a '
                    'one-shot callback (UnregisterCallback) the next callback under the same key silently misses this message', f)
        else:
            ctx.undecided(f'{f.qualname}:dispatch iterates a copy', loop, 'iteration form not recognised', f)
    if not n:
        ctx.undecided(f'{f.qualname}:dispatch iterates a copy', f.node, 'no loop removing callbacks found', f)


@rule('C12.R6b', min_instances=4)
def written_value_comes_back_as_the_driver_returned_it(ctx):
    """shared with C04.R5: the write wrapper validates, calls the driver once and caches exactly what the driver returned
    (a falsy return value is a value, only None means 'no return value')"""
    from sa.rules import c04
    c04.wrapper_order(ctx)


@rule('C12.R2c', min_instances=1)
def no_iteration_over_mutated_collections(ctx):
    """cross-cutting: no loop of the client / proxy iterates a live collection that its body mutates"""
    from sa.rules import common
    common.iterate_while_mutating(ctx, {'frappy.client', 'frappy.proxy'})



@rule('C12.R2d', min_instances=1)
def per_callback_flag(ctx):
    """register_callback: whether a callback is appended is decided per callback - the flag guarding the append (cleared
    when the immediate first call of THIS callback raises UnregisterCallback) is set again for every callback of the call"""
    m = ctx.m
    f = m.method('frappy.client.ProxyClient', 'register_callback', inherited=False)
    ctx.analysed(f)
    loops = [x for x in body_walk(f.node) if isinstance(x, ast.For) and 'kwds' in src(x.iter)]
    if not loops:
        raise AnchorMissing('loop over the callbacks (kwds) not found in register_callback')
    n = 0
    for loop in loops:
        inner = [x for st in loop.body for x in walk_local(st)]
        for c in [x for x in inner if isinstance(x, ast.Call) and call_attr(x) == 'append']:
            guards = [a for a in ancestors(c) if isinstance(a, ast.If) and any(a is y for y in inner) and isinstance(a.test, ast.Name)]
            for g in guards:
                n += 1
                name = g.test.id
                for _ in range(3):      # `flag = other_flag` inside the loop: the decision is the other flag's
                    via = [a.value.id for a in inner if isinstance(a, ast.Assign) and src(a.targets[0]) == name and isinstance(a.value, ast.Name)]
                    if len(via) != 1:
                        break
                    name = via[0]
                inside = any(isinstance(a, ast.Assign) and src(a.targets[0]) == name and isinstance(a.value, ast.Constant) and a.value.value is True
                             for a in inner)
                ctx.check(inside, f'{f.qualname}:{name} decided per callback', g, f'`{name} = True` inside the loop over the callbacks',
                          f'`{name}` guards the registration of each callback but is set to True only outside the loop over the callbacks: one callback '
                          'that unregisters itself during its immediate first call keeps all later callbacks of the same call from being '
                          'registered - they never see any later message', f)
    if not n:
        ctx.info(f'{f.qualname}:append decided per callback', f.node, 'the append is not guarded by a flag', f)


@rule('C12.R9', min_instances=1)
def error_reports_are_rebuilt_by_class_name_first(ctx):
    """SECoPError.format() puts `ClassName: ` in front of the text for EVERY error class without a SECoP name of its own - also
    for subclasses of named errors (SilentCommunicationFailedError, driver classes derived from HardwareError), which travel
    under the name of their base.  make_secop_error therefore has to try the class-name prefix for every report, whatever
    the SECoP name is: each way to a return passes the prefix match"""
    m = ctx.m
    f = m.func('frappy.errors.make_secop_error')
    ctx.analysed(f)
    cfg = CFG(f.node, m, f.module)
    match = [i for c in calls_in(f.node) if call_attr(c) in ('match', 'fullmatch', 'search') or (call_attr(c) in ('partition', 'split') and "': '" in src(c))
             for i in cfg.node_of(c)]
    look = [c for c in calls_in(f.node) if 'clsname2class' in src(c)]
    if not match or not look:
        ctx.bad(f'{f.qualname}:class name prefix is tried for every report', f.node, 'make_secop_error no longer looks the class up by the name in front of the text '
                '(clsname2class): every frappy specific error class arrives as its SECoP base class', f)
        return
    rets = [i for n in body_walk(f.node) if isinstance(n, ast.Return) for i in cfg.ids(n)]
    ok = all(cfg.dominates(match, r) for r in rets)
    ctx.check(ok, f'{f.qualname}:class name prefix is tried for every report', f.node, 'the prefix match lies on every path to a return',
              'a return of make_secop_error is reachable without trying the `ClassName: ` prefix (the lookup by SECoP name decides first): an error of a subclass '
              'without own SECoP name - SilentCommunicationFailedError from every communicator - is rebuilt as its base class with the class name left in the text; '
              'cache entry and callbacks carry another error than the node raised', f)


@rule('C12.R2e', min_instances=1)
def callback_lists_have_one_update_discipline(ctx):
    """ProxyClient.callback() fetches the list registered for (cbname, key) ONCE per dispatch and removes a callback that raised
    UnregisterCallback from THAT list object: this only unregisters it if every other writer changes the registered list in
    place too.  A writer that stores a new list under the key (copy-on-write in unregister_callback) orphans the list the
    dispatch is working on - the one-shot callback stays registered and is called again for the next message"""
    m = ctx.m
    pc = m.cls('frappy.client.ProxyClient')
    in_place = []
    replacing = []
    for q in [pc.qualname] + m.subclasses(pc.qualname):
        for f in m.classes[q].methods.values():
            for c in calls_in(f.node):
                if call_attr(c) in ('remove', 'append') and isinstance(c.func.value, ast.Name) and \
                        any('self.callbacks' in src(o) for o in origins(c.func.value, f.node)):
                    in_place.append((f, c))
            for n in body_walk(f.node):
                if isinstance(n, ast.Assign):
                    for t in n.targets:
                        if isinstance(t, ast.Subscript) and isinstance(t.value, ast.Subscript) and src(t.value.value) == 'self.callbacks':
                            replacing.append((f, n))
    if not in_place:
        raise AnchorMissing('in-place update of a fetched callback list (cblist.remove / append) not found in ProxyClient')
    ctx.analysed(in_place[0][0])
    for f, n in replacing:
        ctx.analysed(f)
        ctx.bad(f'{f.qualname}:registered callback lists are changed in place', n, f'`{src(n)}` stores a NEW list under the key while '
                f'{in_place[0][0].qualname} removes from the list object it fetched (`{src(in_place[0][1])}`): after an unregistration during a dispatch the '
                'removal of a one-shot callback (UnregisterCallback) hits the orphaned list - the callback stays registered and is invoked again', f)
    if not replacing:
        ctx.ok(f'{pc.qualname}:registered callback lists are changed in place', None, f'{len(in_place)} in-place updates, no list is replaced')


@rule('C12.R2f', min_instances=1)
def dispatch_walks_a_snapshot_of_the_callbacks(ctx):
    """ProxyClient.callback() calls user code inside its loop; a callback may call register_callback / unregister_callback for
    the very key that is being dispatched (both change the registered list in place, C12.R2e).  The loop therefore runs over
    a SNAPSHOT of the list (list(...), tuple(...), a slice copy): over the live list an unregistration shifts the elements and
    the next callback is skipped for this message, a registration is called twice"""
    m = ctx.m
    f = m.method('frappy.client.ProxyClient', 'callback', inherited=False)
    ctx.analysed(f)
    n = 0
    for loop in [x for x in body_walk(f.node) if isinstance(x, ast.For) and isinstance(x.target, ast.Name)]:
        calls = [c for c in calls_in(loop) if isinstance(c.func, ast.Name) and c.func.id == loop.target.id]
        if not calls:
            continue
        n += 1
        it = resolved(loop.iter, f.node)
        snap = (isinstance(it, ast.Call) and dotted(it.func) in ('list', 'tuple', 'sorted')) or (isinstance(it, ast.Call) and call_attr(it) == 'copy') or \
            (isinstance(it, ast.Subscript) and isinstance(it.slice, ast.Slice))
        live = any('self.callbacks' in src(o) for o in (origins(loop.iter, f.node) if isinstance(loop.iter, ast.Name) else [loop.iter]))
        ctx.check(snap or not live, f'{f.qualname}:callbacks are dispatched from a snapshot', loop, f'iterates `{src(loop.iter)}`',
                  f'the dispatch loop runs over `{src(loop.iter)}`, the registered list itself, while `{src(calls[0])}` runs user code that may register or '
                  'unregister callbacks for this key: after an unregistration the next callback is skipped for this message (not "exactly once per message")', f)
    if not n:
        raise AnchorMissing('loop calling the callbacks not found in ProxyClient.callback')


@rule('C12.R6c', min_instances=1)
def integers_keep_their_precision_end_to_end(ctx):
    """shared with C01.R3b: node and client both import an integer through IntRange.__call__, which converts the offered
    value itself and not its float probe - a value above 2**53 written through the client reaches the driver unchanged"""
    from sa.rules import c01
    c01.int_of_the_value_itself(ctx)


@rule('C12.R6d', min_instances=3)
def scaled_values_reach_the_driver_on_the_grid(ctx):
    """shared with C03.R5: client and node convert a scaled value to its transported integer by int(round(x / scale)); a
    truncating form sends a neighbouring grid point for negative values, the driver receives another value than the
    caller passed"""
    from sa.rules import c03
    c03.grid_quotient_is_rounded(ctx)


def _tp12(test):
    neg = False
    t = test
    while isinstance(t, ast.UnaryOp) and isinstance(t.op, ast.Not):
        neg = not neg
        t = t.operand
    s = src(t)
    if isinstance(t, ast.Compare) and len(t.ops) == 1 and isinstance(t.ops[0], ast.IsNot) and src(t.comparators[0]) == 'None':
        s, neg = f'{src(t.left)} is None', not neg
    if isinstance(t, ast.Compare) and len(t.ops) == 1 and isinstance(t.ops[0], ast.NotIn):
        s, neg = f'{src(t.left)} in {src(t.comparators[0])}', not neg
    return s, neg


def _on(cfg, t, truth):
    core, neg = _tp12(t.ast)
    return cfg.reach([t.id], labels={'T' if truth != neg else 'F'}, avoid=[t.id])


@rule('C12.R8', min_instances=5)
def update_messages_are_decoded_by_kind(ctx):
    """receive loop: an update / reply of UPDATE_MESSAGES reaches updateValue (on the side where the parameter is known); for an
    error message the error is rebuilt from data[0:2], the value is None and the time stamp comes from data[2]; for a value
    message the value is data[0], the time stamp comes from data[1] and the error is None - decided on the two sides of the
    `startswith(ERRORPREFIX)` test; updateValue imports the value exactly when there is no error; ProxyClient.callback really
    calls every registered function"""
    m = ctx.m
    rx = next((f for n_, f in __import__('sa.rules.c11', fromlist=['x'])._thread_entries(m).items() if 'rx' in n_), None)
    if rx is None:
        raise AnchorMissing('receive thread not found')
    ctx.analysed(rx)
    cfg = CFG(rx.node, m, rx.module)
    upd = {i for c in calls_in(rx.node) if call_attr(c) == 'updateValue' for i in cfg.node_of(c)}
    if not upd:
        raise AnchorMissing('updateValue call not found in the receive thread', violation=f'{rx.qualname}:updates reach updateValue')
    n = 0
    for t in cfg.nodes:
        if t.kind != 'test':
            continue
        core, neg = _tp12(t.ast)
        if core == 'action in UPDATE_MESSAGES':
            n += 1
            ctx.check(upd <= _on(cfg, t, True) and not (upd & _on(cfg, t, False) - _on(cfg, t, True)), f'{rx.qualname}:update messages reach updateValue', t.ast,
                      'updateValue on the side where the action is an update message',
                      f'`{src(t.ast)}`: updates are skipped (the cache never changes) and other messages are fed to updateValue', rx)
        if core == 'module_param is None' and not isinstance(t.ast, ast.BoolOp) and upd & (_on(cfg, t, True) | _on(cfg, t, False)):
            n += 1
            ctx.check(upd <= _on(cfg, t, False) and not (upd & _on(cfg, t, True) - _on(cfg, t, False)), f'{rx.qualname}:updateValue for known parameters', t.ast,
                      'updateValue on the side where the parameter was found', f'`{src(t.ast)}`: updateValue runs for unknown parameters only', rx)
        if core.endswith('.startswith(ERRORPREFIX)') and (upd & cfg.reach([t.id])):
            owner = getattr(t.ast, 'cfg_owner', None)
            if not isinstance(owner, ast.If):
                continue
            errb, valb = (owner.orelse, owner.body) if neg else (owner.body, owner.orelse)
            assigns = {}
            for side, block in (('err', errb), ('val', valb)):
                for a in [x for st in block for x in walk_local(st) if isinstance(x, ast.Assign) and isinstance(x.targets[0], ast.Name)]:
                    if a.targets[0].id in ('timestamp', 'readerror', 'value'):
                        assigns[(side, a.targets[0].id)] = src(a.value)
            if not assigns:
                continue
            n += 1
            want = {('err', 'value'): lambda s_: s_ == 'None', ('err', 'readerror'): lambda s_: 'make_secop_error' in s_ and 'data[0:2]' in s_,
                    ('err', 'timestamp'): lambda s_: s_.startswith('data[2]'), ('val', 'value'): lambda s_: s_ == 'data[0]',
                    ('val', 'readerror'): lambda s_: s_ == 'None', ('val', 'timestamp'): lambda s_: s_.startswith('data[1]')}
            bad = [f'{k[0]}:{k[1]}={assigns.get(k)}' for k, ok_ in want.items() if k not in assigns or not ok_(assigns[k])]
            ctx.check(not bad, f'{rx.qualname}:error and value messages are decoded from the right fields', t.ast,
                      'error: (None, make_secop_error(*data[0:2]), data[2].t)   value: (data[0], None, data[1].t)',
                      f'`{src(t.ast)}`: fields decoded on the wrong side or from the wrong index: {bad} - the cache entry is not the import of the message', rx)
    if n < 3:
        raise AnchorMissing('update decoding tests not found in the receive thread')
    uv = m.method(roles.CLIENT, 'updateValue', inherited=False)
    ctx.analysed(uv)
    cfgu = CFG(uv.node, m, uv.module)
    imp = {i for c in calls_in(uv.node) if call_attr(c) == 'import_value' for i in cfgu.node_of(c)}
    for t in cfgu.nodes:
        if t.kind == 'test' and _tp12(t.ast)[0] == 'readerror':
            ctx.check(bool(imp) and imp <= _on(cfgu, t, False) and not (imp & _on(cfgu, t, True) - _on(cfgu, t, False)), f'{uv.qualname}:value imported iff there is no error', t.ast,
                      'import_value on the no-error side', f'`{src(t.ast)}`: the value is imported only for error messages (None) and stored raw for value messages', uv)
    cb = m.method('frappy.client.ProxyClient', 'callback', inherited=False)
    ctx.analysed(cb)
    loops = [x for x in body_walk(cb.node) if isinstance(x, ast.For)]
    called = any(isinstance(c.func, ast.Name) and c.func.id == src(l.target) and any(isinstance(a, ast.Starred) for a in c.args) for l in loops for c in calls_in(l))
    ctx.check(called, f'{cb.qualname}:every registered function is called', cb.node, 'for cbfunc in list(cblist): cbfunc(*args)',
              'callback() never calls the registered functions: no callback sees any message', cb)


@rule('C12.R8b', min_instances=1)
def identifier_table_holds_full_identifiers_only(ctx):
    """self.internal maps the wire identifier '<module>:<accessible>' to (module, parameter): every key stored has that form.  A
    bare module name as key would be found by the first lookup of the receive loop and shadow the fallback that maps the
    shorthand `changed <module>` to <module>:target and `update <module>` to <module>:value"""
    m = ctx.m
    ci = m.cls(roles.CLIENT)
    n = 0
    for name, f in sorted(ci.methods.items()):
        for st in [x for x in body_walk(f.node) if isinstance(x, ast.Assign)]:
            for t in st.targets:
                if isinstance(t, ast.Subscript) and src(t.value) == 'self.internal':
                    n += 1
                    ctx.analysed(f)
                    k = t.slice
                    exprs = origins(k, f.node) if isinstance(k, ast.Name) else [k]
                    ok = all(isinstance(e, ast.JoinedStr) and any(isinstance(v, ast.Constant) and ':' in str(v.value) for v in e.values) or
                             (isinstance(e, ast.BinOp) and "':'" in src(e)) for e in exprs)
                    ctx.check(ok, f'{f.qualname}:key of self.internal is module:accessible', st, f'`{src(k)}`',
                              f'`{src(st)}` stores a key that is not of the form <module>:<accessible>: a shorthand reply `changed <module>` is then resolved by the '
                              'first lookup (as <module>:value) and never reaches the <module>:target fallback - the wrong cache entry is overwritten', f)
    if not n:
        raise AnchorMissing('no store into self.internal found in SecopClient')


@rule('C12.R6e', min_instances=6)
def containers_import_their_members(ctx):
    """shared with C02.R2: import_value / export_value of arrays, tuples and structs delegate to the same method of their
    members (an array that imports its elements with the members' __call__ takes the transported integer of a scaled member for
    its value and refuses the base64 text of a blob member): what the client caches is then not the import of the message"""
    from sa.rules import c02
    c02.container_delegation(ctx)


@rule('C12.R10', min_instances=1)
def forced_read_looks_at_the_cache_after_the_reply(ctx):
    """SecopClient.readParameter: the receive thread writes the cache entry WHILE the request is waiting for its reply; what
    readParameter compares the error with (did the receive thread already do the error update?) and what it returns is the
    entry as it is AFTER the request - every read of self.cache in it is dominated by the request call.  An entry read before
    the request is the stale one: the error update is done a second time (every callback fires twice for one message, the
    entry carries the local time instead of the message's)"""
    m = ctx.m
    f = m.method(C, 'readParameter', inherited=False)
    ctx.analysed(f)
    cfg = CFG(f.node, m, f.module)
    req = [i for c in calls_in(f.node) if call_attr(c) == 'request' and dotted(c.func.value) == 'self' for i in cfg.node_of(c)]
    if not req:
        raise AnchorMissing('self.request(...) not found in readParameter')
    reads = [n for n in body_walk(f.node) if (isinstance(n, ast.Subscript) and isinstance(n.ctx, ast.Load) and src(n.value) == 'self.cache') or
             (isinstance(n, ast.Call) and call_attr(n) == 'get' and src(n.func.value) == 'self.cache')]
    if not reads:
        raise AnchorMissing('no read of self.cache in readParameter')
    for r in reads:
        ok = all(cfg.dominates(req, i) for i in cfg.node_of(r))
        ctx.check(ok, f'{f.qualname}:the cache is read after the request', r, 'dominated by self.request(...)',
                  f'`{src(r)}` can be evaluated before the request was made: the entry is the one from BEFORE the reply - an error reply is compared with the stale '
                  'entry, taken for "not yet announced" and announced a second time (callbacks twice per message, local time stamp in the cache)', f)


@rule('C12.R11', min_instances=1)
def unregistering_cancels_one_registration(ctx):
    """ProxyClient.unregister_callback: a function that was registered twice (two widgets sharing one bound method that
    compares equal, a double registration) has to be unregistered twice - one call takes ONE element out of the list
    (`list.remove`, or a deletion by position that stops after the first).  A loop that deletes every position found, or a
    rebuilt list without all equal elements, cancels the other registrations too: their owner silently gets no more updates"""
    m = ctx.m
    f = m.method('frappy.client.ProxyClient', 'unregister_callback', inherited=False)
    ctx.analysed(f)
    n = 0
    for d in [x for x in body_walk(f.node) if isinstance(x, ast.Delete) and any(isinstance(t, ast.Subscript) for t in x.targets)]:
        loop = next((a for a in ancestors(d) if isinstance(a, (ast.For, ast.While))), None)
        if loop is None or not isinstance(loop, ast.For):
            continue
        # only loops over positions / elements of one callback list (not the outer loop over the callback names)
        if not any(isinstance(t, ast.Subscript) and isinstance(t.slice, ast.Name) and isinstance(loop.target, ast.Name) and t.slice.id == loop.target.id for t in d.targets):
            continue
        n += 1
        it = loop.iter
        one = isinstance(it, ast.Subscript) and isinstance(it.slice, ast.Slice) and it.slice.lower is None and isinstance(it.slice.upper, ast.Constant) \
            and it.slice.upper.value == 1
        idx = loop.body.index(next(b for b in loop.body if any(x is d for x in ast.walk(b))))
        stops = any(isinstance(b, (ast.Break, ast.Return)) for b in loop.body[idx + 1:])
        ctx.check(one or stops, f'{f.qualname}:one call removes one registration', d, 'the deletion by position happens once per call',
                  f'`for {src(loop.target)} in {src(it)}: {src(d)}` deletes EVERY position at which an equal function is registered: a function registered '
                  'twice (or two equal bound methods) is cancelled completely by one unregister call', f)
    for c in calls_in(f.node):
        if call_attr(c) == 'remove':
            n += 1
            loop = next((a for a in ancestors(c) if isinstance(a, ast.While)), None)
            ctx.check(loop is None or 'in ' not in src(loop.test), f'{f.qualname}:one call removes one registration', c, f'`{src(c)}` takes out the first equal element only',
                      f'`while {src(loop.test) if loop else ""}: {src(c)}` removes every equal element', f)
    if not n:
        ctx.undecided(f'{f.qualname}:one call removes one registration', f.node, 'no list.remove / deletion by position found', f)


@rule('C12.R8c', min_instances=1)
def identifier_table_names_the_cache_keys(ctx):
    """SecopClient._init_descriptive_data fills two tables in one loop: the accessible tables of the module
    (`parameters[<iname>] = entry`, what updateValue looks the datatype up in) and self.internal, which maps the wire identifier
    to (module, <name>) for every incoming message.  The name stored in self.internal is the SAME local that keys the accessible
    tables - with the external name there (`_xyz` instead of `xyz`) every update, reply and error for that accessible is
    resolved to a parameter the client does not know: no cache entry, no callback, the waiting request times out"""
    m = ctx.m
    ci = m.cls(roles.CLIENT)
    n = 0
    for name, f in sorted(ci.methods.items()):
        stores = [(st, t) for st in body_walk(f.node) if isinstance(st, ast.Assign) for t in st.targets
                  if isinstance(t, ast.Subscript) and src(t.value) == 'self.internal']
        if not stores:
            continue
        keys = {t.slice.id for st in body_walk(f.node) if isinstance(st, ast.Assign) for t in st.targets
                if isinstance(t, ast.Subscript) and src(t.value) != 'self.internal' and isinstance(t.slice, ast.Name)
                and isinstance(t.value, ast.Name) and isinstance(st.value, (ast.Name, ast.Call, ast.Dict))}
        for st, t in stores:
            v = st.value
            n += 1
            ctx.analysed(f)
            if not (isinstance(v, ast.Tuple) and len(v.elts) == 2 and isinstance(v.elts[1], ast.Name)) or not keys:
                ctx.undecided(f'{f.qualname}:self.internal names the key of the accessible tables', st, f'`{src(st)}`: value / table keys not recognised', f)
                continue
            ctx.check(v.elts[1].id in keys, f'{f.qualname}:self.internal names the key of the accessible tables', st, f'`{v.elts[1].id}` also keys the accessible tables',
                      f'`{src(st)}` records `{v.elts[1].id}`, but the accessible tables of the module are keyed by {sorted(keys)}: messages for an accessible whose '
                      'external and internal names differ (custom accessibles, `_name`) are resolved to a name the tables do not hold', f)
    if not n:
        raise AnchorMissing('no store into self.internal found in SecopClient')
