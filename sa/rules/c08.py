"""C08 - activation and deactivation boundaries are exact under any interleaving"""
from sa.core import rule, prop_info
from sa.lib import *  # noqa: F401,F403
from sa.lib import func_calls, lock_regions, origins, compare_ops
from sa.model import AnchorMissing
from sa import roles

D = roles.DISPATCHER

prop_info(
    'C08',
    'Decided: R1 in handle_activate the registration (subscribe / active set) dominates every snapshot message and '
    'the reply is the return value (sent after the snapshot); R2 every snapshot message is built and sent while '
    'holding the update lock of the module it belongs to - the lock the funnel holds around store+notify - so a '
    'stale snapshot can not overtake a newer update; R3 the containers a connection is added to on activate are '
    'the ones it is discarded from in reset_connection, which *IDN? and disconnect reach; R4 broadcast listeners '
    'are the union of parameter subscribers, module subscribers and active connections, built on a fresh copy; '
    'module-unsubscribe also drops module:param entries; R5 the scope check precedes registration and tests the '
    'container the snapshot indexes; R6 snapshot and broadcast select by the same export predicate.',
    not_decided='the interleavings themselves; quiescent-state equality of last message and cache.')


def _act(m):
    return m.method(D, 'handle_activate', inherited=False)


def _act_unit(m):
    """handle_activate and the private helper methods it calls: [(function, call site in handle_activate | None)]"""
    f = _act(m)
    out = [(f, None)]
    for site, h in helper_methods_called(m, f):
        if h.name.startswith('_') and not h.name.endswith('__') and all(h is not g for g, _ in out):
            out.append((h, site))
    return out


def _is_snapshot_send(c):
    return call_attr(c) == 'send_reply' and bool(c.args) and isinstance(c.args[0], ast.Call) and call_attr(c.args[0]) == 'make_update'


def _snapshot_sends_deep(m, f):
    """snapshot sends in handle_activate or in a private helper it calls: [(call, owner FuncInfo, site in f)]"""
    from sa.lib import deep_calls
    return deep_calls(m, f, _is_snapshot_send)


def _snapshot_sends(f, m=None):
    if m is not None:
        return [c for c, owner, site in _snapshot_sends_deep(m, f)]
    return [c for c in calls_in(f.node) if _is_snapshot_send(c)]


def _registrations(f, own_only=False):
    res = []
    for c in calls_in(f.node):
        if call_attr(c) == 'subscribe' and c.args and src(c.args[0]) == 'conn':
            res.append(c)
        if call_attr(c) == 'add' and isinstance(c.func, ast.Attribute) and '_active_connections' in src(c.func.value) \
                and c.args and src(c.args[0]) == 'conn':
            res.append(c)
    if not res and not own_only and f.cls is not None:
        # the registration may have been extracted: the call of a private helper of the same class that registers stands for it
        for c in calls_in(f.node):
            if isinstance(c.func, ast.Attribute) and dotted(c.func.value) == 'self' and c.func.attr.startswith('_') and c.func.attr in f.cls.methods \
                    and _registrations(f.cls.methods[c.func.attr], own_only=True):
                res.append(c)
    return res


@rule('C08.R1', min_instances=2)
def register_then_snapshot(ctx):
    """registration dominates every snapshot send_reply; the 'active' reply is returned (hence sent last)"""
    m = ctx.m
    f = _act(m)
    ctx.analysed(f)
    cfg = CFG(f.node, m, f.module)
    regs = _registrations(f)
    deep = _snapshot_sends_deep(m, f)
    snaps = [site for c, owner, site in deep]
    if not regs or not snaps:
        raise AnchorMissing('registration or snapshot send_reply not found in handle_activate', violation='frappy.protocol.dispatcher.Dispatcher.handle_activate:registration and snapshot present')
    reg_ids = [i for c in regs for i in cfg.node_of(c)]
    for c in snaps:
        ok = all(cfg.dominates(reg_ids, i) for i in cfg.node_of(c))
        ctx.check(ok, f'{f.qualname}:registration before snapshot', c,
                  'every path to the snapshot message passes the registration',
                  'a snapshot message can be sent before the connection is registered: an update falling between '
                  'snapshot and registration is lost', f)
    rets = [n for n in body_walk(f.node) if isinstance(n, ast.Return) and n.value is not None]
    snap_ids = {i for c in snaps for i in cfg.node_of(c)}
    for r in rets:
        after = cfg.reach(cfg.node_of(r)) & snap_ids
        ctx.check(not after and 'ENABLEEVENTSREPLY' in src(r.value), f'{f.qualname}:active reply returned after snapshot', r,
                  'the reply is the return value', 'the active reply is not the final action of handle_activate', f)


@rule('C08.R2', min_instances=2)
def snapshot_under_update_lock(ctx):
    """every snapshot `conn.send_reply(make_update(...))` is inside a `<module>.updateLock` region"""
    m = ctx.m
    f = _act(m)
    ctx.analysed(f)
    for c, owner, site in _snapshot_sends_deep(m, f):
        locks = lock_regions(c) + (lock_regions(site) if site is not c else [])
        ok = any(l.endswith('.updateLock') and not l.startswith('self.') for l in locks)
        ctx.check(ok, f'{f.qualname}:snapshot inside updateLock', c,
                  f'inside lock region(s) {locks}',
                  'the snapshot message is built from the cache and sent without holding the module update lock: '
                  'schedule - activate thread builds the message from the old value, is preempted, a poller stores and '
                  'broadcasts the new value, then the stale snapshot is sent last; the connection ends up with a last '
                  'message that differs from the cache', f)


def _containers_with(funcnode, methods):
    """attribute names of self.<attr> whose elements get <method>(conn): direct, via setdefault(...), via loop over items/values"""
    res = set()
    for c in calls_in(funcnode):
        if call_attr(c) in methods and c.args and src(c.args[0]) == 'conn' and isinstance(c.func, ast.Attribute):
            recv = c.func.value
            for o in [recv] + origins(recv, funcnode):
                for n in ast.walk(o):
                    if isinstance(n, ast.Attribute) and dotted(n.value) == 'self' and n.attr.startswith('_'):
                        res.add(n.attr)
            if isinstance(recv, ast.Name):
                # loop variable of `for k, v in self.X.items()` / `for v in self.X.values()`
                for a in ancestors(c):
                    if isinstance(a, ast.For) and recv.id in {x.id for x in ast.walk(a.target) if isinstance(x, ast.Name)}:
                        for n in ast.walk(a.iter):
                            if isinstance(n, ast.Attribute) and dotted(n.value) == 'self' and n.attr.startswith('_'):
                                res.add(n.attr)
    return res


def _removal_delegated(m, f):
    """the function hands the connection to a private helper of the dispatcher that discards it from the sets it is given (or
    collects the sets through such a helper): which containers are emptied is then a data flow these rules do not follow"""
    ci = m.cls(D)
    for c in calls_in(f.node):
        if isinstance(c.func, ast.Attribute) and dotted(c.func.value) == 'self' and c.func.attr.startswith('_') and c.func.attr in ci.methods:
            h = ci.methods[c.func.attr]
            params = {a.arg for a in h.node.args.args}
            for loop in [x for x in body_walk(h.node) if isinstance(x, ast.For) and isinstance(x.iter, ast.Name) and x.iter.id in params]:
                if any(call_attr(k) in ('discard', 'remove') for k in calls_in(loop)):
                    return c
    return None


@rule('C08.R3', min_instances=3)
def add_remove_agreement(ctx):
    """containers filled by activate == containers emptied by reset_connection; deactivate mirrors activate"""
    m = ctx.m
    act = _act(m)
    sub = m.method(D, 'subscribe', inherited=False)
    rst = m.method(D, 'reset_connection', inherited=False)
    deact = m.method(D, 'handle_deactivate', inherited=False)
    unsub = m.method(D, 'unsubscribe', inherited=False)
    for f in (act, sub, rst, deact, unsub):
        ctx.analysed(f)
    added = _containers_with(act.node, {'add', 'append'}) | _containers_with(sub.node, {'add', 'append'})
    removed = _containers_with(rst.node, {'discard', 'remove'})
    if not (added and added <= removed) and _removal_delegated(m, rst):
        ctx.undecided(f'{rst.qualname}:discards from every container activate adds to', _removal_delegated(m, rst), 'the removal is delegated to a helper that is given the sets', rst)
    else:
      ctx.check(added and added <= removed, f'{rst.qualname}:discards from every container activate adds to', rst.node,
              f'added to {sorted(added)}, discarded from {sorted(removed)}',
              f'activate adds the connection to {sorted(added)} but reset_connection only discards it from {sorted(removed)}: '
              'after *IDN? or a disconnect the connection keeps receiving updates', rst)
    removed_d = _containers_with(deact.node, {'discard', 'remove'}) | _containers_with(unsub.node, {'discard', 'remove'})
    calls_unsub = any(call_attr(c) == 'unsubscribe' and c.args and src(c.args[0]) == 'conn' for c in calls_in(deact.node))
    if not (added <= removed_d and calls_unsub) and (_removal_delegated(m, deact) or _removal_delegated(m, unsub)):
        ctx.undecided(f'{deact.qualname}:mirrors activate', deact.node, 'the removal is delegated to a helper that is given the sets', deact)
    else:
      ctx.check(added <= removed_d and calls_unsub, f'{deact.qualname}:mirrors activate', deact.node,
              f'deactivate/unsubscribe discard from {sorted(removed_d)}',
              f'deactivate does not undo everything activate registers ({sorted(added)} vs {sorted(removed_d)})', deact)
    # remove_connection -> reset_connection runs on the closing connection's thread WITHOUT the dispatcher lock, concurrently with
    # subscribe() (setdefault(...).add(conn)): the table itself must not shrink there
    for f in (rst, unsub, m.method(D, 'remove_connection', inherited=False)):
        dels = [n for n in body_walk(f.node) if (isinstance(n, ast.Call) and call_attr(n) in ('pop', 'popitem', 'clear') and src(n.func.value) == 'self._subscriptions')
                or (isinstance(n, ast.Delete) and any('self._subscriptions[' in src(t) for t in n.targets))]
        ctx.check(not dels, f'{f.qualname}:subscription table keeps its keys', dels[0] if dels else f.node, 'only connections are discarded from the sets',
                  f'`{src(dels[0]) if dels else ""}` removes a key of _subscriptions on the disconnect path, which runs without the dispatcher lock: a concurrent '
                  'subscribe() between setdefault() and add() adds its connection to an orphaned set - it gets `active` but never an update', f)
    # module-level unsubscribe also removes module:param entries
    ok = False
    for n in body_walk(unsub.node):
        if isinstance(n, ast.For) and '_subscriptions' in src(n.iter):
            if any(call_attr(c) == 'startswith' for c in calls_in(n)) and any(call_attr(c) in ('discard', 'remove') for c in calls_in(n)):
                ok = True
    if not ok and _removal_delegated(m, unsub):
        # the sets may be collected by a helper: a prefix test over the keys of the table somewhere in the helpers unsubscribe uses
        ok = None
        for site, h in helper_methods_called(m, unsub):
            if '_subscriptions' in src(h.node, 9000) and any(call_attr(c) == 'startswith' for c in calls_in(h.node)):
                ok = True
    if ok is None:
        ctx.undecided(f'{unsub.qualname}:module scope covers its parameters', unsub.node, 'the removal is delegated to helpers', unsub)
    else:
      ctx.check(ok, f'{unsub.qualname}:module scope covers its parameters', unsub.node,
              'entries starting with "<module>:" are discarded too',
              'unsubscribing a module leaves its module:parameter subscriptions active', unsub)


def _listener_unit(m):
    """the function that collects the listeners of an event: broadcast_event itself or a helper method it calls"""
    f = m.method(D, 'broadcast_event', inherited=False)
    units = [f] + [h for site, h in helper_methods_called(m, f)]
    for u in units:
        t = src(u.node, 5000)
        if '_subscriptions' in t and '_active_connections' in t:
            return f, u
    raise AnchorMissing('collection of the listeners (_subscriptions / _active_connections) not found in broadcast_event')


def _expand_comprehensions(e):
    """generator variables that run over a literal tuple / list are replaced by each of its elements: the list of expressions
    `[self._subscriptions[key] for key in (a, b)]` stands for `self._subscriptions[a]`, `self._subscriptions[b]`"""
    from sa.model import _clone_ast
    out = [e]
    for comp in [x for x in ast.walk(e) if isinstance(x, (ast.ListComp, ast.SetComp, ast.GeneratorExp))]:
        for g in comp.generators:
            if isinstance(g.target, ast.Name) and isinstance(g.iter, (ast.Tuple, ast.List)):
                for el in g.iter.elts:
                    class _S(ast.NodeTransformer):
                        def visit_Name(self, node, el=el, name=g.target.id):
                            return _clone_ast(el) if node.id == name and isinstance(node.ctx, ast.Load) else node
                    out.append(_S().visit(_clone_ast(comp.elt)))
                    out += [_S().visit(_clone_ast(t)) for t in g.ifs]
    return out


def _subscription_keys(exprs):
    """key expressions with which `self._subscriptions` is consulted inside the given expressions"""
    keys = []
    for e in exprs:
        for x in ast.walk(e):
            if isinstance(x, ast.Call) and call_attr(x) in ('get', 'setdefault', 'pop') and src(x.func.value).endswith('_subscriptions') and x.args:
                keys.append(x.args[0])
            elif isinstance(x, ast.Subscript) and src(x.value).endswith('_subscriptions'):
                keys.append(x.slice)
    return keys


_FRESH_CALLS = {'copy', 'union', 'difference', 'intersection', 'symmetric_difference'}
_FRESH_FUNCS = {'set', 'list', 'frozenset', 'sorted', 'tuple'}


def _fresh(e, unode, depth=4):
    """the expression builds a new collection (a copy, a union, a literal, a comprehension)"""
    if isinstance(e, ast.Call):
        return call_attr(e) in _FRESH_CALLS or dotted(e.func) in _FRESH_FUNCS
    if isinstance(e, (ast.BinOp, ast.ListComp, ast.SetComp, ast.Set, ast.List, ast.Tuple, ast.GeneratorExp)):
        return True
    if isinstance(e, ast.IfExp):
        return _fresh(e.body, unode, depth) and _fresh(e.orelse, unode, depth)
    if isinstance(e, ast.Name) and depth:
        defs = [v for v, st, how in local_assigns(unode, e.id) if how == 'assign' and v is not None]
        return bool(defs) and all(_fresh(v, unode, depth - 1) for v in defs)
    return False


def _live_set(e):
    """the expression denotes one of the dispatcher's own sets (which request threads change at any time)"""
    t = src(e)
    return isinstance(e, (ast.Attribute, ast.Subscript, ast.Call)) and not _fresh(e, None, 0) and \
        (t.startswith('self._subscriptions') or t.startswith('self._active_connections'))


@rule('C08.R4', min_instances=3)
def listener_sources(ctx):
    """broadcast_event: the listeners of an event are the subscribers of module:param, the subscribers of the module and the
    globally activated connections - merged into a FRESH set (an in-place merge into the stored subscription set would make
    everybody a permanent subscriber of that parameter; iterating one of the stored sets itself breaks off with RuntimeError
    when a request thread changes it meanwhile, the remaining listeners never get the message)"""
    m = ctx.m
    f, u = _listener_unit(m)
    ctx.analysed(f)
    ctx.analysed(u)
    sends = [n for n in body_walk(f.node) if isinstance(n, ast.For) and any(call_attr(c) == 'send_reply' for c in calls_in(n))]
    if not sends:
        raise AnchorMissing('send loop in broadcast_event not found')
    # the expressions the listeners come from: what the helper returns / what the iterated local is bound to, with the locals
    # they mention read through, plus everything merged into such a local in place
    if u is f:
        roots = [sends[0].iter]
    else:
        roots = [r.value for r in body_walk(u.node) if isinstance(r, ast.Return) and r.value is not None]
    lnames = {x.id for r in roots for x in ast.walk(r) if isinstance(x, ast.Name) and any(how in ('assign', 'aug') for v, st, how in local_assigns(u.node, x.id))}
    sources = []        # (expression, statement) of every definition of the listeners
    for r in roots:
        if not isinstance(r, ast.Name):
            sources.append((r, enclosing_stmt(r)))
    parts, inplace = [r for r in roots], []
    for n in body_walk(u.node):
        if isinstance(n, ast.Assign) and isinstance(n.targets[0], ast.Name) and n.targets[0].id in lnames:
            parts.append(n.value)
            sources.append((n.value, n))
        if isinstance(n, ast.AugAssign) and isinstance(n.target, ast.Name) and n.target.id in lnames:
            parts.append(n.value)
            inplace.append(n)
        if isinstance(n, ast.Call) and call_attr(n) in ('update', 'add', 'union') and isinstance(n.func.value, ast.Name) and n.func.value.id in lnames:
            parts += list(n.args)
            if call_attr(n) != 'union':
                inplace.append(n)
    if not parts:
        ctx.undecided(f'{u.qualname}:listeners is a fresh copy', u.node, 'the expressions the listeners come from were not recognised', u)
        return
    full = [y for x in parts for y in _expand_comprehensions(resolved(x, u.node))]
    text = ' '.join(src(x, 600) for x in full)
    ev = 'msg[1]' if u is f else (u.node.args.args[1].arg if len(u.node.args.args) > 1 else 'eventname')
    keys = [resolved(k, u.node) for k in _subscription_keys(full)]
    has_param = any(src(k) == ev for k in keys)
    ctx.check(has_param, f'{f.qualname}:parameter subscribers', u.node, 'subscribers of module:param are listeners', 'subscribers of the event name are not selected', u)
    has_mod = any(("split(':'" in src(k) or "partition(':'" in src(k)) and ev in src(k) for k in keys)
    ctx.check(has_mod, f'{f.qualname}:module subscribers', u.node,
              'subscribers of the module are listeners', 'subscribers of the whole module are not selected', u)
    ctx.check('_active_connections' in text, f'{f.qualname}:active connections', u.node,
              'globally activated connections are listeners', 'globally activated connections are not selected', u)
    # freshness of every definition of the listeners
    for v, n in sources:
        for alt in ([v.body, v.orelse] if isinstance(v, ast.IfExp) else [v]):
            t = src(resolved(alt, u.node))
            if '_subscriptions' not in t and '_active_connections' not in t:
                continue
            fresh = _fresh(alt, u.node)
            if not fresh and _live_set(resolved(alt, u.node)) and not inplace:
                ctx.bad(f'{f.qualname}:listeners is a fresh copy', n,
                        f'`{src(alt)}` hands out the stored set itself and the send loop iterates it without the dispatcher lock: when a request thread '
                        'activates, deactivates or disconnects meanwhile the loop ends with "RuntimeError: Set changed size during iteration" - the '
                        'remaining activated connections never get this update although the cache has changed', u)
                continue
            ctx.check(fresh or not inplace, f'{f.qualname}:listeners is a fresh copy', n,
                      'the subscription set is copied before other listeners are merged in',
                      f'`{src(n)}` takes the stored subscription set itself and `{src(inplace[0]) if inplace else ""}` then extends it in place: after one broadcast the '
                      'parameter subscription permanently contains module subscribers and active connections, which keep '
                      'receiving updates after their deactivate', u)


@rule('C08.R5', min_instances=2)
def scope_check_before_registration(ctx):
    """unknown module / parameter is refused before subscribe; the membership test uses the container the snapshot indexes"""
    m = ctx.m
    f = _act(m)
    ctx.analysed(f)
    cfg = CFG(f.node, m, f.module)
    regs = [i for c in _registrations(f) if call_attr(c) == 'subscribe' for i in cfg.node_of(c)]
    raises = [n for n in body_walk(f.node) if isinstance(n, ast.Raise) and n.exc is not None and 'NoSuch' in src(n.exc)]
    # the scope check may live in a helper (`items = [self._single_item(specifier)]`): the helper call stands for its refusals
    helper_raises = [site for g, site in _act_unit(m) if site is not None and
                     any(isinstance(n, ast.Raise) and n.exc is not None and 'NoSuch' in src(n.exc) for n in body_walk(g.node))]
    if not raises and not helper_raises:
        raise AnchorMissing('no NoSuch... refusal in handle_activate', violation='frappy.protocol.dispatcher.Dispatcher.handle_activate:scope refusal present')
    for r in helper_raises:
        ok = not (cfg.reach(regs) & set(cfg.node_of(r)))
        ctx.check(ok, f'{f.qualname}:refusal before registration', r, 'the refusal can not happen after subscribe',
                  'the refusal is reachable after subscribe(): the request is refused but the subscription stays registered', f)
    for r in raises:
        ok = not (cfg.reach(regs) & set(cfg.ids(r)))
        ctx.check(ok, f'{f.qualname}:refusal before registration', r, 'the refusal can not happen after subscribe',
                  'the refusal is reachable after subscribe(): the request is refused but the subscription stays registered', f)
    # container tested vs. container indexed
    tested = set()
    for n in body_walk(f.node):
        if isinstance(n, ast.Compare):
            for l, op, r in compare_ops(n):
                if op in ('in', 'notin') and l == 'pname' and '.' in r:
                    tested.add(r.rpartition('.')[2])
    indexed = set()
    for c in _snapshot_sends(f, m):
        for n in ast.walk(c):
            if isinstance(n, ast.Subscript) and src(n.slice) == 'pname':
                indexed.add(src(n.value).rpartition('.')[2])
    if tested and indexed:
        ctx.check(indexed <= tested, f'{f.qualname}:scope check matches snapshot lookup', f.node,
                  f'tested {sorted(tested)}, indexed {sorted(indexed)}',
                  f'the scope check tests membership in {sorted(tested)} but the snapshot indexes {sorted(indexed)}: '
                  '`activate mod:<command name>` passes the check, is registered and then fails with KeyError '
                  '(InternalError reply, subscription left behind)', f)
    else:
        ctx.undecided(f'{f.qualname}:scope check matches snapshot lookup', f.node, f'tested={tested} indexed={indexed}', f)


@rule('C08.R6', min_instances=2)
def snapshot_covers_broadcast(ctx):
    """snapshot selects `isinstance(pobj, Parameter) and pobj.export`; the funnel notifies `if pobj.export`;
    a global activate iterates the exported module set"""
    m = ctx.m
    f = _act(m)
    funnel = roles.cache_funnel(m)
    ctx.analysed(f)
    ok = False
    for c in _snapshot_sends(f, m):
        for a in ancestors(c):
            if isinstance(a, ast.If) and '.export' in src(a.test) and 'Parameter' in src(a.test):
                ok = True
    if not ok:
        # the selection of the parameters may live in a helper that generates them: a condition (if statement or comprehension
        # filter) there that asks for an exported Parameter
        for g, site in _act_unit(m):
            for x in ast.walk(g.node):
                conds = [x.test] if isinstance(x, (ast.If, ast.IfExp)) else (list(x.ifs) if isinstance(x, ast.comprehension) else [])
                if any('.export' in src(t) and 'Parameter' in src(t) for t in conds):
                    ok = True
    if not ok:
        # ... or in a function of the dispatcher module that the activation hands around as a value (`scope = [(m, _exported_parameters) ...]`)
        unit = [g for g, site in _act_unit(m)]
        for _ in range(2):
            for g in list(unit):
                for x in ast.walk(g.node):
                    if isinstance(x, ast.Name) and isinstance(x.ctx, ast.Load):
                        h = m.functions.get(f'{g.module.name}.{x.id}')
                        if h is not None and h.cls is None and h not in unit:
                            unit.append(h)
        for g in unit:
            for x in ast.walk(g.node):
                conds = [x.test] if isinstance(x, (ast.If, ast.IfExp)) else (list(x.ifs) if isinstance(x, ast.comprehension) else [])
                if any('.export' in src(t) and 'Parameter' in src(t) for t in conds):
                    ok = True
    ctx.check(ok, f'{f.qualname}:snapshot predicate', f.node, 'exported parameters only',
              'the module snapshot is not restricted to exported parameters (or not to parameters)', f)
    from sa.rules.c05 import funnel_unit
    notif = [c for g, site in funnel_unit(m) for c in func_calls(g.node, attr='updateCallback')]
    ok = all(any(isinstance(a, ast.If) and src(a.test).endswith('.export') for a in ancestors(c)) for c in notif)
    ctx.check(ok and bool(notif), f'{funnel.qualname}:broadcast predicate', funnel.node, 'notification guarded by pobj.export',
              'updates of unexported parameters are broadcast (or the guard differs from the snapshot predicate)', funnel)
    glob = [n for g, site in _act_unit(m) for n in body_walk(g.node) if isinstance(n, (ast.Assign, ast.Return)) and n.value is not None and 'secnode' in src(n.value)
            and ('.modules' in src(n.value) or '.export' in src(n.value)) and 'get(' not in src(n.value)]
    ctx.check(any('secnode.export' in src(n.value) for n in glob), f'{f.qualname}:global scope is the exported set', f.node,
              'modules = exported modules', 'a global activate does not iterate secnode.export', f)


@rule('C08.T1', min_instances=3, tier='thorough')
def lock_order_acyclic(ctx):
    """thorough: the interprocedural lock-order graph (dispatcher lock, module access/update locks, connection send
    lock, communicator lock, client lock, state machine lock) is acyclic; the snapshot under the update lock (R2)
    adds Dispatcher._lock -> Module.updateLock -> RequestHandler.send_lock"""
    from sa.locks import LockGraph, name
    g = LockGraph(ctx.m)
    for (a, b), w in sorted(g.edges.items(), key=lambda x: (name(x[0][0]), name(x[0][1]))):
        ctx.ok(f'lock order {name(a)} -> {name(b)}', None, w)
    cyc = g.cycles()
    ctx.check(not cyc, 'lock-order graph is acyclic', None, f'{len(g.edges)} edges over {len(g.locks)} locks, no cycle '
              f'({g.imprecise} call sites inside lock regions resolved by name only)',
              'cycle(s) in the lock-order graph: ' + '; '.join(' -> '.join(name(x) for x in c + [c[0]]) for c in cyc) +
              ' - two threads taking the locks in opposite order dead-lock (e.g. activate vs. an update from a poll thread)')
    want = ('Dispatcher._lock', 'Module.updateLock')
    have = {(name(a), name(b)) for a, b in g.edges}
    ctx.check(want in have, 'activate holds the dispatcher lock around the update lock', None, 'edge Dispatcher._lock -> Module.updateLock present',
              'expected edge Dispatcher._lock -> Module.updateLock not found (call resolution of handle_request changed?)')


@rule('C08.R7', min_instances=1)
def no_iteration_over_mutated_collections(ctx):
    """cross-cutting: no loop of the dispatcher / module base iterates a live collection that its body mutates
    (subscription tables, callback lists)"""
    from sa.rules import common
    common.iterate_while_mutating(ctx, {'frappy.protocol.dispatcher', 'frappy.modulebase', 'frappy.logging', 'frappy.io'})


def _ends_with_separator(expr):
    """the prefix expression ends with the ':' that separates module and parameter: f'{x}:' or x + ':'"""
    if isinstance(expr, ast.JoinedStr) and expr.values:
        last = expr.values[-1]
        return isinstance(last, ast.Constant) and isinstance(last.value, str) and last.value.endswith(':')
    if isinstance(expr, ast.BinOp) and isinstance(expr.op, ast.Add):
        return isinstance(expr.right, ast.Constant) and isinstance(expr.right.value, str) and expr.right.value.endswith(':')
    if isinstance(expr, ast.Constant) and isinstance(expr.value, str):
        return expr.value.endswith(':')
    if isinstance(expr, ast.Constant) and expr.value is None:
        return True       # `prefix = None if ':' in name else f'{name}:'` - None is "no prefix" (tested before it is used)
    if isinstance(expr, ast.IfExp):
        return _ends_with_separator(expr.body) and _ends_with_separator(expr.orelse)
    return False


def check_scope_prefix(ctx):
    m = ctx.m
    ci = m.cls(D)
    n = 0
    for name, f in sorted(ci.methods.items()):
        for c in calls_in(f.node):
            if call_attr(c) != 'startswith' or not c.args:
                continue
            loop = next((a for a in ancestors(c) if isinstance(a, ast.For) and '_subscriptions' in src(a.iter)), None)
            if loop is None:
                # ... or the filter of a comprehension over the table
                loop = next((a for a in ancestors(c) if isinstance(a, (ast.ListComp, ast.SetComp, ast.GeneratorExp, ast.DictComp))
                             and any('_subscriptions' in src(g.iter) for g in a.generators)), None)
            if loop is None:
                continue
            n += 1
            ctx.analysed(f)
            arg = c.args[0]
            exprs = origins(arg, f.node) if isinstance(arg, ast.Name) else [arg]
            ok = all(_ends_with_separator(e) for e in exprs)
            ctx.check(ok, f'{f.qualname}:scope prefix ends with the separator', c, f'`{src(c)}`',
                      f'`{src(c)}` selects subscription keys by a bare name prefix: (de)activating `temp` also hits `temp_sample` and '
                      '`temp_sample:value` - another scope of the same connection silently loses (or gains) its updates', f)
    return n


@rule('C08.R8', min_instances=2)
def a_message_is_delivered_or_the_connection_dropped(ctx):
    """send_reply of every interface (tcp, websocket): the dispatcher's books (activation, subscriptions) say that the
    connection receives every update; a send that FAILS must therefore end the connection (running = False / re-raise) in
    EVERY handler of the try around the socket send - a handler that only logs loses the update while the connection stays
    activated (the client's last message is then no longer the node's cache)"""
    m = ctx.m
    n = 0
    for q, f in sorted(m.functions.items()):
        if f.name != 'send_reply' or not f.module.name.startswith('frappy.protocol.interface') or f.cls is None:
            continue
        sends = [c for c in calls_in(f.node) if call_attr(c) in ('sendall', 'send')]
        if not sends:
            continue
        ctx.analysed(f)
        for c in sends:
            tries = [t for t, part in enclosing_tries(c) if part == 'body']
            for t in tries:
                for h in t.handlers:
                    n += 1
                    drops = any(isinstance(x, ast.Assign) and isinstance(x.value, ast.Constant) and x.value.value is False and
                                any(isinstance(tt, ast.Attribute) and tt.attr == 'running' for tt in x.targets)
                                for st in h.body for x in walk_local(st)) or handler_reraises(h)
                    if not drops:
                        # the handler reports the failure through a flag (`ok = False`) and the connection is dropped where the flag is
                        # tested: every way from the handler to the end of send_reply stores running = False
                        fcfg = CFG(f.node, m, f.module)
                        stores = [i for x in body_walk(f.node) if isinstance(x, ast.Assign) and isinstance(x.value, ast.Constant) and x.value.value is False
                                  and any(isinstance(tt, ast.Attribute) and tt.attr == 'running' for tt in x.targets) for i in fcfg.node_of(x)]
                        drops = bool(stores) and fcfg.exit not in reach_with_flags(fcfg, fcfg.ids(h), avoid=stores)
                    ctx.check(drops, f'{f.qualname}:handler `{src(h.type) if h.type else "bare"}` ends the connection', h, 'sets running = False (or re-raises)',
                              f'the handler for `{src(h.type) if h.type else "everything"}` around `{src(c)}` leaves the connection running: the message is lost, '
                              'but the connection stays in the activation / subscription sets - its client misses this update and believes a stale value', f)
    if n < 2:
        raise AnchorMissing('handlers around the socket send in send_reply not found')


@rule('C08.R9', min_instances=4)
def store_and_notification_are_atomic(ctx):
    """shared with C05.R2: the cache store, the parameter callbacks and the dispatcher notification of one update happen
    inside the module's update lock - with two threads updating one parameter the message built last is otherwise not the
    one sent last, and the last message a connection holds differs from the cache once things are quiet"""
    from sa.rules import c05
    c05.lock_coverage(ctx)


@rule('C08.R3c', min_instances=1)
def scope_prefix_has_separator(ctx):
    """a prefix test over the subscription keys (module scope covers its module:parameter entries) uses `<module>:` with
    the separator, never the bare name (a module or parameter name may be a prefix of another one)"""
    if not check_scope_prefix(ctx):
        raise AnchorMissing('prefix test over _subscriptions not found', violation=f'{D}.unsubscribe:module scope covers its parameters')


@rule('C08.R3d', min_instances=2)
def registration_is_unconditional_and_the_table_is_never_replaced(ctx):
    """subscribe(): every normal path records the connection under the event name (a narrower activation of an already
    active connection is still a scope of its own: it must survive the general deactivate); the subscription table
    object is created once (__init__) and never re-assigned - reset_connection runs on the closing connection's thread
    without the dispatcher lock, a table rebuilt there loses a key that another connection's activate adds meanwhile"""
    m = ctx.m
    sub = m.method(D, 'subscribe', inherited=False)
    ctx.analysed(sub)
    cfg = CFG(sub.node, m, sub.module)
    adds = [i for c in calls_in(sub.node) if call_attr(c) in ('add', 'append') and '_subscriptions' in src(c.func) for i in cfg.node_of(c)]
    adds += [i for n in body_walk(sub.node) if isinstance(n, ast.Assign) and any('_subscriptions[' in src(t) for t in n.targets) for i in cfg.node_of(n)]
    # the two step form: `s = table.get(ev)`, a fresh set when there is none, `s.add(conn)`, the fresh set stored in the table
    for c in calls_in(sub.node):
        if not (call_attr(c) in ('add', 'append') and isinstance(c.func.value, ast.Name)):
            continue
        name = c.func.value.id
        defs = [(v, st) for v, st, how in local_assigns(sub.node, name) if how == 'assign' and v is not None]
        looked_up = [v for v, st in defs if '_subscriptions' in src(v)]
        if not looked_up:
            continue
        key = f'{sub.qualname}:a fresh set is used only when the event has no set yet'
        fresh_defs = [(v, st) for v, st in defs if '_subscriptions' not in src(v)]
        by_truth = [v for v in looked_up if isinstance(v, ast.BoolOp)] + \
            [t.ast for t in cfg.nodes if t.kind == 'test' and not isinstance(t.ast, ast.stmt) and
             any(isinstance(a, ast.Name) and a.id == name for a, tv in facts_on_side(t.ast, True) + facts_on_side(t.ast, False))]
        if by_truth:
            ctx.bad(key, by_truth[0], f'`{src(by_truth[0])}` decides by the truth value of the stored set: a set that exists but is EMPTY (every scope that was '
                    'activated before and lost its subscribers - sets are emptied by deactivate / *IDN? / disconnect, never removed) is replaced by a fresh set '
                    'that the table does not hold - the connection is told `active` and no later update of that scope is delivered', sub)
            continue
        stores = [i for n in calls_in(sub.node) if call_attr(n) == 'setdefault' and '_subscriptions' in src(n.func) and len(n.args) == 2
                  and src(n.args[1]) == name for i in cfg.node_of(n)]
        stores += [i for n in body_walk(sub.node) if isinstance(n, ast.Assign) and any('_subscriptions[' in src(t) for t in n.targets)
                   and src(n.value) == name for i in cfg.node_of(n)]
        ok_store = not fresh_defs or all(cfg.all_paths_pass(cfg.ids(st), [cfg.exit], stores, exc=False) for v, st in fresh_defs)
        ctx.check(ok_store, key, c, 'the looked up set is tested by identity, a fresh one is stored in the table on every path',
                  f'the fresh set bound to `{name}` is not stored in the subscription table on every path: the connection is added to a set nobody reads', sub)
        if ok_store:
            adds += list(cfg.node_of(c))
    ok = bool(adds) and cfg.all_paths_pass([cfg.entry], [cfg.exit], adds, exc=False)
    ctx.check(ok, f'{sub.qualname}:records the subscription on every path', sub.node, 'no normal path around _subscriptions...add(conn)',
              'subscribe() can return without recording the connection under the event name: the client gets `active <scope>` '
              'but the scope does not exist - after a general deactivate (or for a connection that is not generally active) no update of that scope arrives', sub)
    ci = m.cls(D)
    n = 0
    for name, f in sorted(ci.methods.items()):
        for t, v, s in attr_stores(f.node):
            if t.attr in ('_subscriptions', '_active_connections') and dotted(t.value) == 'self':
                n += 1
                ctx.analysed(f)
                ctx.check(name == '__init__', f'{f.qualname}:store {t.attr}', s, 'created once in __init__',
                          f'`{src(s)}` replaces the table while other threads add to / iterate the old object: reset_connection runs on the '
                          'closing connection\'s own thread without the dispatcher lock, so an activate of another connection that lands between '
                          'the listing and this assignment is lost - that connection was told `active` and never gets an update', f)
    if not n:
        raise AnchorMissing('construction of _subscriptions / _active_connections not found in Dispatcher')


@rule('C08.R3e', min_instances=1)
def disconnect_path_iterates_snapshots(ctx):
    """remove_connection (and what it calls) runs on the closing connection's own thread WITHOUT the dispatcher lock, while
    other connections subscribe under the lock: a loop over the shared tables there has to run over a snapshot
    (list(...) / .copy()) - iterating the live dict raises RuntimeError when a subscribe adds a key, the clean-up then stops
    half way: the closed connection stays registered for updates and log messages"""
    m = ctx.m
    ci = m.cls(D)
    start = m.method(D, 'remove_connection', inherited=False)
    todo, seen = [start], {}
    while todo:
        f = todo.pop()
        if f.qualname in seen:
            continue
        seen[f.qualname] = f
        for c in calls_in(f.node):
            if isinstance(c.func, ast.Attribute) and dotted(c.func.value) == 'self' and c.func.attr in ci.methods:
                todo.append(ci.methods[c.func.attr])
    n = 0
    # (a list does not raise when another thread appends while it is iterated; dicts and sets do)
    init = ci.methods.get('__init__')
    lists = {t.attr for t, v, s_ in attr_stores(init.node) if isinstance(v, ast.List)} if init is not None else set()
    tables = {'_subscriptions', '_active_connections', '_connections'} - lists
    for f in seen.values():
        for loop in [x for x in body_walk(f.node) if isinstance(x, (ast.For, ast.comprehension))]:
            it = loop.iter
            if not any(isinstance(x, ast.Attribute) and x.attr in tables and dotted(x.value) == 'self'
                       for x in ast.walk(it)):
                continue
            n += 1
            ctx.analysed(f)
            snap = isinstance(it, ast.Call) and ((isinstance(it.func, ast.Name) and it.func.id in ('list', 'tuple', 'set', 'frozenset', 'sorted'))
                                                 or call_attr(it) == 'copy')
            ctx.check(snap, f'{f.qualname}:loop over `{src(it)[:60]}` runs over a snapshot', loop if isinstance(loop, ast.For) else it,
                      'list(...) / copy of the shared table',
                      f'`for ... in {src(it)}` iterates the live table on the disconnect path (no dispatcher lock): a concurrent activate of another '
                      'connection adds a key, the loop raises RuntimeError and the rest of the clean-up (log levels off, removal from the active set) is skipped', f)
        # a table handed to a helper that sweeps it (`self._drop(conn, list(self._subscriptions.values()))`): the argument is the snapshot
        for c in calls_in(f.node):
            if not (isinstance(c.func, ast.Attribute) and dotted(c.func.value) == 'self' and c.func.attr in ci.methods):
                continue
            for a in c.args:
                if any(isinstance(x, ast.Attribute) and x.attr == '_subscriptions' and dotted(x.value) == 'self' for x in ast.walk(a)):
                    n += 1
                    ctx.analysed(f)
                    snap = isinstance(a, ast.Call) and ((isinstance(a.func, ast.Name) and a.func.id in ('list', 'tuple', 'set', 'frozenset', 'sorted')) or call_attr(a) == 'copy')
                    ctx.check(snap, f'{f.qualname}:loop over `{src(a)[:60]}` runs over a snapshot', a, 'list(...) / copy of the shared table handed to the helper',
                              f'`{src(a)}` hands the live table to a helper that iterates it on the disconnect path (no dispatcher lock): a concurrent activate of another '
                              'connection adds a key, the loop raises RuntimeError and the rest of the clean-up is skipped', f)
    if not n:
        raise AnchorMissing('no loop over the subscription tables on the disconnect path', violation=f'{D}.reset_connection:discards from every container activate adds to')


@rule('C08.R5b', min_instances=3)
def scope_refusals_have_the_right_polarity(ctx):
    """handle_activate / handle_deactivate: a request with data is refused (ProtocolError), an unknown or unexported module is
    refused (NoSuchModule), a name that is not a parameter is refused (NoSuchParameter) - for each test the side on which the
    refusing condition holds always raises and the registration / snapshot lies on the other side"""
    m = ctx.m
    for f in (_act(m), m.method(D, 'handle_deactivate', inherited=False)):
        ctx.analysed(f)
        cfg = CFG(f.node, m, f.module)
        regs = {i for c in calls_in(f.node) if call_attr(c) in ('subscribe', 'unsubscribe', 'add', 'discard') for i in cfg.node_of(c)}
        regs |= {i for c in _registrations(f) for i in cfg.node_of(c)}
        dl = _removal_delegated(m, f)
        if dl is not None:
            regs |= set(cfg.node_of(dl))
        for t in cfg.nodes:
            if t.kind != 'test':
                continue
            a = t.ast
            neg = False
            core = a
            while isinstance(core, ast.UnaryOp) and isinstance(core.op, ast.Not):
                neg = not neg
                core = core.operand
            refuse_true = None      # truth value of `core` on which the request must be refused
            what = None
            if isinstance(core, ast.Name) and core.id == 'data':
                refuse_true, what = True, 'a request with data'
            for l, op, r in compare_ops(core):
                if op in ('in', 'notin') and r.endswith('secnode.export'):
                    refuse_true, what = (op == 'notin'), 'an unknown / unexported module'
            if isinstance(core, ast.BoolOp) and isinstance(core.op, ast.And):
                for v in core.values:
                    for l, op, r in compare_ops(v):
                        if op in ('in', 'notin') and r.endswith('.parameters'):
                            refuse_true, what = (op == 'notin'), 'a name that is not a parameter'
            else:
                for l, op, r in compare_ops(core):
                    if op in ('in', 'notin') and r.endswith('.parameters'):
                        refuse_true, what = (op == 'notin'), 'a name that is not a parameter'
            if refuse_true is None:
                continue
            side = 'T' if (refuse_true != neg) else 'F'
            other = 'F' if side == 'T' else 'T'
            ok = side_never_completes(cfg, t.id, side) and bool(regs & cfg.reach([t.id], labels={other}, avoid=[t.id]))
            ctx.check(ok, f'{f.qualname}:{what} is refused', a, f'`{src(a)}`: the refusing side raises, the registration lies on the other side',
                      f'`{src(a)}`: {what} is not refused on the side where the condition holds (or legitimate requests are): the scope boundaries of '
                      '(de)activation no longer match the request', f)


@rule('C08.R3f', min_instances=1)
def unsubscribe_removes_exactly_the_scope(ctx):
    """unsubscribe(conn, name): the connection is discarded from the entry of exactly `name`, and - only when `name` is a
    module (no ':' in it) - from the entries `name:<parameter>`; with the polarity of both tests"""
    m = ctx.m
    f = m.method(D, 'unsubscribe', inherited=False)
    ctx.analysed(f)
    cfg = CFG(f.node, m, f.module)
    ev = f.node.args.args[2].arg
    exact = [c for c in calls_in(f.node) if call_attr(c) in ('discard', 'remove') and
             (src(c.func.value) in (f'self._subscriptions[{ev}]', f'self._subscriptions.get({ev})') or
              f'self._subscriptions.get({ev}' in src(c.func.value))]
    ok = bool(exact)
    for c in exact:
        ids = set(cfg.node_of(c))
        for a in [x for x in ancestors(c) if isinstance(x, ast.If)]:
            # allowed guard: membership of the key (positive side)
            tn = cfg.ids(a.test)
            for l, op, r in compare_ops(a.test):
                if r == 'self._subscriptions' and l == ev:
                    side = 'T' if op == 'in' else 'F'
                    ok = ok and all(ids <= cfg.reach([i], labels={side}, avoid=[i]) for i in tn)
    if not exact and _removal_delegated(m, f):
        ctx.undecided(f'{f.qualname}:the entry of the name itself is discarded', f.node, 'the sets are collected and emptied by helpers', f)
        return
    if not exact:
        # one loop over all entries with `key == name or key.startswith(prefix)`: the discard is selected by a disjunction, which
        # the side analysis does not split - the exact-key part is present, the rest is not decided
        loopdisc = [c for c in calls_in(f.node) if call_attr(c) in ('discard', 'remove') and
                    any(isinstance(a, ast.For) and '_subscriptions' in src(a.iter) for a in ancestors(c))]
        eq = [x for c in loopdisc for a in ancestors(c) if isinstance(a, ast.If) for x in ast.walk(a.test)
              if isinstance(x, ast.Compare) and len(x.ops) == 1 and isinstance(x.ops[0], ast.Eq) and ev in (src(x.left), src(x.comparators[0]))]
        if eq:
            ctx.undecided(f'{f.qualname}:the entry of the name itself is discarded', f.node, f'one sweep selecting `{src(eq[0])}` or the prefix: not split into cases', f)
            return
    ctx.check(ok, f'{f.qualname}:the entry of the name itself is discarded', f.node, f'self._subscriptions[{ev}].discard(conn) when the key exists',
              'the connection is not discarded from the entry of the deactivated name itself (or only when the key is absent): after `deactivate mod:par` '
              'the updates of mod:par keep coming', f)
    for loop in [x for x in body_walk(f.node) if isinstance(x, ast.For) and '_subscriptions' in src(x.iter)]:
        guards = [a for a in ancestors(loop) if isinstance(a, ast.If)]
        colon = [(a, l, op, r) for a in guards for l, op, r in compare_ops(a.test) if l == "':'" and r == ev and op in ('in', 'notin')]
        okp = bool(colon)
        for a, l, op, r in colon:
            side = 'T' if op == 'notin' else 'F'
            okp = okp and all(set(cfg.ids(loop)) <= cfg.reach([i], labels={side}, avoid=[i]) for i in cfg.ids(a.test))
        ctx.check(okp, f'{f.qualname}:parameter entries are swept only for a module name', loop, "guarded by `':' not in name`",
                  "the sweep over `<name>:...` entries does not run exactly when the name is a module name: deactivating a module leaves its parameter scopes "
                  'active (or deactivating one parameter sweeps others)', f)
        for c in [c for c in calls_in(loop) if call_attr(c) == 'startswith']:
            t = next((a for a in ancestors(c) if isinstance(a, ast.If)), None)
            if t is None:
                continue
            neg = isinstance(t.test, ast.UnaryOp) and isinstance(t.test.op, ast.Not)
            disc = {i for d in calls_in(loop) if call_attr(d) in ('discard', 'remove') for i in cfg.node_of(d)}
            side = 'F' if neg else 'T'
            okd = bool(disc) and all(disc <= cfg.reach([i], labels={side}, avoid=[i]) for i in cfg.ids(t.test))
            ctx.check(okd, f'{f.qualname}:matching entries are the ones discarded', t.test, 'discard on the matching side of startswith',
                      f'`{src(t.test)}`: the connection is discarded from the entries that do NOT belong to the module', f)


@rule('C08.R4b', min_instances=2)
def listeners_by_module_name(ctx):
    """broadcast_event: the module subscribers are looked up under the part of the specifier BEFORE the ':' and the
    all-connections list is used only for `reallyall`"""
    m = ctx.m
    f, u = _listener_unit(m)
    ctx.analysed(f)
    ctx.analysed(u)
    cfg = CFG(f.node, m, f.module)
    keys = [n for n in body_walk(u.node) if isinstance(n, ast.Subscript) and isinstance(n.value, ast.Call) and call_attr(n.value) == 'split'
            and "':'" in src(n.value)]
    keys += [n for n in body_walk(u.node) if isinstance(n, ast.Subscript) and isinstance(n.value, ast.Call) and call_attr(n.value) == 'partition'
             and "':'" in src(n.value)]
    for k in keys:
        ctx.check(isinstance(k.slice, ast.Constant) and k.slice.value == 0, f'{f.qualname}:module key is the part before the colon', k, f'`{src(k)}`',
                  f'`{src(k)}` takes the parameter part: module-wide activations never match an update', f)
    if not keys:
        ctx.undecided(f'{f.qualname}:module key is the part before the colon', f.node, 'split of the specifier not found', f)
    # `for conn in self._connections if reallyall else <listeners>`: the conditional expression form
    for ie in [x for x in body_walk(f.node) if isinstance(x, ast.IfExp) and src(x.test).replace('not ', '') == 'reallyall']:
        neg = src(ie.test).startswith('not ')
        yes, no = (ie.orelse, ie.body) if neg else (ie.body, ie.orelse)
        ctx.check('self._connections' in src(yes) and 'self._connections' not in src(no), f'{f.qualname}:all connections only for reallyall', ie,
                  'self._connections is used on the reallyall side only',
                  'ordinary updates go to every connection (activated or not) / reallyall messages only to subscribers', f)
    tests = [t for t in cfg.nodes if t.kind == 'test' and src(t.ast).replace('not ', '') == 'reallyall']
    for t in tests:
        neg = src(t.ast).startswith('not ')
        allc = {i for n in body_walk(f.node) if isinstance(n, ast.Assign) and src(n.value) == 'self._connections' for i in cfg.node_of(n)}
        side = 'F' if neg else 'T'
        ctx.check(bool(allc) and all(allc <= cfg.reach([t.id], labels={side}, avoid=[t.id]) for _ in [0]) and
                  not (allc & cfg.reach([t.id], labels={'T' if side == 'F' else 'F'}, avoid=[t.id])),
                  f'{f.qualname}:all connections only for reallyall', t.ast, 'self._connections is used on the reallyall side only',
                  'ordinary updates go to every connection (activated or not) / reallyall messages only to subscribers', f)


def _sides(cfg, t):
    a = t.ast
    neg = False
    while isinstance(a, ast.UnaryOp) and isinstance(a.op, ast.Not):
        neg = not neg
        a = a.operand
    on = cfg.reach([t.id], labels={'F' if neg else 'T'}, avoid=[t.id])
    off = cfg.reach([t.id], labels={'T' if neg else 'F'}, avoid=[t.id])
    return a, on, off


@rule('C08.R6b', min_instances=4)
def activation_scope_follows_the_specifier(ctx):
    """handle_activate, with the polarity of its scope tests: a request WITH specifier registers that one scope (subscribe), one
    WITHOUT registers the connection for everything; a specifier with ':' is split into module and parameter; in the snapshot
    loop a parameter scope sends that one parameter, a module scope every accessible that is an exported Parameter"""
    m = ctx.m
    f0 = _act(m)
    owners = {id(o): o for c, o, site in _snapshot_sends_deep(m, f0)}
    units = [f0] + [o for o in owners.values() if o is not f0]
    n = 0
    for f in units:
        ctx.analysed(f)
        cfg = CFG(f.node, m, f.module)
        sub = {i for c in calls_in(f.node) if call_attr(c) == 'subscribe' for i in cfg.node_of(c)}
        glob = {i for c in calls_in(f.node) if call_attr(c) == 'add' and '_active_connections' in src(c.func) for i in cfg.node_of(c)}
        sends = _snapshot_sends(f)
        one = {i for c in sends if any(isinstance(x, ast.Subscript) and src(x.slice) == 'pname' for x in ast.walk(c)) for i in cfg.node_of(c)}
        many = {i for c in sends if not any(isinstance(x, ast.Subscript) and src(x.slice) == 'pname' for x in ast.walk(c)) for i in cfg.node_of(c)}
        split = {i for x in body_walk(f.node) if isinstance(x, ast.Assign) and isinstance(x.value, ast.Call) and call_attr(x.value) == 'split' and "':'" in src(x.value)
                 for i in cfg.node_of(x)}
        for t in cfg.nodes:
            if t.kind != 'test':
                continue
            core, on, off = _sides(cfg, t)
            s = src(core)
            if s == 'specifier' and (sub or glob) and t.id not in cfg.reach(list(sub | glob)):
                n += 1
                ok = sub <= on and not (sub & off - on) and glob <= off and not (glob & on - off)
                ctx.check(ok, f'{f.qualname}:scoped request registers its scope, unscoped one everything', t.ast, 'subscribe on the specifier side, the active set on the other',
                          f'`{src(t.ast)}`: `activate` without specifier registers a scope named None and `activate mod` activates everything', f)
            if s == "':' in specifier" and split:
                n += 1
                ctx.check(split <= on and not (split & off - on), f'{f.qualname}:module:parameter specifier is split', t.ast, 'split on the side with a colon',
                          f'`{src(t.ast)}`: the specifier is split only when it holds no colon', f)
            if s == 'pname' and one and many:
                n += 1
                ok = one <= on and not (one & off - on) and bool(many & off)
                ctx.check(ok, f'{f.qualname}:parameter scope sends that parameter, module scope all', t.ast, 'single send on the pname side',
                          f'`{src(t.ast)}`: a parameter scope gets the snapshot of the whole module and a module scope fails on parameters[None]', f)
            if 'Parameter' in s and '.export' in s and isinstance(core, ast.BoolOp):
                n += 1
                ok = many <= on and not (many & off - on)
                ctx.check(ok, f'{f.qualname}:snapshot sends the exported parameters', t.ast, 'send on the true side of the predicate',
                          f'`{src(t.ast)}`: the snapshot sends exactly the accessibles that are NOT exported parameters (commands have no value: AttributeError)', f)
    if n < 3:
        raise AnchorMissing('scope tests of handle_activate not found (specifier / pname / snapshot predicate)')


@rule('C08.R3g', min_instances=1)
def a_scoped_deactivate_leaves_the_general_activation_alone(ctx):
    """handle_deactivate: with a specifier only the subscriptions of that scope end, the general activation of the connection
    (`_active_connections`) is dropped by the bare `deactivate` only.  Direct form: the discard from _active_connections lies
    on the no-specifier side.  Collected form (`sets = [self._active_connections]` ... helper drops the connection from every
    set): on the specifier side the collection is REPLACED, not extended"""
    m = ctx.m
    f = m.method(D, 'handle_deactivate', inherited=False)
    ctx.analysed(f)
    cfg = CFG(f.node, m, f.module)
    spec = f.node.args.args[2].arg if len(f.node.args.args) > 2 else 'specifier'
    with_spec = sides_with_fact(cfg, lambda a, tv: tv and isinstance(a, ast.Name) and a.id == spec)
    key = f'{f.qualname}:a deactivate with specifier keeps the general activation'
    n = 0
    for c in calls_in(f.node):
        if call_attr(c) in ('discard', 'remove') and '_active_connections' in src(c.func.value):
            n += 1
            ctx.check(not (set(cfg.node_of(c)) <= with_spec), key, c, 'the general activation is dropped on the no-specifier side only',
                      f'`{src(c)}` lies on the side where a specifier was given: `deactivate <module>` ends the general activation of the connection - it gets no '
                      'further update of any module although only one scope was deactivated', f)
    holders = {x.targets[0].id for x in body_walk(f.node) if isinstance(x, ast.Assign) and len(x.targets) == 1 and isinstance(x.targets[0], ast.Name)
               and '_active_connections' in src(x.value)}
    for x in body_walk(f.node):
        grows = (isinstance(x, ast.AugAssign) and isinstance(x.target, ast.Name) and x.target.id in holders) or \
            (isinstance(x, ast.Call) and call_attr(x) in ('extend', 'append', 'update', 'add') and isinstance(x.func.value, ast.Name) and x.func.value.id in holders) or \
            (isinstance(x, ast.Assign) and len(x.targets) == 1 and isinstance(x.targets[0], ast.Name) and x.targets[0].id in holders
             and any(isinstance(y, ast.Name) and y.id in holders for y in ast.walk(x.value)))
        if grows:
            n += 1
            ctx.check(not (set(cfg.node_of(x)) <= with_spec), key, x, 'the collection of sets is replaced on the specifier side',
                      f'`{src(x).splitlines()[0]}` EXTENDS the collection that already holds `_active_connections` on the side where a specifier was given: '
                      '`deactivate <module>` also ends the general activation of the connection - no further update of any module reaches it', f)
    if holders and not n:
        ctx.ok(key, f.node, 'the collection holding _active_connections is never extended', f)
    elif not n:
        ctx.undecided(key, f.node, 'how the general activation is dropped was not recognised', f)


@rule('C08.R6c', min_instances=1)
def modules_enter_the_node_through_add_module(ctx):
    """who-may-write: SecNode.add_module is the one place that puts a module into `modules` - and, when it is exported, into
    `export`, the set a whole-node activate walks and an `activate <module>` is checked against.  A module stored into
    `self.modules[...]` anywhere else is served (its updates are broadcast) but never part of an activation snapshot"""
    m = ctx.m
    SN = 'frappy.secnode.SecNode'
    ci = m.cls(SN)
    add = ci.methods.get('add_module')
    if add is None:
        raise AnchorMissing('SecNode.add_module not found')
    ctx.analysed(add)
    fills_export = any(isinstance(c.func, ast.Attribute) and src(c.func.value) == 'self.export' and c.func.attr in ('append', 'add') for c in calls_in(add.node))
    ctx.check(fills_export, f'{add.qualname}:an exported module enters the export list', add.node, 'self.export.append(name)',
              'add_module does not enter the module into secnode.export', add)
    n = 0
    for name, f in sorted(ci.methods.items()):
        for x in body_walk(f.node):
            if isinstance(x, ast.Subscript) and isinstance(x.ctx, ast.Store) and src(x.value) == 'self.modules':
                n += 1
                ctx.analysed(f)
                st = getattr(x, 'parent', None)
                again = isinstance(st, ast.Assign) and isinstance(st.value, ast.Name) and \
                    any(isinstance(o, ast.Call) and call_attr(o) in ('get_module_instance', 'get_module') for o in origins(st.value, f.node))
                if again:
                    ctx.ok(f'{f.qualname}:store into self.modules', x, 'stores again what get_module_instance handed back (it went through add_module there)', f)
                    continue
                ctx.check(name == 'add_module', f'{f.qualname}:store into self.modules', x, 'in add_module',
                          f'`{src(getattr(x, "parent", x))}` puts a module into the node without add_module: it never enters secnode.export - a whole-node activate '
                          'sends no initial update for it (later updates are broadcast all the same) and `activate <module>` is refused', f)
    if not n:
        raise AnchorMissing('no store into self.modules found in SecNode')


@rule('C08.R10', min_instances=1)
def the_running_flag_is_read_under_the_send_lock(ctx):
    """send_reply of every interface: a failed send clears `running` inside send_lock, and the next sender decides whether it
    may still write by reading `running` inside the same lock.  A value of the flag that was read BEFORE the lock was taken
    and is used inside it (`alive = self.running` ... `with self.send_lock: self.running = alive and ...`) is stale when
    another thread's send failed meanwhile: the second frame goes out behind the broken one and the connection is set running
    again - it keeps its subscriptions although an update was lost"""
    m = ctx.m
    n = 0
    for q, f in sorted(m.functions.items()):
        if f.name != 'send_reply' or not f.module.name.startswith('frappy.protocol.interface') or f.cls is None:
            continue
        locked = [x for x in body_walk(f.node) if isinstance(x, ast.stmt) and in_lock(x, 'send_lock')]
        if not locked:
            continue        # (the send of this class is not in a send_lock region of send_reply itself: C07.R4 decides that)
        ctx.analysed(f)
        n += 1
        stale = []
        for st in body_walk(f.node):
            if isinstance(st, ast.Assign) and not in_lock(st, 'send_lock') and len(st.targets) == 1 and isinstance(st.targets[0], ast.Name) \
                    and any(isinstance(x, ast.Attribute) and x.attr == 'running' and dotted(x.value) == 'self' for x in ast.walk(st.value)):
                nm = st.targets[0].id
                if any(isinstance(x, ast.Name) and x.id == nm and isinstance(x.ctx, ast.Load) and in_lock(x, 'send_lock') for x in body_walk(f.node)):
                    stale.append(st)
        ctx.check(not stale, f'{f.qualname}:running is read inside send_lock', stale[0] if stale else locked[0],
                  'no value of self.running taken outside the lock is used inside it',
                  f'`{src(stale[0]) if stale else ""}` is evaluated before send_lock is taken and decides inside the lock: after another thread\'s send failed '
                  'meanwhile, this sender still writes its frame behind the broken one and sets running back to True - the connection stays activated with a lost update', f)
    if n < 1:
        raise AnchorMissing('send_reply sending inside a send_lock region not found in the interfaces')


@rule('C08.R11', min_instances=1)
def request_handlers_run_inside_the_dispatcher_lock(ctx):
    """Dispatcher.handle_request: the looked-up handle_<action> is CALLED inside `with self._lock:` - activate / deactivate of
    different connections walk and change the same subscription tables (unsubscribe iterates `_subscriptions.items()` while a
    subscribe of another connection adds a key); with only the lookup serialised a deactivate dies half way with "dictionary
    changed size during iteration" and its connection keeps receiving the updates of the scope it cancelled"""
    m = ctx.m
    hr = m.method('frappy.protocol.dispatcher.Dispatcher', 'handle_request', inherited=False)
    ctx.analysed(hr)
    # the handler object: a local bound to getattr(self, ...) (or to the result of a helper method that does the lookup)
    hv = {x.targets[0].id for x in body_walk(hr.node) if isinstance(x, ast.Assign) and len(x.targets) == 1 and isinstance(x.targets[0], ast.Name)
          and isinstance(x.value, ast.Call) and (dotted(x.value.func) == 'getattr' or (isinstance(x.value.func, ast.Attribute) and dotted(x.value.func.value) == 'self'))}
    calls = [c for c in calls_in(hr.node) if isinstance(c.func, ast.Name) and c.func.id in hv and len(c.args) >= 3]
    if not calls:
        raise AnchorMissing('call of the looked-up handler (handler(conn, specifier, data)) not found in Dispatcher.handle_request')
    for c in calls:
        ctx.check(in_lock(c, '_lock'), f'{hr.qualname}:handlers run inside the dispatcher lock', c, 'the handler call lies in the _lock region',
                  f'`{src(c)}` runs outside `with self._lock:`: activate / deactivate requests of different connections interleave on the subscription tables', hr)


@rule('C08.R12', min_instances=4)
def updates_are_named_as_they_are_subscribed(ctx):
    """shared with C05.R5c: broadcast_event finds the subscribers of a parameter scope under the specifier of the message;
    make_update names value AND error updates `<module>:<exported name>` - an error update named by the attribute name reaches
    no connection that activated `mod:_aux`, whose last message then no longer equals the node's cache"""
    from sa.rules import c05
    c05.update_message_follows_the_error_state(ctx)
