"""C07 - one well-formed reply per request line, for any bytes and any chunking"""
from sa.core import rule, prop_info
from sa.lib import *  # noqa: F401,F403
from sa.lib import (func_calls, in_lock, enclosing_tries, handler_catches_all, handler_reraises, origins,
                    local_assigns)
from sa.model import AnchorMissing, UNKNOWN, kwarg
from sa import roles

prop_info(
    'C07',
    'Decided: R1 in the request loop the dispatcher call sits in a try with a catch-all handler that builds an '
    'error_<action> triple echoing the request and does not re-raise, and every next_message implementation can '
    'only leave exceptionally through DecodeError; R2 on every path of one loop iteration that carries a message '
    'there is exactly one send_reply; R3 the de-framer splits at the first EOL only and the remainder goes back '
    'into the buffer that ingest appends to; R4 every send_reply encodes first and sends inside the send lock, the '
    'encoder appends exactly one EOL to a json.dumps data part; R5 every handle_<action> returns the reply action '
    'REQUEST2REPLY[action] (constants folded) and dispatch happens inside the dispatcher lock; R5b replies echo the '
    'specifier; R6 the wire encoder cannot emit NaN/Infinity.',
    not_decided='inverse-ness of encode/decode on values, very long lines, UTF-8 validity of emitted text.')

TCPH = 'frappy.protocol.interface.tcp.TCPRequestHandler'
IFACE = 'frappy.protocol.interface'


def _handle(m):
    return m.method(roles.HANDLER, 'handle', inherited=False)


def _inner_loop(h):
    """the while loop containing the next_message call"""
    for n in body_walk(h.node):
        if isinstance(n, ast.While) and any(call_attr(c) == 'next_message' for c in calls_in(n)) \
                and not any(isinstance(x, ast.While) and x is not n and any(call_attr(c) == 'next_message' for c in calls_in(x))
                            for x in ast.walk(n)):
            return n
    raise AnchorMissing('message loop (while ... next_message()) not found in RequestHandler.handle')


@rule('C07.R1', min_instances=3)
def containment(ctx):
    """dispatcher call contained by a catch-all that builds an error reply; next_message leaves only via DecodeError"""
    m = ctx.m
    h = _handle(m)
    ctx.analysed(h)
    loop = _inner_loop(h)
    disp = [c for c in calls_in(loop) if call_attr(c) == 'handle_request']
    if not disp:
        raise AnchorMissing('call of dispatcher.handle_request not found in the message loop')
    for c in disp:
        good = None
        for t, part in enclosing_tries(c, stop=loop):
            if part == 'body':
                for hd in t.handlers:
                    if handler_catches_all(hd):
                        good = hd
                if good:
                    break
        if not good:
            ctx.bad(f'{h.qualname}:dispatcher call contained', c,
                    'handle_request is not inside a try with a catch-all (Exception) handler: an unexpected exception '
                    'in a driver or handler terminates the connection thread instead of producing error_<action>', h)
            continue
        ok = not handler_reraises(good)
        ctx.check(ok, f'{h.qualname}:dispatcher call contained', c, 'catch-all handler, no re-raise',
                  'the catch-all handler re-raises: the connection handler terminates', h)
        # every handler of that try builds `result` = (ERRORPREFIX + msg[0], msg[1], [...])
        t = good.parent
        for hd in t.handlers:
            assigns = [n for st in hd.body for n in walk_local(st) if isinstance(n, ast.Assign)
                       and any(isinstance(x, ast.Name) and x.id == 'result' for x in n.targets)]
            shape = False
            for a in assigns:
                v = resolved(a.value, h.node) if not any(len(local_assigns(h.node, x.id)) > 1 for x in ast.walk(a.value) if isinstance(x, ast.Name)) else a.value
                if isinstance(v, ast.Tuple) and len(v.elts) == 3 and all(isinstance(e, ast.Name) for e in v.elts[:2]):
                    # `action = ERRORPREFIX + msg[0]; specifier = msg[1]; result = (action, specifier, report)` bound in the same handler
                    def last_in_handler(name, hd=hd):
                        defs = [n.value for st in hd.body for n in walk_local(st) if isinstance(n, ast.Assign) and any(isinstance(x, ast.Name) and x.id == name for x in n.targets)]
                        return defs[-1] if defs else None
                    e0v, e1v = last_in_handler(v.elts[0].id), last_in_handler(v.elts[1].id)
                    if e0v is not None and e1v is not None:
                        v = ast.Tuple(elts=[e0v, e1v, v.elts[2]], ctx=ast.Load())
                if isinstance(v, ast.Tuple) and len(v.elts) == 3:
                    e0, e1 = src(v.elts[0]), src(v.elts[1])
                    if 'ERRORPREFIX' in e0 and 'msg[0]' in e0 and e1 == 'msg[1]':
                        shape = True
            ctx.check(shape, f'{h.qualname}:handler `{src(hd.type) if hd.type else "bare"}` builds error reply', hd,
                      'result = (ERRORPREFIX + msg[0], msg[1], [...])',
                      'the handler does not build an error_<action> triple echoing action and specifier of the request', h)
    # DecodeError branch of the loop builds a reply as well
    dec = [hd for n in walk_local(loop) if isinstance(n, ast.Try) for hd in n.handlers if hd.type is not None and dotted(hd.type) == 'DecodeError']
    ctx.check(bool(dec) and all(not handler_reraises(x) for x in dec), f'{h.qualname}:DecodeError becomes a reply', loop,
              'DecodeError is caught in the loop without re-raise', 'DecodeError is not converted into an error reply', h)
    # sibling rule: every next_message implementation
    for q in [roles.HANDLER] + m.subclasses(roles.HANDLER):
        ci = m.classes[q]
        nm = ci.methods.get('next_message')
        if nm is None or q == roles.HANDLER:
            continue
        ctx.analysed(nm)
        cfg = CFG(nm.node, m, nm.module)
        offenders = []
        for a, lab in cfg.pred[cfg.exit_exc]:
            node = cfg.nodes[a]
            if a not in cfg.live_nodes():
                continue
            if isinstance(node.ast, ast.Raise) and node.ast.exc is not None:
                e = node.ast.exc.func if isinstance(node.ast.exc, ast.Call) else node.ast.exc
                if dotted(e) == 'DecodeError':
                    continue
            offenders.append(node)
        # operations that can not fail on bytes / on a container that was just tested non-empty are not ways out
        TOTAL = {'strip', 'lstrip', 'rstrip', 'startswith', 'endswith', 'split', 'partition', 'rpartition', 'join', 'append', 'extend', 'lower', 'upper'}

        def harmless(node):
            st = node.ast
            if st is None or isinstance(st, ast.Raise):
                return False
            calls = [c for c in ast.walk(st) if isinstance(c, ast.Call)]
            if any(isinstance(x, (ast.Subscript, ast.BinOp)) for x in ast.walk(st)):
                return False
            for c in calls:
                a = call_attr(c)
                if a in TOTAL:
                    continue
                if a in ('popleft', 'pop') and not c.args:
                    recv = src(c.func.value)
                    tests = [t.id for t in cfg.nodes if t.kind == 'test' and isinstance(t.ast, ast.expr) and recv in src(t.ast)]
                    if tests and all(cfg.dominates(tests, i) for i in [node.id]):
                        continue
                return False
            return bool(calls) or isinstance(st, ast.expr)
        offenders = [o for o in offenders if not harmless(o)]
        anchored = q == TCPH
        construct = f'{nm.qualname}:leaves only via DecodeError'
        if not offenders:
            ctx.ok(construct, nm.node, 'every exceptional exit is a raise DecodeError', nm)
        elif anchored:
            ctx.bad(construct, offenders[0].ast, f'{offenders[0]!r} may raise something else than DecodeError out of '
                    'next_message: the request loop does not catch it and the connection handler terminates', nm)
        else:
            ctx.info(construct, offenders[0].ast, f'sibling outside the anchored files: {offenders[0]!r} may escape', nm)


@rule('C07.R2', min_instances=2)
def exactly_one_reply(ctx):
    """per loop iteration with a message: at least one and at most one self.send_reply(result)"""
    m = ctx.m
    h = _handle(m)
    ctx.analysed(h)
    loop = _inner_loop(h)
    cfg = CFG(h.node, m, h.module)
    W = cfg.ids(loop.test)
    nm = [i for c in calls_in(loop) if call_attr(c) == 'next_message' for i in cfg.node_of(c)]
    sends = [c for c in calls_in(loop) if call_attr(c) == 'send_reply']
    S = {i for c in sends for i in cfg.node_of(c)}
    breaks = {i for n in walk_local(loop) if isinstance(n, ast.Break) for i in cfg.ids(n)}
    outer = {n.id for n in cfg.nodes if n.kind == 'test' and isinstance(getattr(n.ast, 'cfg_owner', None), ast.While)
             and n.ast.cfg_owner is not loop}
    if not sends:
        ctx.bad(f'{h.qualname}:at least one reply per message', loop, 'the message loop never calls send_reply', h)
        return
    r = cfg.reach(nm, avoid=S | breaks | outer, exc=True)
    ctx.check(not (r & set(W)), f'{h.qualname}:at least one reply per message', loop,
              'every path from next_message() back to the loop head passes a send_reply',
              'a path from next_message() back to the loop head sends no reply (request line left unanswered)', h)
    multi = [s for s in S if cfg.reach([s], avoid=set(W) | outer) & S]
    ctx.check(not multi, f'{h.qualname}:at most one reply per message', loop,
              'no send_reply can be followed by another one within the same iteration',
              f'a second send_reply is reachable within one iteration after {[repr(cfg.nodes[x]) for x in multi][:2]}', h)
    # the argument is the `result` built in this iteration
    for c in sends:
        ctx.check(bool(c.args) and src(c.args[0]) == 'result', f'{h.qualname}:reply is the result of this request', c,
                  'send_reply(result)', f'send_reply is called with `{src(c.args[0]) if c.args else ""}` instead of the result triple', h)
    # handle_help lines use the '_' action (documented multi-line help), counted separately
    hh = m.method(roles.HANDLER, 'handle_help', inherited=False)
    for c in func_calls(hh.node, attr='send_reply'):
        a = c.args[0] if c.args else None
        ok = isinstance(a, ast.Tuple) and a.elts and isinstance(a.elts[0], ast.Constant) and a.elts[0].value == '_'
        ctx.check(ok, f'{hh.qualname}:help lines are comment lines', c, "help text lines use the '_' action",
                  'handle_help sends something else than comment lines: more than one reply per request', hh)


@rule('C07.R3', min_instances=3)
def framing(ctx):
    """get_msg splits at the first EOL only; the remainder is stored back into the buffer ingest appends to"""
    m = ctx.m
    gm = m.func(f'{IFACE}.get_msg')
    ctx.analysed(gm)
    param = gm.node.args.args[0].arg
    for r in [n for n in body_walk(gm.node) if isinstance(n, ast.Return)]:
        v = r.value
        if isinstance(v, ast.Tuple) and len(v.elts) == 2:
            ok = isinstance(v.elts[0], ast.Constant) and v.elts[0].value is None and src(v.elts[1]) == param
            ctx.check(ok, f'{gm.qualname}:incomplete line keeps the buffer', r, 'returns (None, <whole input>)',
                      f'`{src(v)}`: the unconsumed input is not returned unchanged', gm)
        elif isinstance(v, ast.Call) and call_attr(v) == 'split' and src(v.func.value) == param:
            ms = v.args[1] if len(v.args) > 1 else kwarg(v, 'maxsplit')
            ok = len(v.args) >= 1 and src(v.args[0]) == 'EOL' and isinstance(ms, ast.Constant) and ms.value == 1
            ctx.check(ok, f'{gm.qualname}:split at first EOL only', r, 'split(EOL, 1)',
                      f'`{src(v)}`: not a split at the first EOL with maxsplit=1 - further lines in the same segment are lost or mis-framed', gm)
        else:
            splits = [c for c in ast.walk(v) if isinstance(c, ast.Call) and call_attr(c) in ('split', 'rsplit', 'partition', 'rpartition')]
            bad = [c for c in splits if call_attr(c) in ('rsplit', 'rpartition') or
                   (call_attr(c) == 'split' and not (len(c.args) > 1 and isinstance(c.args[1], ast.Constant) and c.args[1].value == 1))]
            if bad:
                ctx.bad(f'{gm.qualname}:split at first EOL only', r, f'`{src(v)}`: the input is not split at the FIRST EOL with the whole remainder kept '
                        '- further lines received in the same segment are lost or mis-framed', gm)
            else:
                ctx.undecided(f'{gm.qualname}:return form', r, f'`{src(v)}` not recognised', gm)
    nm = m.method(TCPH, 'next_message', inherited=False)
    ing = m.method(TCPH, 'ingest', inherited=False)
    ctx.analysed(nm)
    ctx.analysed(ing)
    # whatever the design of the buffer: the bytes handed to ingest() end up in the handler's state (none is dropped), and lines
    # are cut at EOL only (bytes.splitlines also cuts at a lone CR, VT, FF, FS ... - one request would become two)
    icfg = CFG(ing.node, m, ing.module)
    prm = ing.node.args.args[1].arg if len(ing.node.args.args) > 1 else 'newdata'
    lost = received_bytes_lost(icfg, ing.node, lambda t: t.startswith('self.'), lambda c: False, initial=[prm])
    ctx.check(not lost, f'{ing.qualname}:appends to the buffer', ing.node, 'every received byte is kept in the state of the handler',
              'ingest can return without having stored the bytes it was given: the bytes of a partially received line are dropped', ing)
    for g in (nm, ing):
        for c in calls_in(g.node):
            if call_attr(c) in ('splitlines',) or (call_attr(c) in ('split', 'rsplit', 'partition', 'rpartition') and c.args and src(c.args[0]) not in ('EOL',)
                                                   and any('data' in src(x) for x in ast.walk(c.func.value))):
                ctx.bad(f'{g.qualname}:lines are cut at EOL only', c, f'`{src(c)}` cuts the received bytes at other places than the line feed (splitlines: also a lone CR, VT, FF, '
                        'FS, GS, RS, NEL): a request containing such a byte is taken for two requests and gets two replies', g)
    uses_get_msg = any(call_name(c) == 'get_msg' for c in calls_in(nm.node))
    if not uses_get_msg:
        ctx.undecided(f'{nm.qualname}:remainder goes back into the buffer', nm.node, 'de-framing does not go through get_msg: the buffer discipline of this '
                      'design is not decided (conservation of the ingested bytes and the separator are)', nm)
    else:
        ok = False
        for n in body_walk(nm.node):
            if isinstance(n, ast.Assign) and isinstance(n.value, ast.Call) and call_name(n.value) == 'get_msg':
                t = n.targets[0]
                if isinstance(t, ast.Tuple) and len(t.elts) == 2 and src(t.elts[1]) == 'self.data' and \
                        n.value.args and src(n.value.args[0]) == 'self.data':
                    ok = True
        ctx.check(ok, f'{nm.qualname}:remainder goes back into the buffer', nm.node, 'message, self.data = get_msg(self.data)',
                  'the remainder returned by get_msg is not stored back into self.data', nm)
    dm = m.func(f'{IFACE}.decode_msg')
    ctx.analysed(dm)
    def sep_ok(e):
        v = m.const(dm.module, resolved(e, dm.node))
        return None if v is UNKNOWN else v == ' '
    sp = [c for c in calls_in(dm.node) if call_attr(c) == 'split']
    ok = any(((len(c.args) == 2 and isinstance(c.args[1], ast.Constant) and c.args[1].value == 2) or
              (isinstance(kwarg(c, 'maxsplit'), ast.Constant) and kwarg(c, 'maxsplit').value == 2)) for c in sp)
    # ... or two cuts at the first separator each, the second one applied to the rest the first one left
    parts = [n for n in body_walk(dm.node) if isinstance(n, ast.Assign) and isinstance(n.value, ast.Call) and call_attr(n.value) == 'partition'
             and isinstance(n.targets[0], ast.Tuple) and len(n.targets[0].elts) == 3]
    if not ok and len(parts) == 2:
        rest = parts[0].targets[0].elts[2]
        ok = isinstance(rest, ast.Name) and src(parts[1].value.func.value) == rest.id and \
            all(len(p_.value.args) == 1 and sep_ok(p_.value.args[0]) is not False for p_ in parts)
    ctx.check(ok, f'{dm.qualname}:split into three fields', dm.node, "split(' ', 2) / two partition(' ') cuts",
              'decode_msg does not split into at most three fields: JSON data containing spaces is cut', dm)
    # white space is taken off the BYTES: bytes.strip() removes ASCII blanks only, str.strip() also FS, GS, RS, US, NEL, NBSP,
    # U+2028 ... - characters a specifier / the JSON text may end with
    bprm = dm.node.args.args[0].arg if dm.node.args.args else 'msg'
    strips = [c for c in calls_in(dm.node) if call_attr(c) in ('strip', 'rstrip', 'lstrip') and not c.args]
    for c in strips:
        recv = resolved(c.func.value, dm.node)
        on_text = any(isinstance(x, ast.Call) and call_attr(x) == 'decode' for x in ast.walk(recv))
        on_bytes = not on_text and bprm in names_in(recv)
        key = f'{dm.qualname}:white space is stripped from the bytes'
        if on_text:
            ctx.bad(key, c, f'`{src(c)}` strips the decoded text: str.strip() also removes \\x1c-\\x1f, NEL, NBSP, U+2028 and other unicode white space '
                    'that bytes.strip() keeps - a specifier ending with such a character is echoed without it, JSON text ending with one is silently repaired', dm)
        elif on_bytes:
            ctx.ok(key, c, 'bytes.strip(): ASCII white space only', dm)
        else:
            ctx.undecided(key, c, 'receiver of strip() not traced to the received bytes', dm)


@rule('C07.R4', min_instances=3)
def line_atomicity(ctx):
    """send_reply: encode, then send inside the send_lock region; encoder appends one EOL to json.dumps data"""
    m = ctx.m
    for q in m.subclasses(roles.HANDLER):
        ci = m.classes[q]
        sr = ci.methods.get('send_reply')
        if sr is None:
            continue
        ctx.analysed(sr)
        sends = [c for c in calls_in(sr.node) if call_attr(c) in ('sendall', 'send')]
        if not sends:
            from sa.lib import deep_calls
            deep = deep_calls(m, sr, lambda c: call_attr(c) in ('sendall', 'send'))
            if deep:
                from sa.lib import in_lock_deep
                for c, owner, site in deep:
                    ctx.analysed(owner)
                    ctx.check(in_lock_deep(c, owner, site, 'send_lock'), f'{sr.qualname}:send inside send_lock', site,
                              f'`{src(site)}` (which sends) is called inside `with self.send_lock`',
                              f'the socket send of {owner.qualname} happens outside the send_lock region (`{src(site)}` is not inside `with self.send_lock`): '
                              'an asynchronous update can split another line', sr)
                    # the payload handed to the helper is the encoded frame
                    hp = [a.arg for a in owner.node.args.args][1:]
                    arg = c.args[0] if c.args else None
                    if isinstance(arg, ast.Name) and arg.id in hp and hp.index(arg.id) < len(site.args):
                        prov = origins(site.args[hp.index(arg.id)], sr.node)
                        ok = bool(prov) and all(isinstance(o, ast.Call) and (call_name(o) or '').startswith('encode_msg_frame') for o in prov)
                        ctx.check(ok, f'{sr.qualname}:sends the encoded frame', site, 'payload = encode_msg_frame(*data)',
                                  f'payload `{src(site.args[hp.index(arg.id)])}` is not the output of the frame encoder', sr)
                    else:
                        ctx.undecided(f'{sr.qualname}:sends the encoded frame', site, 'payload of the helper not traced', sr)
            else:
                ctx.bad(f'{sr.qualname}:send inside send_lock', sr.node, 'send_reply never hands the encoded line to the socket (no sendall / send call): '
                        'no request gets its reply', sr)
            continue
        cfgs = CFG(sr.node, m, sr.module)
        for t in cfgs.nodes:
            if t.kind == 'test' and src(t.ast).replace('not ', '') == 'self.running':
                neg = src(t.ast).startswith('not ')
                sids = {i for c in sends for i in cfgs.node_of(c)}
                side = 'F' if neg else 'T'
                ok = sids <= cfgs.reach([t.id], labels={side}, avoid=[t.id]) and not (sids & cfgs.reach([t.id], labels={'T' if side == 'F' else 'F'}, avoid=[t.id]))
                ctx.check(ok, f'{sr.qualname}:sends while the connection is running', t.ast, 'the send lies on the running side',
                          f'`{src(t.ast)}`: the reply is sent only when the connection is NOT running - no request gets its reply', sr)
        for c in sends:
            ctx.check(in_lock(c, 'send_lock'), f'{sr.qualname}:send inside send_lock', c, 'inside `with self.send_lock`',
                      'the socket send is outside the send_lock region: an asynchronous update can split another line', sr)
            prov = origins(c.args[0], sr.node) if c.args else []
            ok = bool(prov) and all(isinstance(o, ast.Call) and (call_name(o) or '').startswith('encode_msg_frame') for o in prov)
            ctx.check(ok, f'{sr.qualname}:sends the encoded frame', c, 'payload = encode_msg_frame(*data)',
                      f'payload `{src(c.args[0]) if c.args else ""}` is not the output of the frame encoder', sr)
    enc = m.func(f'{IFACE}.encode_msg_frame')
    ctx.analysed(enc)
    rets = [n for n in body_walk(enc.node) if isinstance(n, ast.Return)]
    for r in rets:
        v = resolved(r.value, enc.node)
        ok = isinstance(v, ast.BinOp) and isinstance(v.op, ast.Add) and src(v.right) == 'EOL' and 'EOL' not in src(v.left) \
            and "encode('utf-8')" in src(v.left)
        ctx.check(ok, f'{enc.qualname}:exactly one EOL appended', r, '<utf-8 text> + EOL',
                  f'`{src(v)}`: the frame is not utf-8 text followed by exactly one EOL', enc)
    dumps = [c for c in calls_in(enc.node) if call_name(c) == 'json.dumps']
    ctx.check(bool(dumps), f'{enc.qualname}:data part is json.dumps output', enc.node, 'data is serialised with json.dumps',
              'the data part is not produced by json.dumps', enc)


def _reply_table(m):
    mod = m.modules.get('frappy.protocol.messages')
    if mod is None:
        raise AnchorMissing('frappy/protocol/messages.py not found')
    t = m.const_name(mod, 'REQUEST2REPLY')
    if t is UNKNOWN or not isinstance(t, dict):
        raise AnchorMissing('REQUEST2REPLY can not be constant-folded')
    return t


def _returned_triples(fi):
    """-> list of (tuple node | None, return node, condition src)"""
    out = []
    for n in body_walk(fi.node):
        if isinstance(n, ast.Return) and n.value is not None:
            v = n.value
            if isinstance(v, ast.IfExp):
                out.append((v.body if isinstance(v.body, ast.Tuple) else None, n, ('T', v.test)))
                out.append((v.orelse if isinstance(v.orelse, ast.Tuple) else None, n, ('F', v.test)))
            else:
                out.append((v if isinstance(v, ast.Tuple) else None, n, None))
    return out


@rule('C07.R5', min_instances=8)
def table_agreement(ctx):
    """each handle_<action> returns REQUEST2REPLY[action] as reply action; every table key has a handler;
    the handler is called inside the dispatcher lock"""
    m = ctx.m
    table = _reply_table(m)
    prefix, handlers = roles.dispatch_handlers(m)
    for action, fi in sorted(handlers.items()):
        if action in ('help', '_ident'):
            continue   # help is answered by the interface; *IDN? has its own literal reply
        ctx.analysed(fi)
        if action not in table:
            ctx.undecided(f'{fi.qualname}:reply action', fi.node, f'action {action!r} has no entry in REQUEST2REPLY', fi)
            continue
        for tup, ret, cond in _returned_triples(fi):
            if tup is None or len(tup.elts) != 3:
                ctx.undecided(f'{fi.qualname}:reply action', ret, f'`{src(ret.value)}` is not a literal triple', fi)
                continue
            c = m.const(fi.module, tup.elts[0])
            if c is UNKNOWN:
                ctx.undecided(f'{fi.qualname}:reply action', ret, f'`{src(tup.elts[0])}` can not be folded', fi)
                continue
            ctx.check(c == table[action], f'{fi.qualname}:reply action', ret, f'returns {c!r} = REQUEST2REPLY[{action!r}]',
                      f'returns action {c!r}, but REQUEST2REPLY[{action!r}] is {table[action]!r}: the client can not match the reply to its request', fi)
    for key in sorted(table):
        if key == 'help':
            continue
        ctx.check(key in handlers, f'{roles.DISPATCHER}:handler for {key}', None, f'handle_{key} exists',
                  f'REQUEST2REPLY has {key!r} but Dispatcher has no {prefix}{key}: the request is answered with a ProtocolError')
    hr, _, getattr_call = roles.dispatch_prefix(m)
    ctx.analysed(hr)
    hv = None
    st = enclosing_stmt(getattr_call)
    if isinstance(st, ast.Assign) and isinstance(st.targets[0], ast.Name):
        hv = st.targets[0].id
    calls = [c for c in calls_in(hr.node) if isinstance(c.func, ast.Name) and c.func.id == hv]
    if not calls:
        ctx.undecided(f'{hr.qualname}:dispatch inside lock', hr.node, 'call of the looked-up handler not recognised', hr)
    for c in calls:
        ctx.check(in_lock(c, '_lock'), f'{hr.qualname}:dispatch inside lock', c, 'handler runs inside the dispatcher lock',
                  'the handler is called outside the dispatcher lock: requests of different connections interleave', hr)


def _echo_through_helper_object(ctx, m, fi, ret, spec, action):
    """`target = Target('read', specifier)` ... `return target.reply(READREPLY, ...)`: the reply triple is built by a method of an
    object of a class of the dispatcher module.  Its second element has to be the specifier the constructor was given, kept
    verbatim (`self.specifier = specifier`); a specifier put together again from its parts (`f'{self.module}:{self.name}'`)
    differs from the request's for the short forms (`read mod` is answered as `mod:value`)"""
    obj = ret.value.func.value.id
    ctor = [x.value for x in body_walk(fi.node) if isinstance(x, ast.Assign) and len(x.targets) == 1 and isinstance(x.targets[0], ast.Name)
            and x.targets[0].id == obj and isinstance(x.value, ast.Call) and isinstance(x.value.func, ast.Name)]
    q = m.resolve_name(fi.module, ctor[0].func.id) if len(ctor) == 1 else None
    ci = m.classes.get(q) if q else None
    meth = ci.methods.get(ret.value.func.attr) if ci is not None else None
    init = ci.methods.get('__init__') if ci is not None else None
    if meth is None or init is None:
        ctx.undecided(f'{fi.qualname}:echoes specifier', ret, f'`{src(ret.value)[:80]}`: the reply is built by something that is not followed', fi)
        return
    params = [a.arg for a in init.node.args.args][1:]
    given = {p: a for p, a in zip(params, ctor[0].args)}
    given.update({k.arg: k.value for k in ctor[0].keywords if k.arg})
    for tup, r2, cond in _returned_triples(meth):
        if tup is None or len(tup.elts) != 3:
            ctx.undecided(f'{fi.qualname}:echoes specifier', ret, f'{meth.qualname} does not return a literal triple', fi)
            continue
        e = tup.elts[1]
        if isinstance(e, ast.Attribute) and dotted(e.value) == 'self':
            vals = [v for t, v, st in attr_stores(init.node) if t.attr == e.attr and dotted(t.value) == 'self']
            verbatim = bool(vals) and all(isinstance(v, ast.Name) and v.id in given and src(given[v.id]) == spec for v in vals)
            if verbatim:
                ctx.ok(f'{fi.qualname}:echoes specifier', ret, f'{meth.qualname} returns self.{e.attr}, which holds the specifier it was constructed with', fi)
            else:
                ctx.undecided(f'{fi.qualname}:echoes specifier', ret, f'self.{e.attr} of {ci.qualname} is not simply the given specifier', fi)
            continue
        recomposed = isinstance(e, (ast.JoinedStr, ast.BinOp)) or (isinstance(e, ast.Call) and call_attr(e) in ('join', 'format'))
        short_forms = any(isinstance(c, ast.Compare) and isinstance(c.left, ast.Constant) and c.left.value == ':' and any(isinstance(o, (ast.In, ast.NotIn)) for o in c.ops)
                          for c in ast.walk(init.node))
        if recomposed and short_forms:
            ctx.bad(f'{fi.qualname}:echoes specifier', ret, f'{meth.qualname} answers with `{src(e)}`, a specifier put together from the parts, while the constructor '
                    f'accepts a specifier without `:` (the short form): `{action} mod` is answered under `mod:<name>` - a client that keys its pending requests by '
                    '(reply action, specifier) never matches that reply', fi)
        else:
            ctx.undecided(f'{fi.qualname}:echoes specifier', ret, f'second element `{src(e)}` of {meth.qualname} not recognised', fi)


@rule('C07.R5b', min_instances=6)
def replies_echo_specifier(ctx):
    """second element of every reply triple is the request's specifier (None only where specifier is falsy)"""
    m = ctx.m
    prefix, handlers = roles.dispatch_handlers(m)
    for action, fi in sorted(handlers.items()):
        if action in ('help', '_ident'):
            continue
        spec = fi.node.args.args[2].arg if len(fi.node.args.args) > 2 else 'specifier'
        for tup, ret, cond in _returned_triples(fi):
            if tup is None and isinstance(ret.value, ast.Call) and isinstance(ret.value.func, ast.Attribute) and isinstance(ret.value.func.value, ast.Name):
                _echo_through_helper_object(ctx, m, fi, ret, spec, action)
                continue
            if tup is None or len(tup.elts) != 3:
                continue
            e = tup.elts[1]
            s = src(e)
            if s == spec or s.startswith(f'{spec} or '):
                ctx.ok(f'{fi.qualname}:echoes specifier', ret, f'second element `{s}`', fi)
                continue
            if isinstance(e, ast.Constant) and e.value is None:
                # acceptable only on a branch where the specifier is falsy
                falsy = False
                if cond is not None:
                    lab, test = cond
                    if lab == 'F' and src(test) == spec:
                        falsy = True
                    if lab == 'T' and src(test) == f'not {spec}':
                        falsy = True
                for a in ancestors(ret):
                    if isinstance(a, ast.If):
                        inbody = any(ret is x for st in a.body for x in ast.walk(st))
                        if (src(a.test) == spec and not inbody) or (src(a.test) == f'not {spec}' and inbody):
                            falsy = True
                # ... also after a guard clause `if specifier: return (..., specifier, ...)`: decided on the CFG
                if not falsy and isinstance(ret, ast.stmt):
                    fcfg = CFG(fi.node, m, fi.module)
                    side = sides_with_fact(fcfg, lambda a, tv: not tv and isinstance(a, ast.Name) and a.id == spec)
                    falsy = bool(fcfg.ids(ret)) and set(fcfg.ids(ret)) <= side
                ctx.check(falsy, f'{fi.qualname}:echoes specifier', ret, 'None only where the request had no specifier',
                          f'`{src(tup)}` drops the specifier of the request: the reply to `{action} <spec>` cannot be '
                          'matched by a client that keys pending requests by (reply action, specifier)', fi)
                continue
            if isinstance(e, ast.Name):
                # a local holding the specifier to answer with: every binding is the specifier itself, one of the pieces it was split
                # into, None, or a text put together from those pieces only - not from a name that was LOOKED UP (the attribute name)
                pieces = {spec}
                for x in body_walk(fi.node):
                    if isinstance(x, ast.Assign) and len(x.targets) == 1 and isinstance(x.targets[0], ast.Tuple) and isinstance(x.value, ast.Call) \
                            and call_attr(x.value) in ('split', 'partition', 'rpartition') and src(x.value.func.value) == spec:
                        pieces |= {t.id for t in x.targets[0].elts if isinstance(t, ast.Name)}
                binds = [x.value for x in body_walk(fi.node) if isinstance(x, ast.Assign) and any(isinstance(t, ast.Name) and t.id == e.id for t in x.targets)]
                foreign = []
                known = bool(binds)
                for v in binds:
                    if isinstance(v, ast.Constant) and v.value is None:
                        continue
                    if isinstance(v, ast.Name):
                        known = known and v.id in pieces
                        continue
                    if isinstance(v, (ast.JoinedStr, ast.BinOp)):
                        foreign += [n_.id for n_ in ast.walk(v) if isinstance(n_, ast.Name) and n_.id not in pieces]
                        continue
                    known = False
                if foreign:
                    ctx.bad(f'{fi.qualname}:echoes specifier', ret, f'the reply carries `{s}`, which is put together with `{foreign[0]}` - a name that was not taken from the '
                            f'request\'s specifier (an attribute name looked up for it): for an accessible exported under another name the reply to `{action} mod:_x` '
                            'names `mod:x`, and the client can not match it', fi)
                    continue
                if known:
                    ctx.ok(f'{fi.qualname}:echoes specifier', ret, f'`{s}` is the specifier, or put together from the pieces it was split into', fi)
                    continue
            ctx.undecided(f'{fi.qualname}:echoes specifier', ret, f'second element `{s}` not recognised', fi)


@rule('C07.R6', min_instances=1)
def strict_json(ctx):
    """json.dumps producing wire bytes must not be able to emit NaN/Infinity: allow_nan=False at the encoder, or the
    float datatypes reject NaN"""
    m = ctx.m
    enc = m.func(f'{IFACE}.encode_msg_frame')
    ctx.analysed(enc)
    fr = m.method('frappy.datatypes.FloatRange', '__call__', inherited=False)
    rejects_nan = False
    for n in body_walk(fr.node):
        if isinstance(n, ast.Call) and call_name(n) in ('math.isnan', 'isnan', 'math.isfinite', 'isfinite'):
            rejects_nan = True
        if isinstance(n, ast.Compare) and len(n.ops) == 1 and isinstance(n.ops[0], ast.NotEq) and src(n.left) == src(n.comparators[0]):
            rejects_nan = True
    for c in calls_in(enc.node):
        if call_name(c) == 'json.dumps':
            an = kwarg(c, 'allow_nan')
            strict = isinstance(an, ast.Constant) and an.value is False
            ctx.check(strict or rejects_nan, f'{enc.qualname}:json.dumps allow_nan', c,
                      'NaN/Infinity can not be emitted', 'json.dumps is called with the default allow_nan=True and '
                      'FloatRange.__call__ lets NaN through (clamp(-max, nan, max) is nan): a driver returning nan puts '
                      'the token NaN on the wire, which is not JSON', enc)


SAFE_ERRORS = {'replace', 'ignore', 'backslashreplace', 'xmlcharrefreplace', 'namereplace'}


@rule('C07.R1b', min_instances=1)
def decode_error_echo_is_total(ctx):
    """the raw bytes echoed in the DecodeError reply are decoded with a total codec whose result can be encoded as UTF-8 again"""
    m = ctx.m
    h = _handle(m)
    ctx.analysed(h)
    n = 0
    for hd in [x for x in body_walk(h.node) if isinstance(x, ast.ExceptHandler) and x.type is not None and dotted(x.type) == 'DecodeError']:
        for c in [c for st in hd.body for c in calls_in(st) if call_attr(c) == 'decode']:
            n += 1
            codec = c.args[0].value.lower().replace('_', '-') if c.args and isinstance(c.args[0], ast.Constant) else None
            errors = c.args[1] if len(c.args) > 1 else kwarg(c, 'errors')
            errors = errors.value if isinstance(errors, ast.Constant) else ('strict' if errors is None else None)
            construct = f'{h.qualname}:raw message decoded with a total codec'
            if codec in ('latin-1', 'latin1', 'iso-8859-1', 'iso8859-1') or (codec in ('utf-8', 'utf8', 'ascii') and errors in SAFE_ERRORS):
                ctx.ok(construct, c, f'decode({codec!r}, errors={errors!r}) never fails and yields UTF-8 encodable text', h)
            elif errors in ('surrogateescape', 'surrogatepass') or (codec in ('utf-8', 'utf8', 'ascii') and errors == 'strict'):
                ctx.bad(construct, c, f'`{src(c)}` in the DecodeError branch ' +
                        ('produces lone surrogates, which encode_msg_frame can not encode: ' if errors != 'strict' else 'raises for undecodable bytes: ') +
                        'a request line with an invalid UTF-8 byte in action or specifier terminates the connection handler instead of '
                        'being answered with an error reply', h)
            else:
                ctx.undecided(construct, c, f'codec {codec!r} / errors {errors!r} not in the table', h)
    if not n:
        raise AnchorMissing('decode of the raw message in the DecodeError branch not found')


@rule('C07.R3b', min_instances=1)
def deframer_has_no_other_early_out(ctx):
    """TCP next_message: `return None` (no complete line yet) only after get_msg() said so"""
    m = ctx.m
    nm = m.method(TCPH, 'next_message', inherited=False)
    ctx.analysed(nm)
    cfg = CFG(nm.node, m, nm.module)
    gm = [i for c in calls_in(nm.node) if call_name(c) == 'get_msg' for i in cfg.node_of(c)]
    if not gm:
        # another de-framing design (lines cut when the bytes arrive): C07.R3 decides conservation and separator for it
        ctx.undecided(f'{nm.qualname}:no message only when get_msg found none', nm.node, 'next_message does not call get_msg', nm)
        return
    rets = [n for n in body_walk(nm.node) if isinstance(n, ast.Return) and (n.value is None or (isinstance(n.value, ast.Constant) and n.value.value is None))]
    for r in rets:
        guards = [src(a.test) for a in ancestors(r) if isinstance(a, ast.If)]
        # the return lies only where a test established `<message> is None` (an enclosing if, or the code after an if whose
        # body returns)
        none_side = sides_with_fact(cfg, lambda a, tv: isinstance(a, ast.Compare) and len(a.ops) == 1 and isinstance(a.comparators[0], ast.Constant)
                                    and a.comparators[0].value is None and ((isinstance(a.ops[0], ast.Is) and tv) or (isinstance(a.ops[0], ast.IsNot) and not tv)))
        ok = all(cfg.dominates(gm, i) for i in cfg.ids(r)) and set(cfg.ids(r)) <= none_side
        ctx.check(ok, f'{nm.qualname}:no message only when get_msg found none', r, 'return None is dominated by get_msg() and guarded by `message is None`',
                  f'`return None` under {guards or "no condition"} is not decided by get_msg(): complete lines that are already in the buffer '
                  'stay unanswered for some segmentations of the byte stream', nm)
    if not rets:
        ctx.undecided(f'{nm.qualname}:no message only when get_msg found none', nm.node, 'no return None', nm)
    # ingest must do nothing but append
    ing = m.method(TCPH, 'ingest', inherited=False)
    extra = [st for st in ing.node.body if not isinstance(st, (ast.AugAssign, ast.Expr)) and not (isinstance(st, ast.Assign) and src(st.targets[0]) == 'self.data')]
    ctx.check(not extra, f'{ing.qualname}:only appends', ing.node, 'ingest only appends to the buffer',
              f'ingest keeps additional framing state (`{src(extra[0]) if extra else ""}`): the framing depends on how the stream was segmented', ing)


@rule('C07.R2c', min_instances=1)
def no_request_reaches_a_handler_without_reply(ctx):
    """a dispatcher handler that returns no reply triple (handle_help) must be unreachable: the interface intercepts every
    request with that action, i.e. its test looks at the action (msg[0]) alone"""
    m = ctx.m
    prefix, handlers = roles.dispatch_handlers(m)
    silent = []
    for action, fi in handlers.items():
        cfg = CFG(fi.node, m, fi.module)
        falls_off = any(not isinstance(cfg.nodes[a].ast, ast.Return) and a in cfg.live_nodes() for a, lab in cfg.pred[cfg.exit])
        bare = any(isinstance(n, ast.Return) and n.value is None for n in body_walk(fi.node))
        if falls_off or bare:
            silent.append(action)
    h = _handle(m)
    ctx.analysed(h)
    for action in sorted(silent):
        tests = [n for n in body_walk(h.node) if isinstance(n, ast.If) and any(call_attr(c) == f'handle_{action}' for st in n.body + n.orelse for c in calls_in(st))
                 and not any(isinstance(x, ast.If) and x is not n and any(call_attr(c) == f'handle_{action}' for st in x.body + x.orelse for c in calls_in(st))
                             for st in n.body + n.orelse for x in ast.walk(st))]
        construct = f'{h.qualname}:every {action!r} request is answered by the interface'
        if not tests:
            ctx.bad(construct, h.node, f'Dispatcher.handle_{action} returns no reply triple and the interface does not intercept {action!r} requests', h)
            continue
        for t in tests:
            c = t.test
            ok = isinstance(c, ast.Compare) and len(c.ops) == 1 and isinstance(c.ops[0], (ast.Eq, ast.NotEq)) and 'msg[0]' in (src(c.left), src(c.comparators[0]))
            ctx.check(ok, construct, t, f'`{src(c)}` looks at the action only',
                      f'`{src(c)}` does not intercept every request whose action is {action!r}: a {action} line with a specifier or data reaches '
                      f'Dispatcher.handle_{action}, which returns None, and `result[0]` then raises outside every try - the connection handler ends', h)


SURROGATE_SAFE = {'surrogatepass', 'backslashreplace', 'replace', 'ignore', 'xmlcharrefreplace', 'namereplace'}


def json_text_is_encodable(ctx, f, sink):
    """json text that is later written with a strict UTF-8 codec must be produced with ensure_ascii left at its default:
    json.loads accepts an unpaired surrogate escape ("\\ud83d") and yields a str with a lone surrogate; with
    ensure_ascii=False json.dumps hands it through and the strict encoder raises UnicodeEncodeError"""
    n = 0
    for c in calls_in(f.node):
        if call_name(c) not in ('json.dumps', 'json.dump'):
            continue
        n += 1
        ea = kwarg(c, 'ensure_ascii')
        ascii_only = ea is None or (isinstance(ea, ast.Constant) and ea.value is True)
        safe_sink = False
        for e in calls_in(f.node):
            if call_attr(e) == 'encode' or (isinstance(e.func, ast.Name) and e.func.id == 'open'):
                errors = kwarg(e, 'errors') or (e.args[1] if call_attr(e) == 'encode' and len(e.args) > 1 else None)
                if isinstance(errors, ast.Constant) and errors.value in SURROGATE_SAFE:
                    safe_sink = True
        ctx.check(ascii_only or safe_sink, f'{f.qualname}:json text survives the strict UTF-8 {sink}', c,
                  'ensure_ascii is left at its default (every non-ASCII character, lone surrogates included, is written as an escape)',
                  f'`{src(c)}` hands non-ASCII characters through unescaped and the {sink} encodes with the strict UTF-8 codec: a string value '
                  'holding an unpaired surrogate (a client may send "\\\\ud83d", which json.loads accepts) raises UnicodeEncodeError '
                  f'in the {sink}', f)
    return n


@rule('C07.R6b', min_instances=1)
def reply_text_is_encodable(ctx):
    """encode_msg_frame: the json text of a reply can always be encoded (ensure_ascii stays at its default, or the encoder
    has an error handler): the encode runs outside any handler, an exception there ends the connection handler"""
    m = ctx.m
    n = 0
    for q in (f'{IFACE}.encode_msg_frame', f'{IFACE}.ws.encode_msg_frame'):
        try:
            f = m.func(q)
        except AnchorMissing:
            continue
        ctx.analysed(f)
        n += json_text_is_encodable(ctx, f, 'frame encoder')
    if not n:
        raise AnchorMissing('json.dumps in encode_msg_frame not found')



@rule('C07.R6c', min_instances=1)
def encoder_does_not_fail_for_a_float_the_cache_can_hold(ctx):
    """the frame encoders run OUTSIDE the try of send_reply (and outside any handler of the broadcast loop): with
    `allow_nan=False` json.dumps raises ValueError for NaN / Infinity - values FloatRange lets through today (see the C07.R6
    finding) - and the exception travels through broadcast_event into announceUpdate: the value is cached, no listener gets
    the update, and the listeners after the first one are starved.  Either the encoder keeps json's default, or every
    encoder call lies in a handler that contains the ValueError"""
    m = ctx.m
    n = 0
    for q, f in sorted(m.functions.items()):
        if not f.module.name.startswith(IFACE) or not f.name.startswith('encode_msg_frame') or f.parent is not None:
            continue
        for c in calls_in(f.node):
            if call_name(c) not in ('json.dumps',):
                continue
            n += 1
            ctx.analysed(f)
            an = kwarg(c, 'allow_nan')
            strict = isinstance(an, ast.Constant) and an.value is False
            if not strict:
                ctx.ok(f'{f.qualname}:encoder accepts every float the cache can hold', c, 'allow_nan left at its default: json.dumps never raises for a float', f)
                continue
            users = [(g, u) for g in m.functions.values() if g.module.name.startswith('frappy.protocol') for u in calls_in(g.node)
                     if (call_name(u) or '').split('.')[-1] == f.name]
            loose = []
            for g, u in users:
                contained = any(part == 'body' and any((handler_catches_all(h) or 'ValueError' in (handler_type_names(h) or [])) and not handler_reraises(h) for h in t.handlers)
                                for t, part in enclosing_tries(u))
                if not contained:
                    loose.append((g, u))
            ctx.check(not loose, f'{f.qualname}:encoder accepts every float the cache can hold', c, 'every encoder call is inside a handler for ValueError',
                      f'`{src(c)}` raises ValueError for NaN / Infinity and `{src(loose[0][1]) if loose else ""}` in {loose[0][0].qualname if loose else ""} runs outside any '
                      'handler: a driver value of NaN (accepted by FloatRange) is cached but never sent, the exception escapes through broadcast_event into '
                      'announceUpdate and every listener after the first is starved - the update stream no longer reconstructs the cache', f)
    if not n:
        raise AnchorMissing('json.dumps in the frame encoders not found')


@rule('C07.R5c', min_instances=8)
def every_handler_returns_its_reply(ctx):
    """every request handler of the dispatcher (handle_<action> for the actions of REQUEST2REPLY, handle__ident) and
    handle_request itself return a reply triple on EVERY normal exit - a handler that falls off its end returns None, the
    interface logs 'empty result' and the request line stays unanswered"""
    m = ctx.m
    table = _reply_table(m)
    names = {f'handle_{a}' for a in table} | {'handle__ident', 'handle_request'}
    ci = m.cls(D) if 'D' in globals() else m.cls('frappy.protocol.dispatcher.Dispatcher')
    for name in sorted(names):
        f = ci.methods.get(name)
        if f is None:
            continue
        if name == 'handle_help':
            continue      # never reached (C07.R2c)
        ctx.analysed(f)
        cfg = CFG(f.node, m, f.module)
        def good(r):
            v = r.value
            return isinstance(v, (ast.Tuple, ast.Call, ast.Name)) or (isinstance(v, ast.IfExp) and isinstance(v.body, ast.Tuple) and isinstance(v.orelse, ast.Tuple))
        bad = [f.node] if can_end_without_value(cfg, f.node, good) else []
        ctx.check(not bad, f'{f.qualname}:returns a reply on every normal exit', f.node,
                  'all normal exits return a triple',
                  f'{name} can end without returning a reply triple: the request gets no reply line', f)


@rule('C07.R3c', min_instances=3)
def deframer_and_loop_polarity(ctx):
    """polarity of the three tests the one-reply-per-line argument rests on: get_msg returns (None, input) exactly when there is
    no EOL in the buffer; the handler ingests exactly the receptions that brought data; the message loop is left exactly when
    next_message() says there is no complete line"""
    m = ctx.m
    gm = m.func(f'{IFACE}.get_msg')
    ctx.analysed(gm)
    cfg = CFG(gm.node, m, gm.module)
    p = gm.node.args.args[0].arg
    for t in cfg.nodes:
        if t.kind != 'test':
            continue
        for l, op, r in compare_ops(t.ast):
            if l == 'EOL' and r == p and op in ('in', 'notin'):
                none_side = 'T' if op == 'notin' else 'F'
                nones = {i for n in body_walk(gm.node) if isinstance(n, ast.Return) and isinstance(n.value, ast.Tuple) and n.value.elts and
                         isinstance(n.value.elts[0], ast.Constant) and n.value.elts[0].value is None for i in cfg.ids(n)}
                splits = {i for n in body_walk(gm.node) if isinstance(n, ast.Return) and n.value is not None and 'split' in src(n.value) for i in cfg.ids(n)}
                on = cfg.reach([t.id], labels={none_side}, avoid=[t.id])
                off = cfg.reach([t.id], labels={'F' if none_side == 'T' else 'T'}, avoid=[t.id])
                ctx.check(bool(nones) and nones <= on and bool(splits) and splits <= off and not (splits & on - off), f'{gm.qualname}:no EOL means no message', t.ast,
                          '(None, input) without EOL, the split otherwise',
                          f'`{src(t.ast)}`: the buffer is split when it holds no EOL (an incomplete line is handed on as a message) and complete lines are held back', gm)
    h = _handle(m)
    ctx.analysed(h)
    cfgh = CFG(h.node, m, h.module)
    ing = {i for c in calls_in(h.node) if call_attr(c) == 'ingest' for i in cfgh.node_of(c)}
    if not ing:
        for c in calls_in(h.node):
            if isinstance(c.func, ast.Attribute) and dotted(c.func.value) == 'self' and h.cls is not None and c.func.attr in h.cls.methods \
                    and any(call_attr(x) == 'ingest' for x in calls_in(h.cls.methods[c.func.attr].node)):
                raise AnchorMissing(f'handle() leaves receiving and ingesting to {c.func.attr}(), which is not followed')
        ctx.bad(f'{h.qualname}:received data is ingested', h.node, 'handle() never calls ingest(): no request line ever reaches the de-framer', h)
    loop = _inner_loop(h)
    nm = {i for c in calls_in(loop) if call_attr(c) == 'next_message' for i in cfgh.node_of(c)}
    for t in cfgh.nodes:
        if t.kind != 'test':
            continue
        for l, op, r in compare_ops(t.ast):
            if op in ('is', 'isnot') and r == 'None':
                none_side = 'T' if op == 'is' else 'F'
                other = 'F' if none_side == 'T' else 'T'
                defs = [v for v, st, how in local_assigns(h.node, l) if v is not None] if l.isidentifier() else []
                if any(isinstance(v, ast.Call) and call_attr(v) == 'receive' for v in defs) and ing:
                    outer = [a for a in ancestors(loop) if isinstance(a, ast.While)]
                    heads = list(cfgh.ids(loop.test)) + [i for a in outer for i in cfgh.ids(a.test)]
                    if not (ing & cfgh.reach([t.id], avoid=[t.id] + heads)):
                        continue        # a test behind the ingest (of the same round): it decides something else
                    ok = ing <= cfgh.reach([t.id], labels={other}, avoid=[t.id]) and not (ing & cfgh.reach([t.id], labels={none_side}, avoid=[t.id] + list(cfgh.ids(loop.test))))
                    ctx.check(ok, f'{h.qualname}:data is ingested when there is data', t.ast, 'ingest on the not-None side',
                              f'`{src(t.ast)}`: ingest() runs only when receive() returned nothing', h)
                if any(isinstance(v, ast.Call) and call_attr(v) == 'next_message' for v in defs):
                    brk = {i for n in walk_local(loop) if isinstance(n, ast.Break) for i in cfgh.ids(n)}
                    on = cfgh.reach([t.id], labels={none_side}, avoid=[t.id])
                    sends = {i for c in calls_in(loop) if call_attr(c) == 'send_reply' for i in cfgh.node_of(c)}
                    reach_other = cfgh.reach([t.id], labels={other}, avoid=[t.id] + list(nm))
                    ok = bool(brk & on) and bool(sends & reach_other)
                    ctx.check(ok, f'{h.qualname}:the message loop ends when there is no complete line', t.ast, 'break on the None side, dispatch on the other',
                              f'`{src(t.ast)}`: the loop is left when a message IS there (it is dropped) and goes on to dispatch None', h)


@rule('C07.R1c', min_instances=1)
def undecodable_line_is_reported_not_dropped(ctx):
    """next_message: a line that can not be decoded leaves as DecodeError (carrying the raw line, so that handle() can answer
    with an error reply) - a handler that swallows the exception makes next_message return None, which the loop reads as "no
    complete line yet": the request gets no reply"""
    m = ctx.m
    n = 0
    for q in m.subclasses(roles.HANDLER):
        ci = m.classes[q]
        f = ci.methods.get('next_message')
        if f is None:
            continue
        for h in [x for x in body_walk(f.node) if isinstance(x, ast.ExceptHandler)]:
            n += 1
            ctx.analysed(f)
            last = h.body[-1] if h.body else None
            ok = isinstance(last, ast.Raise) and last.exc is not None and 'DecodeError' in src(last.exc) and 'raw_msg' in src(last.exc)
            ctx.check(ok, f'{f.qualname}:decode failure leaves as DecodeError', h, 'raise DecodeError(..., raw_msg=...)',
                      'the handler of next_message does not end in `raise DecodeError(..., raw_msg=<line>)`: an undecodable request line is dropped without reply', f)
    if not n:
        raise AnchorMissing('no exception handler in any next_message')


@rule('C07.R3d', min_instances=1)
def a_position_is_not_tested_by_its_truth(ctx):
    """de-framing: where the end of a line is located by position (`data.find(EOL)`), position 0 - an empty line in front of the
    buffer - is a line like any other: "no line yet" is asked by comparison (`< 0`, `== -1`, `is None` of a helper result),
    never by the truth value of the position.  Taken for "nothing there", the empty line is never consumed: it gets no reply
    and every later request of the connection stays in the buffer behind it"""
    m = ctx.m
    n = 0
    for q, fi in sorted(m.functions.items()):
        if fi.module.name != IFACE and not fi.module.name.startswith(IFACE + '.'):
            continue
        positions = set()
        for a in [x for x in body_walk(fi.node) if isinstance(x, ast.Assign) and len(x.targets) == 1 and isinstance(x.targets[0], ast.Name)]:
            v = a.value
            finds = isinstance(v, ast.Call) and call_attr(v) in ('find', 'index', 'rfind')
            if isinstance(v, ast.Call) and isinstance(v.func, ast.Name):
                h = m.functions.get(f'{fi.module.name}.{v.func.id}')
                if h is not None and any(isinstance(r.value, ast.Call) and call_attr(r.value) in ('find', 'index', 'rfind') or
                                         (isinstance(r.value, ast.Name) and any(isinstance(d, ast.Call) and call_attr(d) in ('find', 'index', 'rfind')
                                                                                for d, st, how in local_assigns(h.node, r.value.id) if d is not None))
                                         for r in body_walk(h.node) if isinstance(r, ast.Return) and r.value is not None):
                    finds = True
            if finds:
                positions.add(a.targets[0].id)
        if not positions:
            continue
        for _ in range(3):      # locals a position is handed on to (`end = pos` on one branch, `end = None` on the other)
            positions |= {x.targets[0].id for x in body_walk(fi.node) if isinstance(x, ast.Assign) and len(x.targets) == 1 and isinstance(x.targets[0], ast.Name)
                          and ((isinstance(x.value, ast.Name) and x.value.id in positions) or
                               (isinstance(x.value, ast.IfExp) and any(isinstance(y, ast.Name) and y.id in positions for y in (x.value.body, x.value.orelse))))}
        ctx.analysed(fi)
        cfg = CFG(fi.node, m, fi.module)
        for t in cfg.nodes:
            if t.kind != 'test' or isinstance(t.ast, ast.stmt):
                continue
            for atom, tv in facts_on_side(t.ast, True) + facts_on_side(t.ast, False):
                if isinstance(atom, ast.Name) and atom.id in positions:
                    n += 1
                    ctx.bad(f'{fi.qualname}:the position of the line end is compared, not truth tested', t.ast,
                            f'`{src(t.ast)}` takes position 0 (an empty line at the front of the buffer, `\\n` alone) for "no complete line": that line is never consumed, '
                            'it gets no reply and every later request on the connection stays unanswered behind it', fi)
        n += 1
        ctx.ok(f'{fi.qualname}:positions used', fi.node, f'{sorted(positions)} compared / used as index', fi)
    if not n:
        ctx.ok('lines are cut by split / partition', None, 'no position arithmetic in the de-framer')


@rule('C07.R10', min_instances=1)
def interpolated_text_is_never_a_format_string(ctx):
    """the error path of RequestHandler.handle formats the stack with frappy.lib.formatExtendedStack / formatExtendedTraceback,
    INSIDE its except clauses, with the repr of every local - request text included.  An f-string with interpolated values used
    as the left operand of `%` (`f'%-20s = {shortrepr(value)}' % key`, a half converted format) makes that text part of the
    format: one `%` in a request line raises TypeError / ValueError out of the handler, the connection handler ends and neither
    this line nor the following ones get a reply"""
    m = ctx.m
    n = 0
    hits = []
    for q, fi in sorted(m.functions.items()):
        if not (fi.module.name in ('frappy.lib', 'frappy.errors') or fi.module.name.startswith('frappy.protocol')):
            continue
        n += 1
        for x in body_walk(fi.node, into_lambda=True):
            if isinstance(x, ast.BinOp) and isinstance(x.op, ast.Mod) and isinstance(x.left, ast.JoinedStr) and any(isinstance(v, ast.FormattedValue) for v in x.left.values):
                ctx.analysed(fi)
                hits.append((fi, x))
    for fi, x in hits:
        ctx.bad(f'{fi.qualname}:interpolated text is not used as a format string', x,
                f'`{src(x)[:100]}`: the interpolated value becomes part of the %-format; a `%` in it (any request text ends up in the locals that are printed) raises from inside the '
                'error path of the request handler', fi)
    if not hits:
        ctx.ok('frappy.lib / frappy.protocol:interpolated text is not used as a format string', None, f'{n} functions scanned, no f-string with interpolations on the left of `%`')
    if n < 20:
        raise AnchorMissing('functions of frappy.lib / frappy.protocol not found')
