"""C19 - discovery responder: bounded well-formed answers, unkillable by datagrams"""
from sa.core import rule, prop_info
from sa.lib import *  # noqa: F401,F403
from sa.lib import (covering_handler, handler_leaves_loop_or_raises, short_circuit_facts, membership_facts,
                    compare_ops, py_exc, func_calls, origins)
from sa.model import AnchorMissing
from sa.typestate import forward, isinstance_facts

UDP = 'frappy.protocol.discovery.UDPListener'
RECV = ('recvfrom', 'recvfrom_into', 'recv', 'recv_into')

prop_info(
    'C19',
    'Decided: R1 every operation of the receive loop on the datagram-derived value (decode, json.loads, membership '
    'test, subscript, method call) is applied to a kind-checked value or lies inside a handler that covers its '
    'may-raise set and neither leaves the loop nor re-raises; R2 the bytes measured for the length budget and the '
    'bytes sent come from one builder that encodes UTF-8 JSON of an object with the identity keys; R3 an answer is '
    'sent only on the branch where the request is a discovery request; R4 the listener is built from the interfaces '
    'that were really opened, after the wait for interface start; R5 every sendto is dominated by the enabled test.',
    assumptions=['json.loads RecursionError needs thousands of nesting levels, which a 1 kB datagram cannot carry'],
    not_decided='the 508 byte bound and the character-boundary cut (arithmetic on encoded lengths).')


def _run(m):
    return m.method(UDP, 'run', inherited=False)


def _loop(run):
    for n in body_walk(run.node):
        if isinstance(n, ast.While) and any(call_attr(c) in RECV for c in calls_in(n)):
            return n
    raise AnchorMissing('receive loop (while ... recvfrom) not found in UDPListener.run')


def _contained(node, classes, module, loop):
    h = covering_handler(node, classes, module, stop=loop)
    if h is None:
        return False, 'no enclosing handler covers ' + '/'.join(c.__name__ for c in classes)
    if handler_leaves_loop_or_raises(h):
        return False, 'the covering handler leaves the loop (return/break/raise): the responder stops answering'
    return True, 'covered by a handler that continues the loop'


@rule('C19.R1', min_instances=3)
def unkillable_loop(ctx):
    """typestate RAW/DICT of the json.loads result plus containment of decode / loads"""
    m = ctx.m
    run = _run(m)
    loop = _loop(run)
    ctx.analysed(run)
    mod = run.module
    # decode + loads containment
    for c in calls_in(loop):
        if call_attr(c) == 'decode':
            ok, why = _contained(c, [UnicodeDecodeError], mod, loop)
            ctx.check(ok, f'{run.qualname}:decode of datagram contained', c, why,
                      f'`{src(c)}`: {why} - a datagram with invalid UTF-8 ends the responder thread', run)
        if call_name(c) in ('json.loads',):
            import json
            ok, why = _contained(c, [json.JSONDecodeError], mod, loop)
            ctx.check(ok, f'{run.qualname}:json.loads of datagram contained', c, why,
                      f'`{src(c)}`: {why} - a datagram that is not JSON ends the responder thread', run)
    # holder of the parsed request
    holders = set()
    for n in walk_local(loop):
        if isinstance(n, ast.Assign) and any(call_name(c) == 'json.loads' for c in calls_in(n.value)):
            holders.update(t.id for t in n.targets if isinstance(t, ast.Name))
    if not holders:
        ctx.undecided(f'{run.qualname}:parsed request', loop, 'json.loads result is not bound to a local name', run)
        return
    cfg = CFG(run.node, m, mod)

    def transfer(node, state):
        a = node.ast
        if isinstance(a, ast.Assign):
            for t in a.targets:
                if isinstance(t, ast.Name) and t.id in holders:
                    state[t.id] = 'RAW'
        return state

    def edge(node, label, sin, sout):
        if label == 'exc':
            return sin
        if node.kind == 'test' and label in 'TF':
            s = dict(sout)
            for e, kinds, isinst in isinstance_facts(node.ast, positive=(label == 'T')):
                if e in holders and isinst and set(kinds) <= {'dict'}:
                    s[e] = 'DICT'
            return s
        return sout

    ins, outs = forward(cfg, {}, transfer, edge, join=lambda a, b: 'RAW' if 'RAW' in (a, b) else a)
    nuse = 0
    for node in cfg.stmt_nodes():
        if node.id not in ins or node.kind in ('for', 'with', 'handler'):
            continue
        for n in walk_local(node.ast):
            if not (isinstance(n, ast.Name) and n.id in holders and isinstance(n.ctx, ast.Load)):
                continue
            par = getattr(n, 'parent', None)
            state = ins[node.id].get(n.id, 'RAW')
            # facts from short-circuit evaluation inside the same expression
            for e, kinds, isinst in short_circuit_facts(n):
                if e == n.id and isinst and set(kinds) <= {'dict'}:
                    state = 'DICT'
            use = None
            needs = []
            if isinstance(par, ast.Call) and dotted(par.func) == 'isinstance':
                continue   # the guard itself
            if isinstance(par, ast.Compare) and n in par.comparators and any(isinstance(o, (ast.In, ast.NotIn)) for o in par.ops):
                use, needs = 'membership test', ([] if state == 'DICT' else [TypeError])
            elif isinstance(par, ast.Subscript) and par.value is n:
                use = 'subscript'
                needs = [] if state == 'DICT' else [TypeError]
                key = src(par.slice)
                has_key = any(k == key and c == n.id and p for k, c, p in membership_facts(par))
                if not has_key:
                    needs = needs + [KeyError]
            elif isinstance(par, ast.Attribute) and par.value is n:
                use, needs = f'attribute .{par.attr}', ([] if state == 'DICT' else [AttributeError])
            elif isinstance(par, ast.Compare) and par.left is n or isinstance(par, (ast.BoolOp, ast.UnaryOp, ast.If, ast.While)):
                continue   # truth value / equality: total on every JSON kind
            else:
                continue
            nuse += 1
            if not needs:
                ctx.ok(f'{run.qualname}:{use} on request', n, f'request is known to be a dict here ({use})', run)
                continue
            ok, why = _contained(par, needs, mod, loop)
            ctx.check(ok, f'{run.qualname}:{use} on request', n, why,
                      f'`{src(par)}` on the unchecked JSON value ({state}): {why} - a datagram like b"5", b"null" or '
                      'b\'"x"\' raises ' + '/'.join(c.__name__ for c in needs) + ' and ends the responder thread', run)
    # values taken out of the request are RAW JSON values: hashing them (membership in a set / dict) fails for lists and objects
    for n in walk_local(loop):
        if isinstance(n, ast.Compare) and any(isinstance(o, (ast.In, ast.NotIn)) for o in n.ops) and \
                any(isinstance(x, ast.Name) and x.id in holders for x in ast.walk(n.left)) and not (isinstance(n.left, ast.Name) and n.left.id in holders):
            comp = n.comparators[0]
            hashed = isinstance(comp, (ast.Set, ast.Dict, ast.SetComp, ast.DictComp)) or (isinstance(comp, ast.Call) and dotted(comp.func) in ('set', 'frozenset', 'dict'))
            if isinstance(comp, ast.Name):
                e = mod.consts.get(comp.id)
                hashed = e is None or isinstance(e, (ast.Set, ast.Dict)) or (isinstance(e, ast.Call) and dotted(e.func) in ('set', 'frozenset', 'dict'))
                if isinstance(e, (ast.Tuple, ast.List)):
                    hashed = False
            nuse += 1
            if not hashed:
                ctx.ok(f'{run.qualname}:membership of a request value', n, 'compared by equality against a tuple / list', run)
                continue
            ok, why = _contained(n, [TypeError], mod, loop)
            ctx.check(ok, f'{run.qualname}:membership of a request value', n, why,
                      f'`{src(n)}` hashes a value taken from the datagram: {why} - a request like {{"SECoP": ["discover"]}} raises TypeError '
                      '(unhashable type) and ends the responder thread', run)
    if not nuse:
        ctx.undecided(f'{run.qualname}:uses of request', loop, 'no use of the parsed request recognised', run)


@rule('C19.R2', min_instances=2)
def one_builder(ctx):
    """all sendto payloads and the length budget come from the same builder; the builder returns
    json.dumps(<dict with identity keys>).encode('utf-8')"""
    m = ctx.m
    ci = m.cls(UDP)
    builders = set()
    def with_nested(fi):
        yield fi
        for lst in fi.nested.values():
            for nf in lst:
                yield from with_nested(nf)
    for fi in [g for meth in ci.methods.values() for g in with_nested(meth)]:      # (local functions of the methods included)
        for c in calls_in(fi.node):
            if call_attr(c) == 'sendto' and c.args and dotted(c.func.value) != 'self':
                ctx.analysed(fi)
                o = origins(c.args[0], fi.node)
                ok = all(isinstance(x, ast.Call) and isinstance(x.func, ast.Attribute) and dotted(x.func.value) == 'self' for x in o)
                if ok:
                    builders.update(x.func.attr for x in o)
                ctx.check(ok, f'{fi.qualname}:sendto payload from builder', c, 'payload is built by a method of the listener',
                          f'payload `{src(c.args[0])}` is not produced by the message builder', fi)
    init = m.method(UDP, '__init__', inherited=False)
    budget = [c for c in calls_in(init.node) if dotted(c.func) == 'len' and c.args and isinstance(c.args[0], ast.Call)
              and isinstance(c.args[0].func, ast.Attribute) and dotted(c.args[0].func.value) == 'self']
    if not budget or not builders:
        raise AnchorMissing('length budget len(self.<builder>(...)) or sendto payloads not found', violation='frappy.protocol.discovery.UDPListener.__init__:budget uses the builder that is sent')
    for c in budget:
        b = c.args[0].func.attr
        ctx.check(b in builders, f'{init.qualname}:budget uses the builder that is sent', c,
                  f'budget and payload both come from {b}', f'budget is computed from {b}, payloads from {sorted(builders)}', init)
        # the budget must be measured with the widest possible port
        a = c.args[0].args[0] if c.args[0].args else None
        v = m.const(init.module, a) if a is not None else None
        if isinstance(a, ast.BinOp):
            try:
                v = eval(compile(ast.Expression(a), '<const>', 'eval'), {'__builtins__': {}})   # arithmetic on literals only
            except Exception:
                v = None
        construct = f'{init.qualname}:budget measured with the widest port'
        if isinstance(v, int) and v >= 10000:
            ctx.ok(construct, c, f'measured with port {v} (5 digits)', init)
        elif a is not None and any('self.ports' in src(o) for o in origins(a, init.node)) and not (isinstance(a, ast.Call) and dotted(a.func) == 'max'):
            ctx.bad(construct, c, f'the length budget is measured with `{src(a)}` (one of the configured ports): with several tcp interfaces a later port '
                    'with more digits makes the announcement longer than the 508 byte budget the description was truncated for', init)
        else:
            ctx.undecided(construct, c, f'port argument `{src(a) if a is not None else None}` not recognised', init)
    for b in sorted(builders):
        fi = m.method(UDP, b, inherited=False)
        ctx.analysed(fi)
        rets = [n for n in body_walk(fi.node) if isinstance(n, ast.Return) and n.value is not None]
        ok = bool(rets)
        keys = set()
        for r in rets:
            v = r.value
            if not (isinstance(v, ast.Call) and call_attr(v) == 'encode' and v.args and
                    isinstance(v.args[0], ast.Constant) and str(v.args[0].value).lower().replace('-', '') == 'utf8'):
                ok = False
                continue
            inner = v.func.value
            if not (isinstance(inner, ast.Call) and call_name(inner) == 'json.dumps' and inner.args and isinstance(inner.args[0], ast.Dict)):
                ok = False
                continue
            keys |= {k.value for k in inner.args[0].keys if isinstance(k, ast.Constant)}
        need = {'SECoP', 'port', 'equipment_id', 'firmware', 'description'}
        ctx.check(ok and need <= keys, f'{fi.qualname}:utf-8 JSON object with identity keys', fi.node,
                  'builder returns json.dumps({...identity...}).encode("utf-8")',
                  f'builder does not return UTF-8 encoded JSON of an object with keys {sorted(need)} (found {sorted(keys)})', fi)


def _discover_tests(cfg, m=None, run=None):
    res = []
    for n in cfg.nodes:
        if n.kind == 'test' and m is not None and run is not None and run.cls is not None:
            # a predicate helper of the responder: true only for a discover request (every return is False or an and-expression with
            # the comparison `... == 'discover'` in it)
            t = n.ast
            while isinstance(t, ast.UnaryOp) and isinstance(t.op, ast.Not):
                t = t.operand
            if isinstance(t, ast.Call) and isinstance(t.func, ast.Attribute) and dotted(t.func.value) == 'self' and t.func.attr in run.cls.methods:
                h = run.cls.methods[t.func.attr]
                rets = [r.value for r in body_walk(h.node) if isinstance(r, ast.Return)]

                def only_discover(v):
                    if v is None or (isinstance(v, ast.Constant) and not v.value):
                        return True
                    conj = v.values if isinstance(v, ast.BoolOp) and isinstance(v.op, ast.And) else [v]
                    return any(isinstance(x, ast.Compare) and len(x.ops) == 1 and isinstance(x.ops[0], ast.Eq) and
                               "'discover'" in (src(x.left), src(x.comparators[0])) for x in conj)
                if rets and all(only_discover(v) for v in rets) and any(v is not None and not isinstance(v, ast.Constant) for v in rets):
                    res.append((n.id, '=='))
        if n.kind == 'test':
            for l, op, r in [x for sub in ast.walk(n.ast) if isinstance(sub, (ast.Compare, ast.UnaryOp)) for x in compare_ops(sub)]:
                if "'discover'" in (l, r) and op in ('==', '!='):
                    res.append((n.id, op))
    return res


@rule('C19.R3', min_instances=1)
def answer_iff_request(ctx):
    """every sendto of the loop is reachable only through the branch on which the request equals 'discover'"""
    m = ctx.m
    run = _run(m)
    loop = _loop(run)
    ctx.analysed(run)
    cfg = CFG(run.node, m, run.module)
    tests = _discover_tests(cfg, m, run)
    from sa.lib import deep_calls
    sends = [site for c, o, site in deep_calls(m, run, lambda c: call_attr(c) == 'sendto') if any(a is loop for a in ancestors(site))]
    recv = [i for c in calls_in(loop) if call_attr(c) in RECV for i in cfg.node_of(c)]
    # a table driven responder (`self._handlers = {'discover': self._answer}` + lookup by the value of the SECoP key): the
    # answer is selected by a dictionary lookup, not by a comparison - the selection itself is not decided here
    table = [d for fi in m.cls(UDP).methods.values() for d in body_walk(fi.node) if isinstance(d, ast.Dict)
             and any(isinstance(k, ast.Constant) and k.value == 'discover' for k in d.keys)
             and all(isinstance(v, ast.Attribute) and dotted(v.value) == 'self' for v in d.values)]
    if table and not tests:
        ctx.undecided(f'{run.qualname}:answer only to discover requests', table[0], "selected through a handler table keyed by 'discover'", run)
        return
    if not sends:
        raise AnchorMissing('no sendto in the receive loop', violation='frappy.protocol.discovery.UDPListener.run:discover request is answered')
    if not tests:
        for s in sends:
            ctx.bad(f'{run.qualname}:answer only to discover requests', s,
                    'no comparison of the request with \'discover\' found: datagrams are answered unconditionally', run)
        return
    for s in sends:
        sids = set(cfg.node_of(s))
        ok = False
        for tid, op in tests:
            # the test has to be a plain (possibly or-ed / and-ed) comparison; polarity by operator
            disc_label = 'F' if op == '!=' else 'T'
            other = 'T' if disc_label == 'F' else 'F'
            # negation wrappers flip: detect `not (...)` around the whole test
            t = cfg.nodes[tid].ast
            if isinstance(t, ast.UnaryOp) and isinstance(t.op, ast.Not):
                disc_label, other = other, disc_label
            wrong = cfg.reach([tid], avoid=set(recv), labels={other})
            dom = all(cfg.all_paths_pass(recv, [x], [tid]) for x in sids)
            if dom and not (sids & wrong):
                ok = True
        ctx.check(ok, f'{run.qualname}:answer only to discover requests', s,
                  'sendto is reachable from recvfrom only via the is-discover branch',
                  'a path from recvfrom to sendto does not pass the is-discover branch: non-requests are answered '
                  '(or requests are not)', run)
    # and discover requests are answered: from the discover branch a sendto is reachable before the next recvfrom
    for tid, op in tests:
        t = cfg.nodes[tid].ast
        disc_label = 'F' if op == '!=' else 'T'
        if isinstance(t, ast.UnaryOp) and isinstance(t.op, ast.Not):
            disc_label = 'T' if disc_label == 'F' else 'F'
        r = cfg.reach([tid], avoid=set(recv), labels={disc_label})
        allsend = {i for s in sends for i in cfg.node_of(s)}
        ctx.check(bool(r & allsend), f'{run.qualname}:discover request is answered', t,
                  'the is-discover branch reaches sendto', 'the is-discover branch never reaches a sendto', run)


@rule('C19.R4', min_instances=1)
def real_ports(ctx):
    """Server.run constructs the UDPListener from self.interfaces (filled only after a successful bind) and
    after waiting for the interfaces to start"""
    m = ctx.m
    run = m.method('frappy.server.Server', 'run', inherited=False)
    ctx.analysed(run)
    cfg = CFG(run.node, m, run.module)
    ctor = [c for c in calls_in(run.node) if call_name(c) == 'UDPListener']
    if not ctor:
        raise AnchorMissing('UDPListener(...) not constructed in Server.run')
    waits = [i for c in calls_in(run.node) if call_attr(c) == 'wait' and 'interfaces_started' in src(c.func) for i in cfg.node_of(c)]
    for c in ctor:
        ifarg = c.args[2] if len(c.args) > 2 else None
        # read through locals (`started = list(self.interfaces)` ... `list(started)`), flow sensitive: every definition
        # reaching the constructor is a copy of the registry, not the list of configured uris
        ok = False
        if ifarg is not None:
            rd = ReachingDefs(cfg, run.node)
            names = [x for x in ast.walk(ifarg) if isinstance(x, ast.Name) and isinstance(x.ctx, ast.Load) and x.id not in ('list', 'tuple', 'sorted', 'set')]
            if 'self.interfaces' in src(ifarg):
                ok = True
            elif len(names) == 1:
                o = rd.origins_at(c, names[0])
                ok = bool(o) and all('self.interfaces' in src(x) for x in o)
        ctx.check(ok, f'{run.qualname}:listener built from opened interfaces', c,
                  'ports are taken from self.interfaces', f'interface list `{src(ifarg) if ifarg is not None else None}` is not self.interfaces', run)
        started = [x for x in calls_in(run.node) if call_name(x) == 'mkthread' and x.args and 'discovery.run' in src(x.args[0])]
        ctx.check(bool(started), f'{run.qualname}:responder thread is started', c, 'mkthread(self.discovery.run)',
                  'the UDPListener is constructed but its run() is never started: no discovery request is answered', run)
        if waits:
            ctx.check(all(cfg.dominates(waits, i) for i in cfg.node_of(c)), f'{run.qualname}:listener after interface start', c,
                      'constructed after the wait for interface start', 'constructed before the interfaces were started', run)
    it = m.method('frappy.server.Server', '_interfaceThread', inherited=False)
    ctx.analysed(it)
    stores = [n for n in body_walk(it.node) if isinstance(n, ast.Subscript) and isinstance(n.ctx, ast.Store) and src(n.value) == 'self.interfaces']
    for s in stores:
        inside_with = any(isinstance(a, ast.With) and any(isinstance(i.context_expr, ast.Call) for i in a.items) for a in ancestors(s))
        ctx.check(inside_with, f'{it.qualname}:interface registered after bind', s,
                  'self.interfaces[...] is stored inside the with-block of the constructed (bound) interface',
                  'interface registered before it was constructed/bound', it)


@rule('C19.R5', min_instances=2)
def disabled_means_silent(ctx):
    """every sendto of the listener is dominated by a test of self.is_enabled"""
    m = ctx.m
    run = _run(m)
    ctx.analysed(run)
    cfg = CFG(run.node, m, run.module)
    tests = [n.id for n in cfg.nodes if n.kind == 'test' and 'is_enabled' in src(n.ast)]
    from sa.lib import deep_calls
    for c in [site for x, o, site in deep_calls(m, run, lambda c: call_attr(c) == 'sendto')]:
        ok = False
        for t in tests:
            neg = src(cfg.nodes[t].ast).replace(' ', '').startswith('notself.is_enabled')
            lab = 'F' if neg else 'T'
            wrong = cfg.reach([t], labels={'T' if lab == 'F' else 'F'}, avoid=[t])
            ids = set(cfg.node_of(c))
            if all(cfg.dominates([t], i) for i in ids) and not (ids & wrong - cfg.reach([t], labels={lab})):
                ok = True
        inloop = any(isinstance(a, ast.While) for a in ancestors(c))
        ctx.check(ok, f'{run.qualname}:sendto {"in loop" if inloop else "at start-up"} guarded by is_enabled', c,
                  'sendto only when the responder is enabled',
                  'sendto is not dominated by the is_enabled test: a responder that disabled itself (identity alone '
                  'exceeds the 508 byte budget) still sends an over-long announcement', run)


def _disable_tests(init):
    """If statements of __init__ with `self.is_enabled = False` in one branch"""
    res = []
    for n in body_walk(init.node):
        if isinstance(n, ast.If):
            for st in n.body + n.orelse:
                if any(isinstance(x, ast.Assign) and any(isinstance(t, ast.Attribute) and t.attr == 'is_enabled' for t in x.targets)
                       and isinstance(x.value, ast.Constant) and x.value.value is False for x in [st]):
                    res.append(n)
    return res


def _is_measure(c):
    return isinstance(c, ast.Call) and dotted(c.func) == 'len' and c.args and isinstance(c.args[0], ast.Call) and \
        isinstance(c.args[0].func, ast.Attribute) and dotted(c.args[0].func.value) == 'self'


def _feeding_measurements(init, test):
    out = [c for c in ast.walk(test) if _is_measure(c)]
    for nm in [x for x in ast.walk(test) if isinstance(x, ast.Name)]:
        for o in origins(nm, init.node):
            out += [c for c in ast.walk(o) if _is_measure(c)]
    return out


def _disable_measurements(init):
    """measurements that feed ONLY the decision to disable the responder (not the truncation)"""
    feeding = [c for t in _disable_tests(init) for c in _feeding_measurements(init, t.test)]
    slices = [x for x in body_walk(init.node) if isinstance(x, ast.Slice)]
    trunc = []
    for sl in slices:
        for part in (sl.lower, sl.upper):
            if part is None:
                continue
            trunc += [c for c in ast.walk(part) if _is_measure(c)]
            for nm in [x for x in ast.walk(part) if isinstance(x, ast.Name)]:
                for o in origins(nm, init.node):
                    trunc += [c for c in ast.walk(o) if _is_measure(c)]
    return [c for c in feeding if not any(c is x for x in trunc)]


@rule('C19.R7', min_instances=1)
def datagram_is_read_as_utf8_text(ctx):
    """a discovery request is the UTF-8 JSON text {"SECoP": "discover"}: the datagram is decoded with the UTF-8 codec BEFORE the
    JSON parser sees it.  json.loads on the raw bytes guesses the encoding (UTF-16 / UTF-32 in either byte order, UTF-8 with
    BOM) - datagrams that are not valid UTF-8 would be answered"""
    m = ctx.m
    f = m.method(UDP, 'run', inherited=False)
    ctx.analysed(f)
    from sa.lib import deep_calls
    deep = deep_calls(m, f, lambda c: call_name(c) in ('json.loads', 'loads') and c.args)
    if not deep:
        raise AnchorMissing('json.loads of the datagram not found in UDPListener.run', violation=f'{f.qualname}:request parsed as JSON')
    for c, owner, site in deep:
        ctx.analysed(owner)
        a = resolved(c.args[0], owner.node)
        dec = [x for x in ast.walk(a) if isinstance(x, ast.Call) and (call_attr(x) == 'decode' or dotted(x.func) == 'str')]
        ok = False
        for x in dec:
            codec = x.args[0] if call_attr(x) == 'decode' and x.args else (kwarg(x, 'encoding') or (x.args[1] if dotted(x.func) == 'str' and len(x.args) > 1 else None))
            if codec is None and call_attr(x) == 'decode':
                ok = True
            elif isinstance(codec, ast.Constant) and str(codec.value).lower().replace('_', '-') in ('utf-8', 'utf8'):
                ok = True
        ctx.check(ok, f'{f.qualname}:datagram decoded as UTF-8 before parsing', c, '`json.loads(<bytes>.decode(\'utf-8\'))`',
                  f'`{src(c)}` hands the received bytes to the JSON parser without decoding them as UTF-8: json.loads detects UTF-16 / UTF-32 / a BOM by itself, '
                  'so a datagram that is not a UTF-8 discovery request is answered', f)


@rule('C19.R1e', min_instances=1)
def request_values_are_not_used_as_dictionary_keys_unchecked(ctx):
    """what json.loads made of a datagram is untrusted: the value of its 'SECoP' key may be a list or an object.  Compared with
    `== 'discover'` that is harmless; used as the KEY of a dictionary lookup (a table of handlers) it raises TypeError
    (unhashable) outside every handler and ends the responder thread - unless a test established that it is a string"""
    from sa.lib import deep_calls
    m = ctx.m
    run = _run(m)
    units = [run] + [h for site, h in helper_methods_called(m, run)]
    n = 0
    for u in units:
        loaded = {t.id for x in body_walk(u.node) if isinstance(x, ast.Assign) and isinstance(x.value, ast.Call) and call_name(x.value) in ('json.loads', 'loads')
                  for t in x.targets if isinstance(t, ast.Name)}
        if not loaded:
            continue
        n += 1
        ctx.analysed(u)
        # locals holding a value taken out of the request
        vals = {t.id for x in body_walk(u.node) if isinstance(x, ast.Assign) and names_in(x.value) & loaded and
                any(isinstance(y, (ast.Subscript, ast.Call)) for y in ast.walk(x.value)) for t in x.targets if isinstance(t, ast.Name)} - loaded
        ucfg = CFG(u.node, m, u.module)
        bad = []
        for c in body_walk(u.node):
            key = None
            if isinstance(c, ast.Call) and call_attr(c) in ('get', 'pop', 'setdefault') and c.args and not (names_in(c.func.value) & loaded):
                key = c.args[0]
            if isinstance(c, ast.Subscript) and not (names_in(c.value) & loaded) and not isinstance(c.slice, (ast.Slice, ast.Constant)):
                key = c.slice
            if key is None or not (names_in(key) & (vals | loaded)) or isinstance(key, ast.Constant):
                continue
            if isinstance(key, ast.Name) and key.id in loaded:
                continue
            ks = src(key)
            guarded = any(isinstance(a, ast.IfExp) and any(e == ks and isin and set(k) <= {'str'} for e, k, isin in isinstance_facts(a.test, positive=True))
                          and any(c is y for y in ast.walk(a.body)) for a in ancestors(c))
            st = next((a for a in ancestors(c) if isinstance(a, ast.stmt)), None)
            side = sides_with_fact(ucfg, lambda a, tv: tv and isinstance(a, ast.Call) and dotted(a.func) == 'isinstance' and len(a.args) == 2
                                   and src(a.args[0]) == ks and src(a.args[1]) == 'str')
            if not guarded and not (st is not None and ucfg.ids(st) and set(ucfg.ids(st)) <= side):
                contained = any(part == 'body' and any(handler_catches_all(h) or 'TypeError' in (handler_type_names(h) or []) for h in t.handlers)
                                for t, part in enclosing_tries(c))
                if not contained:
                    bad.append((c, ks))
        for c, ks in bad:
            ctx.bad(f'{u.qualname}:request values are hashed only when they are strings', c, f'`{src(c)}` uses `{ks}`, a value taken from the received JSON text, as a dictionary key: '
                    'a datagram like {"SECoP": ["discover"]} raises TypeError (unhashable type) outside every handler - the responder thread ends and no later '
                    'discovery request is answered', u)
        if not bad:
            ctx.ok(f'{u.qualname}:request values are hashed only when they are strings', u.node, 'no unchecked request value is used as a dictionary key', u)
    if not n:
        raise AnchorMissing('json.loads of the datagram not found in the responder')


@rule('C19.R2c', min_instances=1)
def disabled_only_when_the_identity_does_not_fit(ctx):
    """the responder is switched off only when the identity alone (message with an empty description) exceeds the budget:
    the test guarding `self.is_enabled = False` is computed from a message built while self.description is '' - an estimate
    like `len(full message) - len(raw description)` is wrong for descriptions that grow when JSON-escaped (quotes, newlines,
    control characters): the responder is then disabled although a truncated description would fit"""
    m = ctx.m
    init = m.method(UDP, '__init__', inherited=False)
    ctx.analysed(init)
    cfg = CFG(init.node, m, init.module)
    tests = _disable_tests(init)
    if not tests:
        ctx.info(f'{init.qualname}:disabled only when the identity does not fit', init.node, 'the responder is never disabled here', init)
        return
    empties = []
    for n in body_walk(init.node):
        if isinstance(n, ast.Assign):
            for t, v in ([(t, n.value) for t in n.targets if not isinstance(t, ast.Tuple)] +
                         [(te, ve) for t in n.targets if isinstance(t, ast.Tuple) and isinstance(n.value, ast.Tuple) and len(t.elts) == len(n.value.elts)
                          for te, ve in zip(t.elts, n.value.elts)]):
                if isinstance(t, ast.Attribute) and t.attr == 'description' and dotted(t.value) == 'self' and isinstance(v, ast.Constant) and v.value == '':
                    empties += cfg.node_of(n)
    for t in tests:
        ms = _feeding_measurements(init, t.test)
        ok = bool(ms) and bool(empties) and all(all(cfg.dominates(empties, i) for i in cfg.node_of(c)) for c in ms)
        raw = [x for nm in ast.walk(t.test) if isinstance(nm, ast.Name) for o in origins(nm, init.node) for x in ast.walk(o)
               if isinstance(x, ast.Call) and call_attr(x) == 'encode' and 'description' in src(x)]
        ctx.check(ok and not raw, f'{init.qualname}:disabled only when the identity does not fit', t,
                  'decided on len(builder()) measured while self.description is empty',
                  f'`{src(t.test)}` is not computed from the identity-only message' + (f' (it uses the raw size `{src(raw[0])}`)' if raw else '') +
                  ': for a description that grows under JSON escaping (430 quote characters) the responder is switched off although '
                  'equipment id and firmware fit easily', init)


@rule('C19.R2b', min_instances=1)
def budget_measures_the_complete_message(ctx):
    """the length budget is measured on the message built with the full description (JSON escaping of the description
    counts): no store of a placeholder into self.description precedes the measurement"""
    m = ctx.m
    init = m.method(UDP, '__init__', inherited=False)
    ctx.analysed(init)
    cfg = CFG(init.node, m, init.module)
    budget = [c for c in calls_in(init.node) if dotted(c.func) == 'len' and c.args and isinstance(c.args[0], ast.Call)
              and isinstance(c.args[0].func, ast.Attribute) and dotted(c.args[0].func.value) == 'self']
    if not budget:
        raise AnchorMissing('length budget not found', violation=f'{init.qualname}:budget measures the complete message')
    params = {a.arg for a in init.node.args.args}
    disable_only = _disable_measurements(init)
    # the bound of the slice that truncates the description derives from a measurement of the builder's output
    for sl in [x for x in body_walk(init.node) if isinstance(x, ast.Subscript) and isinstance(x.slice, ast.Slice) and 'encode' in src(x.value)]:
        bounds = [b for b in (sl.slice.lower, sl.slice.upper) if b is not None]
        feeding = []
        for bnd in bounds:
            feeding += [c for c in ast.walk(bnd) if _is_measure(c)]
            for nm in [x for x in ast.walk(bnd) if isinstance(x, ast.Name)]:
                for o in origins(nm, init.node):
                    feeding += [c for c in ast.walk(o) if _is_measure(c)]
        ctx.check(bool(feeding), f'{init.qualname}:truncation bound comes from the measured message', sl, f'`{src(sl.slice)}` derives from len(self.<builder>(...))',
                  f'the description is cut at `{src(sl.slice)}`, which is not derived from the length of the message the builder produces: the datagram can exceed 508 bytes '
                  '(JSON escaping, multi-byte characters, the fixed part of the message)', init)
    for b in budget:
        if any(b is x for x in disable_only):
            continue     # the measurement that only decides whether the identity alone fits (C19.R2c)
        bids = set(cfg.node_of(b))
        for n in body_walk(init.node):
            if not isinstance(n, ast.Assign):
                continue
            pairs = []
            for t in n.targets:
                if isinstance(t, ast.Attribute) and t.attr == 'description' and dotted(t.value) == 'self':
                    pairs.append(n.value)
                if isinstance(t, ast.Tuple) and isinstance(n.value, ast.Tuple) and len(t.elts) == len(n.value.elts):
                    for te, ve in zip(t.elts, n.value.elts):
                        if isinstance(te, ast.Attribute) and te.attr == 'description' and dotted(te.value) == 'self':
                            pairs.append(ve)
            for v in pairs:
                before = any(cfg.reach(cfg.node_of(n)) & bids for _ in [0])
                if not before:
                    continue
                full = bool({x.id for x in ast.walk(v) if isinstance(x, ast.Name)} & params)
                ctx.check(full, f'{init.qualname}:budget measures the complete message', n, 'self.description holds the given description when the budget is measured',
                          f'`{src(n)}` replaces the description before the budget is measured: the size is computed without the JSON-escaped description, so a '
                          'description with newlines / quotes / control characters (which grow when escaped) yields datagrams above 508 bytes', init)


@rule('C19.R1b', min_instances=1)
def decoded_bytes_are_the_datagram(ctx):
    """the text handed to json.loads is the decoded datagram and nothing else: the first element of recvfrom(), or - when a
    reused buffer is filled with recvfrom_into() - exactly the slice [:nbytes] of that call (the tail of an earlier, longer
    datagram would otherwise decide whether a request is answered)"""
    m = ctx.m
    run = m.method(UDP, 'run', inherited=False)
    ctx.analysed(run)
    loads = [c for c in calls_in(run.node) if call_name(c) == 'json.loads' and c.args]
    if not loads:
        raise AnchorMissing('json.loads not found in UDPListener.run')
    for c in loads:
        key = f'{run.qualname}:json.loads gets exactly the received datagram'
        decs = [x for x in ast.walk(c.args[0]) if isinstance(x, ast.Call) and call_attr(x) == 'decode']
        for o in (origins(c.args[0], run.node) if isinstance(c.args[0], ast.Name) else []):
            decs += [x for x in ast.walk(o) if isinstance(x, ast.Call) and call_attr(x) == 'decode']
        if not decs:
            ctx.undecided(key, c, f'`{src(c.args[0])}`: no decode call found', run)
            continue
        for d in decs:
            recv = d.func.value
            base = recv.value if isinstance(recv, ast.Subscript) else recv
            if not isinstance(base, ast.Name):
                ctx.undecided(key, d, f'decoded expression `{src(recv)}` not classified', run)
                continue
            defs = local_assigns(run.node, base.id)
            from_recvfrom = bool(defs) and all(v is not None and isinstance(v, ast.Call) and call_attr(v) == 'recvfrom' for v, st, how in defs)
            into = [x for x in calls_in(run.node) if call_attr(x) in ('recvfrom_into', 'recv_into') and x.args and src(x.args[0]) == base.id]
            if from_recvfrom and not into:
                ctx.ok(key, d, f'`{base.id}` is unpacked from recvfrom()', run)
            elif into:
                sliced = isinstance(recv, ast.Subscript) and isinstance(recv.slice, ast.Slice) and recv.slice.lower is None and \
                    isinstance(recv.slice.upper, ast.Name) and any(isinstance(v, ast.Call) and call_attr(v) in ('recvfrom_into', 'recv_into')
                                                                    for v, st, how in local_assigns(run.node, recv.slice.upper.id))
                ctx.check(sliced, key, d, f'`{src(recv)}`: the slice [:nbytes] of the reused buffer',
                          f'`{src(d)}` decodes the whole reused receive buffer, not the {"[:nbytes] slice of the" if not sliced else ""} datagram just received: after '
                          'one longer datagram the tail stays in the buffer, every shorter discovery request is then malformed JSON and is '
                          'never answered again (and a fragment can complete to a request)', run)
            else:
                ctx.undecided(key, d, f'origin of `{base.id}` not classified', run)


@rule('C19.R1c', min_instances=2)
def answering_can_not_end_the_responder(ctx):
    """every sendto of the responder (answers and the start-up announcement) is covered by a handler for OSError that lets the
    responder go on: sendto fails for reasons a datagram controls (a request with source port 0 - `sendto(..., (ip, 0))` is
    EINVAL) or that have nothing to do with later requests (network unreachable at start-up)"""
    m = ctx.m
    run = _run(m)
    loop = _loop(run)
    ctx.analysed(run)
    from sa.lib import deep_calls
    n = 0
    for c, owner, site in deep_calls(m, run, lambda c: call_attr(c) == 'sendto'):
        n += 1
        inloop = any(a is loop for a in ancestors(site))
        h = covering_handler(c, [OSError], owner.module, stop=loop if inloop and owner is run else None)
        if h is None and owner is not run:
            h = covering_handler(site, [OSError], run.module, stop=loop if inloop else None)
        what = 'answer' if inloop else 'start-up announcement'
        if h is None:
            ctx.bad(f'{run.qualname}:{what} sendto contained', c, f'`{src(c)}`: no enclosing handler covers OSError - '
                    + ('a discovery request whose source port is 0 (sendto gives EINVAL), or any transient send failure, ends the responder '
                       'thread: no later request is answered' if inloop else
                       'a failing start-up broadcast (network unreachable, no permission) ends the responder thread before it serves any request'), owner)
        elif handler_leaves_loop_or_raises(h):
            ctx.bad(f'{run.qualname}:{what} sendto contained', c, 'the handler covering OSError leaves the responder (return / break / raise)', owner)
        else:
            ctx.ok(f'{run.qualname}:{what} sendto contained', c, 'covered by a handler for OSError that continues', owner)
    if not n:
        raise AnchorMissing('no sendto found in UDPListener.run', violation=f'{run.qualname}:discover request is answered')


@rule('C19.R4b', min_instances=2)
def one_responder_at_a_time(ctx):
    """sibling agreement of the two ways the serving loop of Server.run is left: shutdown() and restart() both close the
    interfaces, and both shut the discovery responder down - after restart() the run loop builds a NEW UDPListener, an old
    one left running keeps answering (SO_REUSEPORT) with the ports of interfaces that are closed"""
    m = ctx.m
    n = 0
    for name in ('shutdown', 'restart'):
        f = m.method('frappy.server.Server', name, inherited=False)
        ctx.analysed(f)
        cfg = CFG(f.node, m, f.module)
        loops = [a for a in body_walk(f.node) if isinstance(a, ast.For) and 'self.interfaces' in src(a.iter) and any(call_attr(c) == 'shutdown' for c in calls_in(a))]
        # ... or a loop over a generator method of the server that yields everything that listens (`for l in self._listeners(): l.shutdown()`)
        gens = []
        for a in body_walk(f.node):
            if isinstance(a, ast.For) and isinstance(a.iter, ast.Call) and isinstance(a.iter.func, ast.Attribute) and dotted(a.iter.func.value) == 'self' \
                    and f.cls is not None and a.iter.func.attr in f.cls.methods and any(call_attr(c) == 'shutdown' for c in calls_in(a)):
                g = f.cls.methods[a.iter.func.attr]
                ylds = [y for y in body_walk(g.node) if isinstance(y, (ast.Yield, ast.YieldFrom))]
                if any('self.interfaces' in src(y) for y in ylds):
                    gens.append((a, g, ylds))
        if not loops and not gens:
            continue
        n += 1
        disc = [c for c in calls_in(f.node) if call_attr(c) == 'shutdown' and 'discovery' in src(c.func)]
        gdisc = [(g, y) for a, g, ylds in gens for y in ylds if 'self.discovery' in src(y)]
        ctx.check(bool(disc) or bool(gdisc), f'{f.qualname}:discovery responder shut down with the interfaces', f.node,
                  'self.discovery.shutdown() next to the shutdown of the interfaces',
                  f'{name}() closes the interfaces but leaves the discovery responder running: after a restart two responders answer each '
                  'request, the old one announcing ports that are no longer listened on', f)
        # the responder is silenced BEFORE the first interface is closed: while it runs it announces the ports of all interfaces, and
        # an interface whose shutdown() raises must not keep it alive
        first = True
        if disc and loops:
            dids = {i for c in disc for i in cfg.node_of(c)}
            first = not any(dids & set(cfg.reach(cfg.ids(l))) for l in loops)
        elif gdisc:
            for a, g, ylds in gens:
                gcfg = CFG(g.node, m, g.module)
                dy = {i for g2, y in gdisc if g2 is g for i in gcfg.node_of(y)}
                iy = [i for y in ylds if 'self.interfaces' in src(y) for i in gcfg.node_of(y)]
                first = first and not any(dy & set(gcfg.reach([i])) for i in iy)
        if disc or gdisc:
            ctx.check(first, f'{f.qualname}:discovery responder shut down before the interfaces', f.node, 'the responder is silenced first',
                      f'{name}() closes the interfaces before it shuts the discovery responder down: meanwhile the responder announces ports that are already '
                      'closed, and when the shutdown of one interface raises it is never silenced', f)
    if n < 2:
        raise AnchorMissing('Server.shutdown / Server.restart closing self.interfaces not found')


@rule('C19.R6', min_instances=5)
def responder_loop_runs_and_budget_tests_have_the_right_side(ctx):
    """the receive loop is entered (self.running = True before it, the loop test is the plain conjunction of running and
    is_enabled) on a bound socket; after a datagram that could not be parsed no answer is reachable before the next receive;
    in __init__ the truncate-or-disable logic runs on the side where the full message does NOT fit, and the responder is
    disabled on the side where even the identity does not fit"""
    m = ctx.m
    run = _run(m)
    loop = _loop(run)
    ctx.analysed(run)
    cfg = CFG(run.node, m, run.module)
    t = loop.test
    parts = t.values if isinstance(t, ast.BoolOp) and isinstance(t.op, ast.And) else [t]
    names = {src(p) for p in parts}
    ctx.check({'self.running', 'self.is_enabled'} <= names, f'{run.qualname}:loop runs while running and enabled', t, f'`{src(t)}`',
              f'loop condition `{src(t)}`: the responder never enters its loop, or a disabled responder (identity over budget) answers with over-long datagrams', run)
    starts = [i for tg, v, s in attr_stores(run.node) if tg.attr == 'running' and isinstance(v, ast.Constant) and v.value is True for i in cfg.node_of(s)]
    ctx.check(bool(starts) and all(cfg.dominates(starts, i) for i in cfg.ids(loop.test)), f'{run.qualname}:running is set before the loop', run.node, 'self.running = True dominates the loop test',
              'self.running is not set before the loop: the responder thread ends at once, no request is ever answered', run)
    recv = [i for c in calls_in(loop) if call_attr(c) in RECV for i in cfg.node_of(c)]
    sends = {i for c in calls_in(loop) if call_attr(c) == 'sendto' for i in cfg.node_of(c)}
    for h in [x for x in walk_local(loop) if isinstance(x, ast.ExceptHandler) and x.type is not None and 'ValueError' in src(x.type)]:
        first = [i for st in h.body[:1] for i in cfg.ids(st)] or [i for st in h.body[:1] for i in cfg.node_of(st)]
        reach = cfg.reach(first, avoid=set(recv)) | set(first)
        ctx.check(not (reach & sends), f'{run.qualname}:unparsable datagram is skipped', h, 'no sendto between the handler and the next receive',
                  'after a datagram that is not JSON the loop goes on with the request of the PREVIOUS datagram (or an unbound name): it is answered again / '
                  'the thread ends with UnboundLocalError', run)
    init = m.method(UDP, '__init__', inherited=False)
    ctx.analysed(init)
    cfgi = CFG(init.node, m, init.module)
    binds = [c for c in calls_in(init.node) if call_attr(c) == 'bind']
    ctx.check(bool(binds), f'{init.qualname}:socket is bound', init.node, 'self.sock.bind(...)', 'the socket is never bound to the discovery port: no request arrives', init)
    dis = {i for tg, v, s in attr_stores(init.node) if tg.attr == 'is_enabled' and isinstance(v, ast.Constant) and v.value is False for i in cfgi.node_of(s)}
    trunc = {i for n in body_walk(init.node) if isinstance(n, ast.Assign) and any(isinstance(tg, ast.Attribute) and tg.attr == 'description' for tg in n.targets)
             and any(isinstance(x, ast.Slice) for x in ast.walk(n.value)) for i in cfgi.node_of(n)}
    for tt in cfgi.nodes:
        if tt.kind != 'test':
            continue
        for l, op, r in compare_ops(tt.ast):
            if op in ('<', '<=') and {l, r} == {'available', '0'}:
                nofit_true = (l == 'available')
                strict_ok = (op == '<') if nofit_true else (op == '<=')
                side = cfgi.reach([tt.id], labels={'T' if nofit_true else 'F'}, avoid=[tt.id])
                ctx.check(strict_ok and (dis | trunc) <= side and bool(trunc), f'{init.qualname}:over-long message is handled on the side where it does not fit', tt.ast,
                          'truncate / disable when available < 0', f'`{src(tt.ast)}`: truncation and disabling run when the message fits, an over-long one is sent as it is', init)
            if op in ('<', '<=') and r == '0' and l == 'available' and False:
                pass
            if op in ('<', '<=') and 'MAX_MESSAGE_LEN' in (l, r) and 'len(' in l + r:
                too_long_true = (l == 'MAX_MESSAGE_LEN')
                neg = isinstance(tt.ast, ast.UnaryOp)
                side = cfgi.reach([tt.id], labels={'T' if too_long_true != neg else 'F'}, avoid=[tt.id]) if not neg else None
                if side is not None:
                    other = cfgi.reach([tt.id], labels={'F' if too_long_true else 'T'}, avoid=[tt.id])
                    ctx.check(bool(dis) and dis <= side and not (dis & other - side) and bool(trunc & other), f'{init.qualname}:disabled when the identity does not fit, truncated otherwise', tt.ast,
                              'is_enabled = False on the too-long side, truncation on the other',
                              f'`{src(tt.ast)}`: the responder is switched off when the identity fits and sends an untruncated over-long description when it does not', init)



@rule('C19.R1d', min_instances=1)
def datagram_size_is_bounded_or_deep_nesting_is_contained(ctx):
    """json.loads raises RecursionError (not a ValueError) for input nested deeper than the interpreter allows; the responder is
    safe either because it reads at most a small, fixed number of bytes of each datagram (discovery requests are tiny; ~1 kB can
    not nest that deep) or because the handler around json.loads covers RecursionError too"""
    m = ctx.m
    run = _run(m)
    loop = _loop(run)
    ctx.analysed(run)
    for c in [c for c in calls_in(loop) if call_attr(c) in RECV]:
        a = c.args[0] if c.args else None
        v = m.const(run.module, a) if a is not None else None
        small = isinstance(v, int) and v <= 4096
        covered = True
        for jl in [x for x in calls_in(loop) if call_name(x) == 'json.loads']:
            h = covering_handler(jl, [RecursionError], run.module, stop=loop)
            covered = covered and h is not None and not handler_leaves_loop_or_raises(h)
        ctx.check(small or covered, f'{run.qualname}:deeply nested datagram can not end the responder', c,
                  f'receive size {v} bytes' if small else 'RecursionError is covered',
                  f'`{src(c)}` hands up to {v if v is not None else "?"} bytes to json.loads and the handler covers ValueError only: a datagram of some ten thousand '
                  "'[' characters raises RecursionError, which ends the responder thread", run)


def _linear(e):
    """expression as {symbol: coefficient, '': constant} when it is built from names, integers, + and -; else None"""
    if isinstance(e, ast.Constant) and isinstance(e.value, int) and not isinstance(e.value, bool):
        return {'': e.value}
    if isinstance(e, ast.Name):
        return {e.id: 1}
    if isinstance(e, ast.UnaryOp) and isinstance(e.op, ast.USub):
        v = _linear(e.operand)
        return None if v is None else {k: -c for k, c in v.items()}
    if isinstance(e, ast.BinOp) and isinstance(e.op, (ast.Add, ast.Sub)):
        a, b = _linear(e.left), _linear(e.right)
        if a is None or b is None:
            return None
        out = dict(a)
        for k, c in b.items():
            out[k] = out.get(k, 0) + (c if isinstance(e.op, ast.Add) else -c)
        return out
    return None


def _truth_in_last_iteration(test, var, stop):
    """three-valued truth of a condition in the LAST round of `for var in range(stop)` (var == stop - 1): comparisons that are
    linear in the loop variable and the bound are decided, everything else is open"""
    if isinstance(test, ast.UnaryOp) and isinstance(test.op, ast.Not):
        v = _truth_in_last_iteration(test.operand, var, stop)
        return None if v is None else not v
    if isinstance(test, ast.BoolOp):
        vals = [_truth_in_last_iteration(v, var, stop) for v in test.values]
        if isinstance(test.op, ast.And):
            return False if any(v is False for v in vals) else (True if all(v is True for v in vals) else None)
        return True if any(v is True for v in vals) else (False if all(v is False for v in vals) else None)
    if isinstance(test, ast.Compare) and len(test.ops) == 1:
        l, r, st = _linear(test.left), _linear(test.comparators[0]), _linear(stop)
        if l is None or r is None or st is None:
            return None
        d = dict(l)
        for k, c in r.items():
            d[k] = d.get(k, 0) - c
        cv = d.pop(var, 0)
        if cv == 0:
            return None
        for k, c in st.items():
            d[k] = d.get(k, 0) + cv * c
        d[''] = d.get('', 0) - cv
        if any(c for k, c in d.items() if k):
            return None
        x = d.get('', 0)
        op = test.ops[0]
        return {ast.Lt: x < 0, ast.LtE: x <= 0, ast.Gt: x > 0, ast.GtE: x >= 0, ast.Eq: x == 0, ast.NotEq: x != 0}.get(type(op))
    return None


@rule('C19.R4c', min_instances=1)
def a_server_exists_only_after_a_successful_bind(ctx):
    """TCPServer.__init__ (with its helpers): the bind is tried in a bounded retry loop; the constructor may return normally only
    after a try succeeded.  In the LAST round of the loop the handler of the failed bind must raise - decided by walking the
    handler with the loop variable fixed to its last value (comparisons linear in the loop variable and the bound).  A loop
    that can run out leaves a never-bound server: its uri is registered as started and the discovery responder announces a
    port that belongs to another process"""
    m = ctx.m
    init = m.method('frappy.protocol.interface.tcp.TCPServer', '__init__', inherited=False)
    ctx.analysed(init)
    cfg = CFG(init.node, m, init.module)
    binds = [c for c in calls_in(init.node) if call_attr(c) == '__init__' and 'bind_and_activate' in {k.arg for k in c.keywords}] or \
        [c for c in calls_in(init.node) if call_attr(c) in ('server_bind', 'bind')]
    if not binds:
        raise AnchorMissing('the binding base class constructor call (bind_and_activate=...) not found in TCPServer.__init__')
    for c in binds:
        loop = next((a for a in ancestors(c) if isinstance(a, (ast.For, ast.While))), None)
        key = f'{init.qualname}:the retry loop can not run out without a bound socket'
        if loop is None:
            ctx.ok(key, c, 'no retry loop: a failing bind raises', init)
            continue
        if not (isinstance(loop, ast.For) and isinstance(loop.target, ast.Name) and isinstance(loop.iter, ast.Call) and dotted(loop.iter.func) == 'range'
                and len(loop.iter.args) == 1):
            ctx.undecided(key, loop, 'retry loop is not `for n in range(bound)`', init)
            continue
        if loop.orelse and all(isinstance(x, ast.Raise) for x in loop.orelse[-1:]):
            ctx.ok(key, loop, 'the else clause of the loop raises', init)
            continue
        var, stop = loop.target.id, loop.iter.args[0]
        tries = [t for t, part in enclosing_tries(c) if part == 'body' and any(a is loop for a in ancestors(t))]
        if not tries:
            ctx.undecided(key, loop, 'the bind is not inside a try of the loop', init)
            continue
        loop_ids = set(cfg.ids(loop))
        after = set()
        for h in tries[0].handlers:
            # walk the handler in the last round
            start = cfg.ids(h)
            seen, stack = set(), list(start)
            while stack:
                n = stack.pop()
                if n in seen:
                    continue
                seen.add(n)
                t = cfg.nodes[n]
                if n in loop_ids and n not in start:
                    after.add(n)        # back at the loop head: the last round ended without raise
                    continue
                known = _truth_in_last_iteration(t.ast, var, stop) if t.kind == 'test' and not isinstance(t.ast, ast.stmt) else None
                for b, lab in cfg.succ[n]:
                    if lab == 'exc' or (known is True and lab == 'F') or (known is False and lab == 'T'):
                        continue
                    stack.append(b)
        ctx.check(not after, key, loop, 'in the last round every handler of the failed bind raises',
                  f'in the last round of `{src(loop).splitlines()[0]}` a handler of the failed bind can end without raising: the loop runs out, the constructor '
                  'returns a server whose socket was never bound ("TCPServer initiated"), the interface is registered as started and the discovery responder '
                  'answers with a port this node does not listen on', init)


@rule('C19.R4d', min_instances=1)
def the_old_socket_is_really_closed(ctx):
    """frappy.lib.closeSocket (behind UDPListener.shutdown, used on Server.restart): close() is reached whatever shutdown()
    does - shutdown() on an unconnected UDP socket ALWAYS raises ENOTCONN on Linux.  Direct form: close() is not skipped by an
    exception of shutdown() (own try, or finally).  Step form (`for step in (lambda: sock.shutdown(..), lambda: sock.close())`):
    the try that swallows the error of a step lies INSIDE the loop.  A socket that stays open keeps the discovery port bound
    (SO_REUSEPORT): the kernel hands part of the requests to the dead responder, they are never answered"""
    m = ctx.m
    f = m.functions.get('frappy.lib.closeSocket')
    if f is None:
        raise AnchorMissing('frappy.lib.closeSocket not found')
    ctx.analysed(f)
    cfg = CFG(f.node, m, f.module)
    key = f'{f.qualname}:close() is reached when shutdown() raises'
    shut = [c for c in calls_in(f.node) if call_attr(c) == 'shutdown' and not any(isinstance(a, ast.Lambda) for a in ancestors(c))]
    close = [c for c in calls_in(f.node) if call_attr(c) == 'close' and not any(isinstance(a, ast.Lambda) for a in ancestors(c))]
    if shut and close:
        cids = [i for c in close for i in cfg.node_of(c)]
        for c in shut:
            # follow the exceptional edges of the shutdown statement: every way to the normal exit passes close()
            starts = [b for i in cfg.node_of(c) for b, lab in cfg.succ[i] if lab == 'exc' and b != cfg.exit_exc]
            ok = bool(starts) and cfg.all_paths_pass(starts, [cfg.exit], cids, exc=False)
            ctx.check(ok, key, c, 'the handler of a failing shutdown() leads to close()',
                      f'an exception of `{src(c)}` skips `{src(close[0])}`: the socket stays open and bound', f)
        return
    # step form
    steps = [x for x in body_walk(f.node) if isinstance(x, (ast.Tuple, ast.List)) and x.elts and all(isinstance(e, ast.Lambda) for e in x.elts)
             and any(call_attr(c) == 'close' for e in x.elts for c in ast.walk(e) if isinstance(c, ast.Call))]
    loops = [l for l in body_walk(f.node) if isinstance(l, ast.For) and isinstance(l.target, ast.Name) and
             any(isinstance(c.func, ast.Name) and c.func.id == l.target.id for c in calls_in(l))]
    if steps and loops:
        for l in loops:
            for c in [c for c in calls_in(l) if isinstance(c.func, ast.Name) and c.func.id == l.target.id]:
                inner = [t for t, part in enclosing_tries(c) if part == 'body' and any(a is l for a in ancestors(t))]
                outer = [t for t, part in enclosing_tries(c) if part == 'body' and not any(a is l for a in ancestors(t))]
                ok = bool(inner) and not any(handler_leaves_loop_or_raises(h) for t in inner for h in t.handlers)
                ctx.check(ok, key, c, 'every step has its own try inside the loop',
                          f'`{src(c)}` is guarded by a try AROUND the loop' + (' only' if outer and not inner else '') + ': the error of the first step (shutdown() of an '
                          'unconnected UDP socket raises ENOTCONN) ends the loop, close() is never called - after Server.restart() the old responder socket stays bound '
                          'to the discovery port and swallows part of the requests', f)
        return
    ctx.undecided(key, f.node, 'shutdown / close steps not recognised', f)


@rule('C19.R7', min_instances=1)
def a_refused_interface_is_never_announced(ctx):
    """Server._interfaceThread: self.interfaces is what Server.run hands to the discovery responder as the list of ports to
    announce.  An interface object that was constructed but is refused (unknown options: ConfigError) and closed again must not be
    entered there: from the statement that raises / records that ConfigError the registration `self.interfaces[...] = ...` is not
    reachable (flags and error variables bound on the way are followed)"""
    m = ctx.m
    f = m.method('frappy.server.Server', '_interfaceThread', inherited=False)
    ctx.analysed(f)
    cfg = CFG(f.node, m, f.module)
    regs = [s_ for s_ in body_walk(f.node) if isinstance(s_, ast.Assign) and any(isinstance(t, ast.Subscript) and src(t.value) == 'self.interfaces' for t in s_.targets)]
    refusals = [x for x in body_walk(f.node) if (isinstance(x, ast.Raise) and x.exc is not None and 'ConfigError' in src(x.exc)) or
                (isinstance(x, ast.Assign) and isinstance(x.value, ast.Call) and 'ConfigError' in src(x.value.func))]
    if not regs or not refusals:
        raise AnchorMissing('registration in self.interfaces / the ConfigError for unknown options not found in Server._interfaceThread')
    rids = {i for r in regs for i in cfg.ids(r)}
    for x in refusals:
        # (the exceptional edge of a raise leads to the handlers; the handlers of HEAD do not register anything)
        reach = reach_with_flags(cfg, cfg.ids(x), avoid=[], exc=isinstance(x, ast.Raise))
        hit = rids & (reach - set(cfg.ids(x)))
        ctx.check(not hit, f'{f.qualname}:a refused interface is not registered', x, 'the registration is unreachable once the interface was refused',
                  f'after `{src(x)[:80]}` the registration `{src(regs[0])}` is still reached: the refused (and closed) interface stays in self.interfaces and its '
                  'port is announced by the start-up broadcast and in every discovery answer', f)
