"""C05 - the update stream always reconstructs the node's parameter cache"""
from sa.core import rule, prop_info
from sa.lib import *  # noqa: F401,F403
from sa.lib import attr_stores, in_lock, local_assigns, origins, func_calls, handler_reraises, enclosing_tries
from sa import roles
from sa.model import names_in, AnchorMissing

prop_info(
    'C05',
    'Decided (structural necessary conditions): R1 only the cache funnel (Module.announceUpdate, plus the initial '
    'marking in Module._handle_writes) stores into a Parameter instance\'s value/readerror/timestamp; R2 store, '
    'callbacks and dispatcher notification happen inside the module update lock; R3 the changed-decision reads the '
    'old value before the store and depends on the previous error state, so a recovery with an equal value is never '
    'suppressed; R4 attribute assignment and both generated wrappers route results (and read errors) into the '
    'funnel, the write wrapper only on its normal path; R5 the update message is built from the cache entry only '
    'and the funnel has exactly one notification target.',
    assumptions=['a receiver is a Parameter instance when it is derived from `.parameters` / `.accessibles` of a '
                 'module or is a function parameter named pobj/paramobj; `.readerror` exists only on Parameter'],
    not_decided='concrete interleavings beyond lock discipline, payload values of the messages.')

CACHE_FIELDS = {'value', 'readerror', 'timestamp'}
PARAM_CONTAINERS = ('parameters', 'accessibles')
PARAM_ARGNAMES = {'pobj', 'paramobj'}

# named exceptions, one symbol + one reason each (DESIGN A.8)
ALLOWED_WRITERS = {
    'frappy.modulebase.Module.announceUpdate': 'the funnel itself',
    'frappy.modulebase.Module._handle_writes': 'initial marking of the entry during Module.__init__, before anything can observe it',
    'frappy_mlz.entangle.AnalogOutput._init_limits': 'driver package: runs inside Module.__init__ (via applyMainUnit) and is immediately followed by a regular assignment',
}


def _mentions_param_container(expr):
    for n in ast.walk(expr):
        if isinstance(n, ast.Attribute) and n.attr in PARAM_CONTAINERS:
            return True
    return False


def param_like(recv, funcnode, depth=3):
    """is the receiver expression a Parameter instance of a module (see assumptions)"""
    if isinstance(recv, ast.Name):
        if recv.id in ('self', 'cls'):
            return False
        for v, st, how in local_assigns(funcnode, recv.id):
            if how == 'param':
                if recv.id in PARAM_ARGNAMES:
                    return True
            elif v is not None and depth > 0:
                if _mentions_param_container(v):
                    return True
                if isinstance(v, ast.Name) and param_like(v, funcnode, depth - 1):
                    return True
        return False
    if isinstance(recv, (ast.Subscript, ast.Call, ast.Attribute)):
        return _mentions_param_container(recv)
    return False


def funnel_unit(m):
    """[(function, site)]: the cache funnel itself (site None) and the private helper methods it calls (site = the call in the
    funnel that stands for the helper in region / order questions) - the publishing half may have been extracted"""
    f = roles.cache_funnel(m)
    out = [(f, None)]
    for site, h in helper_methods_called(m, f):
        if h.name.startswith('_') and not h.name.endswith('__') and all(h is not g for g, _ in out):
            out.append((h, site))
    return out


def _part_of_allowed_writer(m, fi, allowed):
    """fi is a private helper method that was expanded in place of its call in allowed writers only, and no other
    reference to it is left anywhere (so its stores are judged as part of those writers)"""
    if not fi.name.startswith('_') or fi.cls is None:
        return False
    callers = [q for q, hs in m.inlined.items() if fi.qualname in hs]
    if callers and not all(q in allowed for q in callers):
        return False
    # every remaining reference to the helper lies in an allowed writer of the same class (a helper that was not expanded -
    # called inside a conditional expression, say - is still only reachable from there)
    refs = 0
    for g in m.functions.values():
        if g is fi:
            continue
        for n in ast.walk(g.node):
            if isinstance(n, ast.Attribute) and n.attr == fi.name:
                if g.qualname not in allowed or g.cls is None or g.cls.qualname != fi.cls.qualname:
                    return False
                refs += 1
    return bool(callers) or refs > 0


@rule('C05.R1', min_instances=4)
def single_funnel(ctx):
    """who-may-write: stores to .value/.readerror/.timestamp of a Parameter instance only in the funnel
    (Module.announceUpdate) and in Module._handle_writes (initial marking)."""
    m = ctx.m
    funnel = roles.cache_funnel(m)
    allowed = dict(ALLOWED_WRITERS)
    allowed[funnel.qualname] = 'the funnel itself'
    scanned = 0
    for q, fi in m.functions.items():
        if fi.module.name.startswith('frappy.gui') or fi.module.name.startswith('frappy.client'):
            continue
        if fi.module.name == 'frappy.protocol.router':
            continue   # stale alternative dispatcher, outside every anchor (A.8)
        scanned += 1
        for tgt, value, st in attr_stores(fi.node):
            if tgt.attr not in CACHE_FIELDS:
                continue
            recv = tgt.value
            is_param = param_like(recv, fi.node)
            if not is_param and tgt.attr == 'readerror' and not (isinstance(recv, ast.Name) and recv.id == 'self'):
                is_param = True
            if not is_param:
                continue
            ctx.analysed(fi)
            construct = f'{fi.qualname}:store {src(tgt)}'
            if fi.qualname in allowed:
                ctx.ok(construct, tgt, f'allowed writer: {allowed[fi.qualname]}', fi)
            elif _part_of_allowed_writer(m, fi, allowed):
                ctx.ok(construct, tgt, 'private helper whose only call sites lie in an allowed writer (analysed there in place of the call)', fi)
            elif not fi.module.name.startswith('frappy.'):
                ctx.info(construct, tgt, 'cache store in a driver package (un-triaged: reported as info only)', fi)
            else:
                ctx.bad(construct, tgt, f'cache field `{src(tgt)}` is stored outside the funnel {funnel.short}: '
                        'the cache changes without an update message (or with one built from a different state)', fi)
    ctx.info('scanned', None, f'{scanned} functions scanned for cache stores')


@rule('C05.R2', min_instances=4)
def lock_coverage(ctx):
    """in the funnel every cache store, every parameter callback call and the dispatcher notification
    are inside the module's update lock region"""
    m = ctx.m
    f = roles.cache_funnel(m)
    ctx.analysed(f)
    n = 0
    for tgt, value, st in attr_stores(f.node):
        if tgt.attr in CACHE_FIELDS and param_like(tgt.value, f.node):
            n += 1
            ctx.check(in_lock(tgt, 'updateLock'), f'{f.qualname}:store {src(tgt)}', tgt,
                      'store inside updateLock region', 'cache store outside the updateLock region: store and notify '
                      'are no longer atomic, messages can overtake each other', f)
    unit = funnel_unit(m)
    notif = [(c, site) for g, site in unit for c in func_calls(g.node, attr='updateCallback')]
    if not notif:
        raise roles.AnchorMissing('call of self.updateCallback in the funnel not found', violation='frappy.modulebase.Module.announceUpdate:call updateCallback')
    for c, site in notif:
        ctx.check(in_lock(c, 'updateLock') or (site is not None and in_lock(site, 'updateLock')), f'{f.qualname}:call updateCallback', c,
                  'notification inside updateLock region', 'dispatcher notification outside the updateLock region', f)
    # callbacks: calls of a loop variable iterating over self.paramCallbacks[...]
    for g, site in unit:
        for node in body_walk(g.node):
            if isinstance(node, ast.For) and 'paramCallbacks' in src(node.iter):
                names = {x.id for x in ast.walk(node.target) if isinstance(x, ast.Name)}
                for c in calls_in(node):
                    if isinstance(c.func, ast.Name) and c.func.id in names:
                        ctx.check(in_lock(c, 'updateLock') or (site is not None and in_lock(site, 'updateLock')), f'{f.qualname}:call parameter callback', c,
                                  'callback inside updateLock region', 'parameter callback outside the updateLock region', f)


@rule('C05.R3', min_instances=3)
def compare_before_store(ctx):
    """the changed-decision reads the old cache value before the store and depends on the previous error;
    every early return of the funnel is guarded by that decision or by a comparison with the stored error"""
    m = ctx.m
    f = roles.cache_funnel(m)
    ctx.analysed(f)
    cfg = CFG(f.node, m, f.module)
    value_stores = [t for t, v, st in attr_stores(f.node) if t.attr == 'value' and param_like(t.value, f.node)]
    if not value_stores:
        raise roles.AnchorMissing('store of pobj.value in the funnel not found')
    # names whose definition depends on the previous readerror and on the old value
    dep_err, dep_val = set(), set()
    # (target name, value expression, statement) - tuple assignments element by element
    bindings = []
    for node in body_walk(f.node):
        if isinstance(node, ast.Assign) and len(node.targets) == 1:
            tg = node.targets[0]
            if isinstance(tg, ast.Name):
                bindings.append((tg.id, node.value, node))
            elif isinstance(tg, ast.Tuple) and isinstance(node.value, ast.Tuple) and len(tg.elts) == len(node.value.elts):
                bindings += [(e.id, v, node) for e, v in zip(tg.elts, node.value.elts) if isinstance(e, ast.Name)]
    for _ in range(3):      # closure: `cached_error = pobj.readerror; changed = ... or cached_error`
        for name, value, node in bindings:
            s = src(value, 400)
            guards = ' '.join(src(a.test, 400) for a in ancestors(node) if isinstance(a, ast.If))
            if '.readerror' in s or '.readerror' in guards or names_in(value) & dep_err:
                dep_err.add(name)
            if '.value' in s or names_in(value) & dep_val:
                dep_val.add(name)
    for name, value, node in bindings:
            s = src(value, 400)
            if '.value' in s:
                # R3a: this read of the old value must precede the store
                for vs in value_stores:
                    a_ids = cfg.node_of(node)
                    for b in cfg.node_of(vs):
                        ctx.check(cfg.dominates(a_ids, b) and not any(cfg.reachable(b, a) for a in a_ids),
                                  f'{f.qualname}:compare `{name}` before store', node,
                                  'old value is compared before it is overwritten',
                                  'the comparison with the old cache value does not precede the store: every update looks unchanged', f)
    decision = dep_err & dep_val
    ctx.check(bool(decision), f'{f.qualname}:changed-decision depends on previous error', f.node,
              f'decision variable(s) {sorted(decision)} depend on old value and previous readerror',
              'no decision variable depends on both the old value and the previous readerror: a recovery from an '
              'error with an equal value would be suppressed', f)
    # early returns
    stamp_nodes = [n for t, v, st in attr_stores(f.node) if t.attr in ('timestamp', 'readerror') and param_like(t.value, f.node)
                   for n in cfg.node_of(t)]
    for node in body_walk(f.node):
        if isinstance(node, ast.Return):
            tests = [a.test for a in ancestors(node) if isinstance(a, ast.If)]
            tsrc = ' '.join(src(t, 400) for t in tests)
            tnames = set().union(*[names_in(t) for t in tests]) if tests else set()
            guarded = '.readerror' in tsrc or bool(tnames & dep_err)
            ctx.check(guarded, f'{f.qualname}:early return guarded', node,
                      'suppressing return depends on the previous error state',
                      f'`return` under `{tsrc or "no condition"}` suppresses an update without looking at the previous '
                      'error state: a recovery may never be announced', f)


@rule('C05.R4', min_instances=4)
def entries_route_through_funnel(ctx):
    """Parameter.__set__, the read wrapper (normal path and error path) and the write wrapper (normal path only)
    end in the funnel"""
    m = ctx.m
    funnel = roles.cache_funnel(m)
    fname = funnel.name
    setter = m.method(roles.PARAMETER, '__set__', inherited=False)
    scalls = [c for c in calls_in(setter.node) if call_attr(c) == fname]
    cfgs = CFG(setter.node, m, setter.module)
    ids = [i for c in scalls for i in cfgs.node_of(c)]
    ctx.check(bool(ids) and cfgs.all_paths_pass([cfgs.entry], [cfgs.exit], ids, exc=False), f'{setter.qualname}:calls {fname}', setter.node,
              'attribute assignment routes into the funnel', 'Parameter.__set__ does not route every assignment into the funnel: '
              '`self.<param> = v` in a driver changes the cache without an update (or not at all)', setter)
    # read wrapper
    rw = roles.read_wrapper_with_driver_call(m)
    ctx.analysed(rw)
    cfg = CFG(rw.node, m, rw.module)
    drv = roles.driver_calls_in_wrapper(rw)
    if not drv:
        raise roles.AnchorMissing('driver call in read wrapper not found')
    ann = func_calls(rw.node, attr=fname)
    ann_ids = [i for c in ann for i in cfg.node_of(c)]
    done_returns = _done_returns(rw.node, cfg)
    for d in drv:
        for did in cfg.node_of(d):
            # normal continuation of the driver call: every path to the normal exit announces (or is the Done idiom)
            ok = cfg.all_paths_pass([did], [cfg.exit], set(ann_ids) | done_returns, exc=False)
            ctx.check(ok, f'{rw.qualname}:normal path announces', d,
                      'every normal path from the driver read to the return passes the funnel',
                      'a normal path from the driver read function to the return does not call the funnel: '
                      'the value is returned but neither cached nor announced', rw)
            # exceptional continuation: handler that announces with err= and re-raises
            hs = [h for t, part in enclosing_tries(d) if part == 'body' for h in t.handlers]
            good = False
            for h in hs:
                hcalls = [c for st in h.body for c in calls_in(st) if call_attr(c) == fname]
                if hcalls and any(k.arg == 'err' for c in hcalls for k in c.keywords) and handler_reraises(h) \
                        and (h.type is None or dotted(h.type) in ('Exception', 'BaseException')):
                    good = True
            ctx.check(good, f'{rw.qualname}:error path announces', d,
                      'read errors are announced (err=...) and re-raised',
                      'a failing driver read is not routed into the funnel with err=: the error state is never cached/announced', rw)
    # write wrapper
    ww = roles.write_wrapper(m)
    ctx.analysed(ww)
    cfgw = CFG(ww.node, m, ww.module)
    drvw = roles.driver_calls_in_wrapper(ww)
    annw = func_calls(ww.node, attr=fname)
    if not annw:
        ctx.bad(f'{ww.qualname}:normal path announces', ww.node, 'write wrapper never calls the funnel', ww)
        return
    annw_ids = [i for c in annw for i in cfgw.node_of(c)]
    donew = _done_returns(ww.node, cfgw)
    ok = cfgw.all_paths_pass([cfgw.entry], [cfgw.exit], set(annw_ids) | donew, exc=False)
    ctx.check(ok, f'{ww.qualname}:normal path announces', ww.node,
              'every normal path through the write wrapper passes the funnel',
              'a normal path through the write wrapper skips the funnel: the driver was written but the cache/update stream is not', ww)
    for c in annw:
        in_handler = any(part in ('handler', 'finalbody') for t, part in enclosing_tries(c))
        ctx.check(not in_handler, f'{ww.qualname}:announce only on normal path', c,
                  'funnel call is not inside a handler / finally',
                  'the write wrapper announces from an exception handler or finally: a refused/failed write changes the cache', ww)
    # the funnel call must not be reachable from an exceptional exit of validate / checks / driver
    exc_sources = [n.id for n in cfgw.nodes if any(l == 'exc' for _, l in cfgw.succ[n.id])]
    bad_nodes = set()
    for s in exc_sources:
        exc_succ = [b for b, l in cfgw.succ[s] if l == 'exc']
        r = set(exc_succ) | cfgw.reach(exc_succ)
        if r & set(annw_ids):
            bad_nodes.add(s)
    ctx.check(not bad_nodes, f'{ww.qualname}:no announce after failure', ww.node,
              'no exceptional edge leads to the funnel call',
              f'the funnel call is reachable after an exception at {[repr(cfgw.nodes[b]) for b in sorted(bad_nodes)][:3]}', ww)


@rule('C05.R9', min_instances=1)
def a_cached_value_can_always_be_sent(ctx):
    """shared with C07.R6c: whatever the funnel caches has to go out to every listener - the frame encoder must not raise
    for a float the cache can hold (NaN passes FloatRange today), because it runs outside every handler of the send path"""
    from sa.rules import c07
    c07.encoder_does_not_fail_for_a_float_the_cache_can_hold(ctx)


def _done_returns(funcnode, cfg):
    """`if value is Done: return getattr(self, pname)` idiom (legacy, documented TODO) -> cfg node ids"""
    def is_done(a, tv):
        return isinstance(a, ast.Compare) and len(a.ops) == 1 and src(a.comparators[0]) == 'Done' and \
            ((isinstance(a.ops[0], ast.Is) and tv) or (isinstance(a.ops[0], ast.IsNot) and not tv))
    side = sides_with_fact(cfg, is_done)
    res = set()
    for node in body_walk(funcnode):
        if isinstance(node, ast.Return) and set(cfg.node_of(node)) <= side:
            res.update(cfg.node_of(node))
    return res


@rule('C05.R5', min_instances=3)
def message_from_cache_entry(ctx):
    """make_update reads only its arguments (the cache entry); announce_update forwards exactly that to
    broadcast_event; updateCallback has exactly one assignment, to dispatcher.announce_update"""
    m = ctx.m
    mu = m.func('frappy.protocol.dispatcher.make_update')
    ctx.analysed(mu)
    params = {a.arg for a in mu.node.args.args}
    used = {n.id for n in body_walk(mu.node) if isinstance(n, ast.Name) and isinstance(n.ctx, ast.Load)}
    consts = {n for n in used if n in mu.module.imports or n in mu.module.consts}
    stored = {n.id for n in body_walk(mu.node) if isinstance(n, ast.Name) and isinstance(n.ctx, ast.Store)}      # locals computed from the arguments
    helpers = {n for n in used if f'{mu.module.name}.{n}' in m.functions}      # functions of the dispatcher module that are given the cache entry
    extra = used - params - consts - {'str'} - stored - helpers
    ctx.check(not extra, f'{mu.qualname}:reads only the cache entry', mu.node,
              'message is a function of (modulename, cache entry) and protocol constants only',
              f'make_update depends on other state: {sorted(extra)}', mu)
    au = m.method(roles.DISPATCHER, 'announce_update', inherited=False)
    ctx.analysed(au)
    calls = func_calls(au.node, attr='broadcast_event')
    good = any(c.args and isinstance(c.args[0], ast.Call) and call_attr(c.args[0]) == 'make_update' for c in calls)
    ctx.check(good, f'{au.qualname}:forwards make_update to broadcast_event', au.node,
              'announce_update broadcasts make_update(module, entry)',
              'announce_update does not broadcast the message built from the cache entry', au)
    writers = []
    for q, fi in m.functions.items():
        if not fi.module.name.startswith('frappy.') or fi.module.name.startswith('frappy.gui'):
            continue
        for tgt, value, st in attr_stores(fi.node):
            if tgt.attr == 'updateCallback':
                writers.append((fi, tgt, value))
    if not writers:
        raise roles.AnchorMissing('no assignment to updateCallback found')
    for fi, tgt, value in writers:
        ok = fi.qualname == 'frappy.modulebase.Module.__init__' and value is not None and src(value).endswith('dispatcher.announce_update')
        ctx.check(ok, f'{fi.qualname}:store updateCallback', tgt,
                  'single notification target dispatcher.announce_update',
                  f'updateCallback is (re)assigned to `{src(value) if value is not None else "?"}`: updates may bypass the dispatcher', fi)


@rule('C05.R6', min_instances=2)
def activation_registers_before_snapshot(ctx):
    """shared with C08.R1: a connection is registered before its snapshot is sent (no update can fall between)"""
    from sa.rules import c08
    c08.register_then_snapshot(ctx)


@rule('C05.R2b', min_instances=1)
def callback_guard_handler_is_total(ctx):
    """between the cache store and the notification nothing may escape: the handler that guards the parameter callbacks
    must itself be unable to raise (no attribute access on the callback object, no calls besides logging)"""
    m = ctx.m
    f = roles.cache_funnel(m)
    ctx.analysed(f)
    n = 0
    for loop in [x for g, site in funnel_unit(m) for x in body_walk(g.node) if isinstance(x, ast.For) and 'paramCallbacks' in src(x.iter)]:
        names = {x.id for x in ast.walk(loop.target) if isinstance(x, ast.Name)}
        # `with suppress(Exception): cbfunc(...)` is a guard that can not raise itself
        for w in [x for x in walk_local(loop) if isinstance(x, ast.With)]:
            if any(isinstance(it.context_expr, ast.Call) and (dotted(it.context_expr.func) or '').rpartition('.')[2] == 'suppress' and
                   any(src(a) in ('Exception', 'BaseException') for a in it.context_expr.args) for it in w.items):
                n += 1
                ctx.ok(f'{f.qualname}:callback guard handler is total', w, 'contextlib.suppress(Exception)', f)
        for t in [x for x in walk_local(loop) if isinstance(x, ast.Try)]:
            for h in t.handlers:
                n += 1
                risky = []
                for st in h.body:
                    for x in walk_local(st):
                        if isinstance(x, ast.Attribute) and isinstance(x.value, ast.Name) and x.value.id in names:
                            risky.append(x)
                        if isinstance(x, ast.Call) and not (isinstance(x.func, ast.Attribute) and src(x.func.value).endswith('log')):
                            risky.append(x)
                        if isinstance(x, ast.Raise):
                            risky.append(x)
                ctx.check(not risky, f'{f.qualname}:callback guard handler is total', h, 'the handler can not raise',
                          f'the handler guarding the parameter callbacks evaluates `{src(risky[0]) if risky else ""}`, which can raise (e.g. a '
                          'functools.partial has no __name__): the exception escapes announceUpdate after the cache was changed and before the '
                          'dispatcher was notified - the update is lost and repeated errors are then suppressed', f)
    if not n:
        ctx.bad(f'{f.qualname}:callback guard handler is total', f.node, 'the parameter callbacks are not guarded by a try/except: a failing '
                'callback prevents the notification of the dispatcher', f)


@rule('C05.R5b', min_instances=1)
def exported_value_is_a_function_of_the_cache(ctx):
    """Parameter.export_value (used by make_update, the snapshot and the read / change replies) is a pure function of the
    cached value and the datatype: it keeps no memo of its own (a memo is keyed by something - a time stamp, an identity -
    that can stay the same while the value changes, and the message then carries a value the cache does not hold)"""
    m = ctx.m
    f = m.method('frappy.params.Parameter', 'export_value', inherited=False)
    ctx.analysed(f)
    stores = [s for t, v, s in attr_stores(f.node) if dotted(t.value) == 'self']
    loads = {n.attr for n in body_walk(f.node) if isinstance(n, ast.Attribute) and dotted(n.value) == 'self' and isinstance(n.ctx, ast.Load)}
    extra = loads - {'value', 'datatype'}
    ctx.check(not stores, f'{f.qualname}:keeps no state', stores[0] if stores else f.node, 'no store to self',
              f'`{src(stores[0]) if stores else ""}`: the exported form is remembered across calls', f)
    ctx.check(not extra, f'{f.qualname}:depends on value and datatype only', f.node, f'reads self.{sorted(loads)}',
              f'the exported value also depends on self.{sorted(extra)}: two different cached values can be exported as the same message', f)
    rets = [r for r in body_walk(f.node) if isinstance(r, ast.Return) and r.value is not None]
    for r in rets:
        exprs = origins(r.value, f.node) if isinstance(r.value, ast.Name) else [r.value]
        ok = all(isinstance(e, ast.Call) and call_attr(e) == 'export_value' and e.args and src(e.args[0]) == 'self.value' for e in exprs)
        ctx.check(ok, f'{f.qualname}:returns the export of the cached value', r, 'datatype.export_value(self.value)',
                  f'returns `{src(r.value)}`, which is not (only) the export of self.value', f)


@rule('C05.R7', min_instances=1)
def scope_prefix_has_separator(ctx):
    """shared with C08.R3c: a prefix test over the subscription keys uses `<module>:` with the separator - otherwise a
    connection silently loses the updates of a scope it never deactivated, and its stream no longer follows the cache"""
    from sa.rules import c08
    if not c08.check_scope_prefix(ctx):
        raise roles.AnchorMissing('prefix test over _subscriptions not found')


@rule('C05.R8', min_instances=3)
def listeners_are_a_private_copy(ctx):
    """shared with C08.R4: broadcast_event sends to a private copy of the subscriber sets (a connection that (de)activates
    or disconnects while a message is being delivered must not break the delivery loop: the message would be lost for the
    connections not yet served and their stream no longer reconstructs the cache)"""
    from sa.rules import c08
    c08.listener_sources(ctx)


@rule('C05.R10', min_instances=3)
def messages_arrive_whole(ctx):
    """shared with C07.R4: updates are sent by the poll threads of several modules and by request threads to the same
    connection; each encoded frame is handed to the socket inside the connection's send_lock, so that a message is never
    cut in two by another one (a damaged line is not a message: the stream then no longer reconstructs the cache)"""
    from sa.rules import c07
    c07.line_atomicity(ctx)


def _truth_polarity(test):
    """(source of the core expression, negated?) for a plain truth test `x` / `not x`"""
    neg = False
    while isinstance(test, ast.UnaryOp) and isinstance(test.op, ast.Not):
        neg = not neg
        test = test.operand
    return src(test), neg


@rule('C05.R5c', min_instances=4)
def update_message_follows_the_error_state(ctx):
    """make_update: on the side where the cache entry holds a read error the message is the error update
    (error_update, [class name, text, qualifiers]); on the other side it is the value update with the exported cached value;
    both are complete triples with the specifier '<module>:<exported name>' (polarity of the test included)"""
    m = ctx.m
    mu = m.func('frappy.protocol.dispatcher.make_update')
    ctx.analysed(mu)
    cfg = CFG(mu.node, m, mu.module)
    p = mu.node.args.args[1].arg
    tests = [t for t in cfg.nodes if t.kind == 'test' and not isinstance(t.ast, ast.stmt) and _truth_polarity(resolved(t.ast, mu.node))[0] == f'{p}.readerror']
    rets = [n for n in body_walk(mu.node) if isinstance(n, ast.Return)]
    if len(rets) == 1 and isinstance(rets[0].value, ast.Tuple) and len(rets[0].value.elts) == 3 and isinstance(rets[0].value.elts[0], ast.Name) \
            and isinstance(rets[0].value.elts[2], ast.Name):
        # one exit returning (action, specifier, report) with action and report bound per branch: each binding of the action, with the
        # report bound next to it, is read as the triple of its branch
        aname, rname = rets[0].value.elts[0].id, rets[0].value.elts[2].id
        pseudo = []
        for st in body_walk(mu.node):
            if isinstance(st, ast.Assign) and len(st.targets) == 1 and isinstance(st.targets[0], ast.Name) and st.targets[0].id == aname:
                block = next((lst for par in [getattr(st, 'parent', None)] for f_ in ('body', 'orelse') for lst in [getattr(par, f_, None)]
                              if isinstance(lst, list) and st in lst), [])
                data = next((x.value for x in block if isinstance(x, ast.Assign) and len(x.targets) == 1 and isinstance(x.targets[0], ast.Name)
                             and x.targets[0].id == rname), None)
                if data is not None:
                    tup = ast.Tuple(elts=[st.value, resolved(rets[0].value.elts[1], mu.node), resolved(data, mu.node)], ctx=ast.Load())
                    r2 = ast.Return(value=tup)
                    ast.copy_location(r2, st)
                    ast.fix_missing_locations(r2)
                    r2._anchor = st
                    pseudo.append(r2)
        if len(pseudo) >= 2:
            rets = pseudo
    if not tests or not rets:
        raise AnchorMissing('test of pobj.readerror / returns not found in make_update', violation=f'{mu.qualname}:error state selects the message kind')
    t = tests[0]
    neg = _truth_polarity(t.ast)[1]
    err_side = cfg.reach([t.id], labels={'F' if neg else 'T'}, avoid=[t.id])
    val_side = cfg.reach([t.id], labels={'T' if neg else 'F'}, avoid=[t.id])
    seen = {'error': 0, 'value': 0}
    for r in rets:
        v = r.value
        ids = set(cfg.ids(getattr(r, '_anchor', r)))
        if not (isinstance(v, ast.Tuple) and len(v.elts) == 3):
            ctx.bad(f'{mu.qualname}:returns a message triple', r, f'`return {src(v) if v is not None else ""}` is not an (action, specifier, data) triple', mu)
            continue
        action, spec, data = v.elts
        is_err = 'ERRORPREFIX' in src(action)
        kind = 'error' if is_err else 'value'
        seen[kind] += 1
        side_ok = (ids <= err_side and not (ids & val_side - err_side)) if is_err else (ids & val_side and not (ids <= err_side and not ids & val_side))
        ctx.check(bool(side_ok), f'{mu.qualname}:{kind} update on the {kind} side of the readerror test', r, f'`{src(t.ast)}` selects it',
                  f'the {kind} update is built on the side of `{src(t.ast)}` where the cache entry holds ' + ('no error' if is_err else 'an error') +
                  ': an error state is announced as a value update with the stale value (and a good value as an error update)', mu)
        ctx.check('EVENTREPLY' in src(action), f'{mu.qualname}:{kind} update action', r, src(action), f'action `{src(action)}` is not built from EVENTREPLY', mu)
        ok_spec = isinstance(spec, ast.JoinedStr) and f'{p}.export' in src(spec) and mu.node.args.args[0].arg in src(spec)
        ctx.check(ok_spec, f'{mu.qualname}:{kind} update specifier', r, src(spec), f'specifier `{src(spec)}` is not <module>:<exported name>', mu)
        d = src(resolved(data, mu.node))
        if is_err:
            ctx.check(f'{p}.readerror.name' in d and f'str({p}.readerror)' in d, f'{mu.qualname}:error update data', r, d,
                      f'`{d}` does not carry the error class name and text of the cached error', mu)
        else:
            ctx.check(f'{p}.export_value()' in d, f'{mu.qualname}:value update data', r, d, f'`{d}` does not carry the exported cached value', mu)
    ctx.check(seen['error'] >= 1 and seen['value'] >= 1, f'{mu.qualname}:error state selects the message kind', mu.node, 'one error update and one value update',
              f'make_update builds {seen}: one of the two message kinds is missing', mu)


@rule('C05.R2c', min_instances=2)
def cached_error_is_a_secop_error(ctx):
    """the funnel stores into pobj.readerror only None or the result of secop_error(...): make_update reads
    .name of it - a raw exception there makes every later update of the parameter raise inside the notification, the stream
    stops following the cache; and the datatype conversion of an assigned value runs on the `validate` side"""
    m = ctx.m
    f = roles.cache_funnel(m)
    ctx.analysed(f)
    cfg = CFG(f.node, m, f.module)
    rd = ReachingDefs(cfg, f.node)
    stores = [(t, v, s) for t, v, s in attr_stores(f.node) if t.attr == 'readerror']
    if not stores:
        raise AnchorMissing('store to .readerror not found in the cache funnel')
    for t, v, s in stores:
        if isinstance(v, ast.Constant) and v.value is None:
            ctx.ok(f'{f.qualname}:stored error is a SECoP error', s, 'None', f)
            continue
        if isinstance(v, ast.Attribute) and isinstance(v.value, ast.Name) and v.value.id != 'self' and \
                any(isinstance(x, ast.Assign) and any(isinstance(tg, ast.Name) and tg.id == v.value.id for tg in x.targets) and isinstance(x.value, ast.Call)
                    for x in body_walk(f.node)):
            # a field of a helper object built in the funnel (`update = CacheUpdate(pobj, value, err)` ... `update.err`): decided there, not here
            ctx.undecided(f'{f.qualname}:stored error is a SECoP error', s, f'`{src(s)}`: the error is a field of a helper object of the funnel', f)
            continue
        if not isinstance(v, ast.Name):
            ok = isinstance(v, ast.Call) and dotted(v.func) == 'secop_error'
            ctx.check(ok, f'{f.qualname}:stored error is a SECoP error', s, 'secop_error(...)', f'`{src(s)}` stores an unconverted error', f)
            continue
        if isinstance(s, ast.Assign) and isinstance(s.targets[0], (ast.Tuple, ast.List)):
            # taken out of what a helper of the funnel handed back (`pobj.readerror, cbargs = report`): decided there, not here
            o = rd.origins_at(s, v)
            if o and all(isinstance(x, ast.Call) and isinstance(x.func, ast.Attribute) and dotted(x.func.value) == 'self' for x in o):
                ctx.undecided(f'{f.qualname}:stored error is a SECoP error', s, f'`{src(s)}`: the error comes out of a helper method of the funnel', f)
                continue
        # `err` is a local: on every path on which it is truthy, the last assignment before the store is `err = secop_error(...)`
        name = v.id
        sids = cfg.node_of(s)
        conv = [i for c in calls_in(f.node) if dotted(c.func) == 'secop_error' for a in [enclosing_stmt(c)]
                if isinstance(a, ast.Assign) and any(isinstance(tg, ast.Name) and tg.id == name for tg in a.targets) for i in cfg.node_of(a)]
        tests = [tt for tt in cfg.nodes if tt.kind == 'test' and _truth_polarity(tt.ast)[0] == name and all(cfg.dominates([tt.id], i) for i in sids)]
        ok = False
        for tt in tests:
            truthy = [b_ for b_, lab in cfg.succ[tt.id] if lab == ('F' if _truth_polarity(tt.ast)[1] else 'T')]
            others = [i for x in body_walk(f.node) if isinstance(x, ast.Assign) and any(isinstance(tg, ast.Name) and tg.id == name for tg in x.targets)
                      for i in cfg.node_of(x) if i not in conv]
            after = cfg.reach([tt.id], avoid=[tt.id])
            if conv and cfg.all_paths_pass(truthy, sids, conv, exc=False) and not (set(others) & after):
                ok = True
            elif conv and not (set(sids) & reach_with_flags(cfg, truthy, avoid=conv)) and not (set(others) & after):
                ok = True       # the store is skipped by a flag on the paths that leave the conversion out (`if wanted:` twice)
        ctx.check(ok, f'{f.qualname}:stored error is a SECoP error', s, f'on the `if {name}:` side the error passes secop_error() before it is stored',
                  f'`{src(s)}`: a path on which `{name}` is set reaches the store without `{name} = secop_error({name})` - make_update reads `.name` of the '
                  'cached error, a raw exception raises AttributeError inside the notification and the update (and every later one) is lost', f)
    conv = [c for c in calls_in(f.node) if call_attr(c) in ('datatype', 'validate') or (isinstance(c.func, ast.Attribute) and c.func.attr == 'datatype')]
    vt = [tt for tt in cfg.nodes if tt.kind == 'test' and _truth_polarity(tt.ast)[0] == 'validate']
    for tt in vt:
        neg = _truth_polarity(tt.ast)[1]
        on = cfg.reach([tt.id], labels={'F' if neg else 'T'}, avoid=[tt.id])
        off = cfg.reach([tt.id], labels={'T' if neg else 'F'}, avoid=[tt.id])
        ids = {i for c in conv for i in cfg.node_of(c)}
        ctx.check(bool(ids) and ids <= on and not (ids & off - on), f'{f.qualname}:conversion on the validate side', tt.ast, 'datatype(value) runs iff validate',
                  f'`{src(tt.ast)}`: the datatype conversion runs on the side where validate is false: assigned values enter the cache unchecked', f)


@rule('C05.R11', min_instances=1)
def activated_connection_stays_activated(ctx):
    """shared with C08.R3g: a connection that is generally activated keeps receiving every update until IT deactivates the
    whole node: a `deactivate <module>` must not end the general activation (the stream would stop following the cache)"""
    from sa.rules import c08
    c08.a_scoped_deactivate_leaves_the_general_activation_alone(ctx)


@rule('C05.R12', min_instances=2)
def a_lost_frame_ends_the_connection(ctx):
    """shared with C08.R8: every handler around the socket send in send_reply (tcp and websocket) ends the connection - a
    handler that only logs loses that update while the connection stays activated, and replaying what the client received
    no longer reproduces the cache (a recovery from an error is then never announced to it)"""
    from sa.rules import c08
    c08.a_message_is_delivered_or_the_connection_dropped(ctx)


@rule('C05.R13', min_instances=9)
def update_messages_carry_the_transport_form_of_every_member(ctx):
    """shared with C02.R2: make_update sends Parameter.export_value(), which for a container parameter has to go through
    export_value of the member datatypes - an array of scaled integers / enums / blobs exported with the member's validating
    __call__ puts internal values on the wire, and replaying the messages does not reproduce the cached value"""
    from sa.rules import c02
    c02.container_delegation(ctx)
