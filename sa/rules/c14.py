"""C14 - state machine: bounded cycles, exactly-once cleanup, last start wins"""
from sa.core import rule, prop_info
from sa.lib import *  # noqa: F401,F403
from sa.lib import (attr_stores, in_lock, enclosing_tries, handler_catches_all, handler_reraises, compare_ops,
                    func_calls, contained_by_catch_all)
from sa.model import AnchorMissing

SM = 'frappy.lib.statemachine.StateMachine'

prop_info(
    'C14',
    'Decided: R1 cycle() contains no while loop, every for loop runs over range(<constant>) or range(self.maxloops) '
    'and cycle is not recursive; R2 the state function call and the cleanup call are inside catch-all handlers that '
    'do not re-raise and a non-callable return is routed to the cleanup; R3 start/stop store nothing but next_task, '
    'inside the lock region, and cycle takes the task by a swap inside the lock region; R4 _cleanup swaps the '
    'cleanup function to None inside the lock region before calling it, interruption is guarded by '
    '`not cleanup_reason`, cleanup_reason is reset only at task pick-up; R5 init is set only in _new_state and '
    'cleared only directly after the state function returned normally; R6 the busy predicate is the half-open '
    'interval BUSY <= code < ERROR and start_machine stores a status before posting the task.',
    not_decided='last-start-wins and exactly-once cleanup on concrete operation sequences (histories), status texts; '
                'exceptions raised by the transition hook or by forbidden attribute names are outside the state-function programs.')


def _m(m, name):
    return m.method(SM, name, inherited=False)


def _taken_atomically(store, attr):
    """`x, self.<attr> = self.<attr>, None`  or  `x = self.<attr>` directly followed by `self.<attr> = None`
    (both statements inside the same lock region - the caller checks the region of the store)"""
    if isinstance(store, ast.Assign) and isinstance(store.value, ast.Tuple):
        return f'self.{attr}' in src(store.value) and isinstance(store.value.elts[-1], ast.Constant) and store.value.elts[-1].value is None
    if isinstance(store, ast.Assign) and isinstance(store.value, ast.Constant) and store.value.value is None:
        par = store.parent
        for field in ('body', 'orelse', 'finalbody'):
            lst = getattr(par, field, None)
            if isinstance(lst, list) and store in lst:
                i = lst.index(store)
                prev = lst[i - 1] if i > 0 else None
                return isinstance(prev, ast.Assign) and src(prev.value) == f'self.{attr}' and isinstance(par, ast.With)
    return False


_VIEWS = {}


def _method_view(m, ci, h):
    """a module level function whose first parameter is the state machine, read as a method of it: a private copy of its
    tree with that parameter renamed to `self`"""
    from sa.model import FuncInfo, _clone_ast, set_parents
    key = (id(m), h.qualname)
    if key not in _VIEWS:
        node = _clone_ast(h.node)
        recv = node.args.args[0].arg
        for n in ast.walk(node):
            if isinstance(n, ast.Name) and n.id == recv:
                n.id = 'self'
            elif isinstance(n, ast.arg) and n.arg == recv:
                n.arg = 'self'
        set_parents(node)
        v = FuncInfo(h.qualname, node, h.module, ci, None)
        node.finfo = v
        _VIEWS[key] = v
    return _VIEWS[key]


def _cycle_unit(m):
    """cycle() and the private methods of the state machine it is split into (transitively; _cleanup and _new_state are
    units with rules of their own)"""
    ci = m.cls(SM)
    seen, todo = [], [_m(m, 'cycle')]
    while todo:
        f = todo.pop()
        if f in seen or any(f.qualname == g.qualname for g in seen):
            continue
        seen.append(f)
        for c in calls_in(f.node):
            if isinstance(c.func, ast.Name) and c.args and src(c.args[0]) == 'self':
                # a module level function the machine is handed to (`_run_states(self)`): read as a method (receiver renamed)
                h = m.functions.get(f'{f.module.name}.{c.func.id}')
                if h is not None and h.cls is None and h.node.args.args:
                    v = _method_view(m, ci, h)
                    if any(src(x.func) == 'self.statefunc' or call_attr(x) in ('_cleanup', '_new_state') or
                           (isinstance(x.func, ast.Name) and x.args and src(x.args[0]) == 'self') for x in calls_in(v.node)):
                        todo.append(v)
                continue
            if isinstance(c.func, ast.Attribute) and dotted(c.func.value) == 'self' and c.func.attr in ci.methods and \
                    c.func.attr not in ('_cleanup', '_new_state', 'cycle', 'start', 'stop'):
                h = ci.methods[c.func.attr]
                # only helpers that take part in stepping the machine (they call the state function, _cleanup, _new_state or
                # another such helper) - not bookkeeping like _update_attributes
                if any(src(x.func) == 'self.statefunc' or call_attr(x) in ('_cleanup', '_new_state') or
                       (isinstance(x.func, ast.Attribute) and dotted(x.func.value) == 'self' and x.func.attr.startswith('_') and x.func.attr in ci.methods
                        and x.func.attr not in ('_update_attributes',)) for x in calls_in(h.node)):
                    todo.append(h)
    return seen


def _owner(m, pred):
    """[(function of the cycle unit, call)] for the calls accepted by pred"""
    return [(f, c) for f in _cycle_unit(m) for c in calls_in(f.node) if pred(c)]


@rule('C14.R1', min_instances=3)
def bounded_cycle(ctx):
    """no while, bounded for loops, no recursion in cycle"""
    m = ctx.m
    f = _m(m, 'cycle')
    unit = _cycle_unit(m)
    nfor = 0
    for g in unit:
        ctx.analysed(g)
        whiles = [n for n in body_walk(g.node) if isinstance(n, ast.While)]
        def budgeted(w):
            # `while not done:` whose every round first draws from an iterator over a range: `if next(budget, None) is None: <leave>`
            its = {x.targets[0].id for x in body_walk(g.node) if isinstance(x, ast.Assign) and len(x.targets) == 1 and isinstance(x.targets[0], ast.Name)
                   and any(isinstance(c, ast.Call) and dotted(c.func) == 'iter' and c.args and isinstance(c.args[0], ast.Call) and dotted(c.args[0].func) == 'range'
                           for c in ast.walk(x.value))}
            first = w.body[0] if w.body else None
            return isinstance(first, ast.If) and any(isinstance(c, ast.Call) and dotted(c.func) == 'next' and c.args and isinstance(c.args[0], ast.Name)
                                                     and c.args[0].id in its for c in ast.walk(first.test))
        if whiles and all(budgeted(w) for w in whiles):
            ctx.undecided(f'{g.qualname}:no while loop', whiles[0], f'`while {src(whiles[0].test)}` draws from an iterator over a range in every round: '
                          'bounded if every round does - not decided', g)
            whiles = []
        ctx.check(not whiles, f'{g.qualname}:no while loop', whiles[0] if whiles else g.node, 'no while loop',
                  f'{g.name} contains a while loop: a chain of state functions that never returns Retry does not terminate', g)
        fors = [n for n in body_walk(g.node) if isinstance(n, (ast.For, ast.AsyncFor))]
        nfor += len(fors)
        for n in fors:
            it = n.iter
            ok = isinstance(it, ast.Call) and dotted(it.func) == 'range' and len(it.args) == 1 and \
                (isinstance(it.args[0], ast.Constant) and isinstance(it.args[0].value, int) or src(it.args[0]) == 'self.maxloops')
            ctx.check(ok, f'{g.qualname}:bounded loop over `{src(it)}`'.replace(src(it), 'range(...)') + f' #{fors.index(n)}', n,
                      f'iterates {src(it)}', f'loop over `{src(it)}` is not bounded by a constant or self.maxloops', g)
    if not nfor:
        raise AnchorMissing('no for loop in StateMachine.cycle')
    names = {g.name for g in unit}
    rec = [c for g in unit for c in calls_in(g.node) if call_attr(c) == 'cycle' or (g is not f and call_attr(c) == g.name)]
    ctx.check(not rec, f'{f.qualname}:not recursive', f.node, 'cycle does not call cycle', 'cycle calls itself', f)
    init = _m(m, '__init__')
    st = [v for t, v, s in attr_stores(init.node) if t.attr == 'maxloops']
    ctx.check(bool(st) and all(isinstance(v, ast.Constant) and isinstance(v.value, int) and v.value > 0 for v in st),
              f'{init.qualname}:maxloops is a positive constant', init.node, 'maxloops initialised with a positive int',
              'maxloops is not initialised with a positive integer constant', init)


@rule('C14.R9', min_instances=1)
def active_means_a_state_function_is_installed(ctx):
    """StateMachine.is_active is what HasStates.stop_machine asks before it posts a Stop: it has to be true as long as ANY state
    function is installed - the states of a running clean-up sequence included.  A definition that also looks at
    cleanup_reason (or the pending task) makes stop() return silently while a restart is being cleaned up: the pending Start
    survives and the new state is entered although stop was the last request"""
    m = ctx.m
    ci = m.cls(SM)
    f = ci.methods.get('is_active')
    if f is None:
        raise AnchorMissing('StateMachine.is_active not found')
    ctx.analysed(f)
    reads = {n.attr for n in body_walk(f.node) if isinstance(n, ast.Attribute) and dotted(n.value) == 'self' and isinstance(n.ctx, ast.Load)}
    extra = reads - {'statefunc'}
    ctx.check('statefunc' in reads and not extra, f'{f.qualname}:depends on the installed state function only', f.node, 'reads self.statefunc only',
              f'is_active also reads {sorted(extra)}: a machine that is executing its clean-up states counts as inactive, so stop_machine() does not post '
              'its Stop - a Start posted before survives the stop', f)
    users = [c for q, g in m.functions.items() if g.module.name == 'frappy.states' for c in body_walk(g.node)
             if isinstance(c, ast.Attribute) and c.attr == 'is_active']
    ctx.check(bool(users), 'frappy.states:stop_machine asks is_active', None, 'is_active is what frappy.states consults', 'frappy.states no longer consults is_active')


def _result_names(f):
    """locals of cycle() holding the next state: bound to the result of the state function or of _cleanup(...)"""
    return {t.id for n in body_walk(f.node) if isinstance(n, ast.Assign) and isinstance(n.value, ast.Call)
            and (src(n.value.func) == 'self.statefunc' or call_attr(n.value) == '_cleanup') for t in n.targets if isinstance(t, ast.Name)}


@rule('C14.R2', min_instances=3)
def never_raises(ctx):
    """state function and cleanup calls are contained; non-callable results go to _cleanup"""
    m = ctx.m
    sfo = _owner(m, lambda c: src(c.func) == 'self.statefunc')
    if not sfo:
        raise AnchorMissing('self.statefunc(self) call not found in cycle')
    f = sfo[0][0]
    ctx.analysed(f)
    for f, c in sfo:
        t, h = contained_by_catch_all(c)
        ok = t is not None and not handler_reraises(h)
        ctx.check(ok, f'{f.qualname}:state function call contained', c, 'inside try/except Exception without re-raise',
                  'the state function is called outside a catch-all handler (or the handler re-raises): an exception in a '
                  'state function propagates out of cycle()', f)
        if ok:
            routed = any(call_attr(x) == '_cleanup' for st in h.body for x in calls_in(st))
            ctx.check(routed, f'{f.qualname}:exception routed to cleanup', h, 'handler calls _cleanup(e)',
                      'an exception of the state function does not start the cleanup sequence', f)
    # a _cleanup(...) call that lies exactly where a test found the result of the state function not callable
    rv = _result_names(f)
    fcfg = CFG(f.node, m, f.module)
    notcallable = sides_with_fact(fcfg, lambda a, tv: not tv and isinstance(a, ast.Call) and dotted(a.func) == 'callable' and a.args and src(a.args[0]) in rv)
    ok = any(call_attr(x) == '_cleanup' and set(fcfg.node_of(x)) <= notcallable for x in calls_in(f.node))
    if not ok:
        # ... or a call of a local function of cycle() that ends in _cleanup (`successor = misbehaved('return value must be ...')`)
        local = {d.name for d in ast.walk(f.node) if isinstance(d, ast.FunctionDef) and d is not f.node and any(call_attr(x) == '_cleanup' for x in calls_in(d))}
        ok = any(isinstance(x.func, ast.Name) and x.func.id in local and set(fcfg.node_of(x)) <= notcallable for x in calls_in(f.node))
    ctx.check(ok, f'{f.qualname}:non-callable return routed to cleanup', f.node, 'if not callable(ret): ret = self._cleanup(...)',
              'a non-callable return value is not routed to the cleanup (it would be called as next state)', f)
    g = _m(m, '_cleanup')
    ctx.analysed(g)
    cc = [c for c in calls_in(g.node) if isinstance(c.func, ast.Name) and c.func.id == 'cleanup']
    if not cc:
        raise AnchorMissing('cleanup(self) call not found in _cleanup')
    gcfg = CFG(g.node, m, g.module)
    for c in cc:
        t, h = contained_by_catch_all(c)
        ctx.check(t is not None and not handler_reraises(h), f'{g.qualname}:cleanup call contained', c,
                  'inside try/except Exception without re-raise', 'an exception in the cleanup function propagates out of cycle()', g)
        # what _cleanup hands back becomes the next state function: None or a callable, whatever the cleanup function returned
        st = enclosing_stmt(c)
        if isinstance(st, ast.Assign) and len(st.targets) == 1 and isinstance(st.targets[0], ast.Name) and st.value is c:
            nm = st.targets[0].id
            bad = value_returned_under(gcfg, g.node, st, nm, {f'{nm} is None': False, f'callable({nm})': False})
            ctx.check(not bad, f'{g.qualname}:hands back None or a callable only', bad[0] if bad else st,
                      'a result of the cleanup function that is neither None nor callable never reaches a return',
                      f'`{src(bad[0]) if bad else ""}` is reached with `{nm}` still holding a result of the cleanup function that is neither None nor callable '
                      '(e.g. a string): it becomes the state function, every later cycle() raises, the machine never gets inactive and a pending start is never entered', g)
        elif isinstance(st, ast.Return):
            ctx.bad(f'{g.qualname}:hands back None or a callable only', st, 'the result of the cleanup function is returned unchecked', g)
        else:
            ctx.undecided(f'{g.qualname}:hands back None or a callable only', st, 'use of the result of the cleanup function not recognised', g)


@rule('C14.R3', min_instances=3)
def start_stop_post_a_task(ctx):
    """start/stop store only next_task, inside the lock; cycle swaps it inside the lock"""
    m = ctx.m
    for name in ('start', 'stop'):
        f = _m(m, name)
        ctx.analysed(f)
        stores = [(t, v, s) for t, v, s in attr_stores(f.node) if dotted(t.value) == 'self']
        others = [t for t, v, s in stores if t.attr != 'next_task']
        nt = [t for t, v, s in stores if t.attr == 'next_task']
        ctx.check(bool(nt) and not others, f'{f.qualname}:stores only next_task', f.node, 'only next_task is stored',
                  f'{name}() stores {[src(t) for t in others]} directly: state of a running cycle/cleanup is modified from another thread', f)
        for t in nt:
            ctx.check(in_lock(t, '_lock'), f'{f.qualname}:next_task stored inside lock', t, 'inside `with self._lock`',
                      'next_task is stored outside the lock region', f)
        calls = [c for c in calls_in(f.node) if isinstance(c.func, ast.Attribute) and dotted(c.func.value) == 'self'
                 and c.func.attr not in ('setdefault',)]
        ctx.check(not calls, f'{f.qualname}:no machine method called', f.node, 'start/stop call no method of the machine',
                  f'{name}() calls {[src(c.func) for c in calls]}: it does more than posting a task', f)
    f = _m(m, 'cycle')
    swaps = [s for t, v, s in attr_stores(f.node) if t.attr == 'next_task']
    ok = bool(swaps) and all(in_lock(s, '_lock') and _taken_atomically(s, 'next_task') for s in swaps)
    ctx.check(ok, f'{f.qualname}:task taken by swap inside lock', f.node, 'action, self.next_task = self.next_task, None under the lock',
              'the posted task is not taken by an atomic swap inside the lock: a start() arriving in between is lost', f)


@rule('C14.R4', min_instances=4)
def cleanup_taken_once(ctx):
    """cleanup swapped to None under the lock before the call; interruption guarded by not cleanup_reason;
    cleanup_reason reset only at task pick-up"""
    m = ctx.m
    g = _m(m, '_cleanup')
    ctx.analysed(g)
    cfg = CFG(g.node, m, g.module)
    swaps = [s for t, v, s in attr_stores(g.node) if t.attr == 'cleanup' and dotted(t.value) == 'self']
    ok = bool(swaps) and all(in_lock(s, '_lock') and _taken_atomically(s, 'cleanup') for s in swaps)
    ctx.check(ok, f'{g.qualname}:cleanup swapped to None inside lock', g.node, 'cleanup, self.cleanup = self.cleanup, None under the lock',
              'the cleanup function is not atomically taken (swapped to None under the lock): it can run twice', g)
    # the local(s) the function is taken into, and every use of them: called here, or handed to a helper that calls it
    taken = {'cleanup'} | {t.id for x in body_walk(g.node) if isinstance(x, ast.Assign) for t, v in
                           (zip(x.targets[0].elts, x.value.elts) if isinstance(x.targets[0], ast.Tuple) and isinstance(x.value, ast.Tuple)
                            and len(x.targets[0].elts) == len(x.value.elts) else [(x.targets[0], x.value)])
                           if isinstance(t, ast.Name) and src(v) == 'self.cleanup'}
    cc = [i for c in calls_in(g.node) if (isinstance(c.func, ast.Name) and c.func.id in taken) or
          any(isinstance(a, ast.Name) and a.id in taken for a in c.args) for i in cfg.node_of(c)]
    sw = [i for s in swaps for i in cfg.node_of(s)]
    if not cc:
        ctx.undecided(f'{g.qualname}:swap before call', g.node, 'no call of the taken cleanup function recognised in _cleanup', g)
    else:
        ctx.check(all(cfg.dominates(sw, i) for i in cc), f'{g.qualname}:swap before call', g.node,
                  'the swap dominates the call', 'the cleanup function is called before it was taken', g)
    rs = [(t, v, s) for t, v, s in attr_stores(g.node) if t.attr == 'cleanup_reason']
    ok = bool(rs) and all(any(isinstance(a, ast.If) and 'cleanup_reason is None' in src(a.test) for a in ancestors(s)) for t, v, s in rs)
    ctx.check(ok, f'{g.qualname}:first reason is kept', g.node, 'cleanup_reason stored only when None',
              'cleanup_reason is overwritten while a cleanup is in progress', g)
    intro = _owner(m, lambda c: call_attr(c) == '_cleanup' and c.args and src(c.args[0]) == 'self.next_task')
    if not intro:
        raise AnchorMissing('interrupting _cleanup(self.next_task) not found in cycle')
    for f, c in intro:
        ctx.analysed(f)
        # the interrupting clean-up lies only where the tests established: a task is pending AND no clean-up is running
        fcfg = CFG(f.node, m, f.module)
        pending = sides_with_fact(fcfg, lambda a, tv: tv and src(a) == 'self.next_task')
        idle = sides_with_fact(fcfg, lambda a, tv: (not tv and src(a) == 'self.cleanup_reason') or (tv and src(a) == 'self.cleanup_reason is None')
                               or (not tv and src(a) == 'self.cleanup_reason is not None'))
        ok = set(fcfg.node_of(c)) <= (pending & idle)
        ctx.check(ok, f'{f.qualname}:no interruption while cleaning up', c, 'guarded by `self.next_task and not self.cleanup_reason`',
                  'a running cleanup sequence can be interrupted / restarted by a new task', f)
    resets = [(fi, s) for fi in m.cls(SM).methods.values() for t, v, s in attr_stores(fi.node)
              if t.attr == 'cleanup_reason' and isinstance(v, ast.Constant) and v.value is None]
    for fi, s in resets:
        cfgf = CFG(fi.node, m, fi.module)
        taken = [i for t, v, st in attr_stores(fi.node) if t.attr == 'next_task' for i in cfgf.node_of(st)]
        ok = fi.name == 'cycle' and bool(taken) and all(cfgf.dominates(taken, i) for i in cfgf.node_of(s))
        ctx.check(ok, f'{fi.qualname}:cleanup_reason reset only at task pick-up', s, 'reset follows the task swap',
                  'cleanup_reason is reset elsewhere than at task pick-up: a cleanup in progress can be interrupted', fi)


@rule('C14.R5', min_instances=2)
def init_flag(ctx):
    """init = True only in _new_state; init = False only directly after the state function call"""
    m = ctx.m
    for fi in m.cls(SM).methods.values():
        for t, v, s in attr_stores(fi.node):
            if t.attr != 'init' or dotted(t.value) != 'self':
                continue
            ctx.analysed(fi)
            if isinstance(v, ast.Constant) and v.value is True:
                ctx.check(fi.name == '_new_state', f'{fi.qualname}:init set', s, 'set in _new_state',
                          'init is set to True outside _new_state: a state sees the init flag without a transition', fi)
            elif isinstance(v, ast.Constant) and v.value is False:
                par = s.parent
                lst = next((l for l in (getattr(par, 'body', []), getattr(par, 'orelse', []), getattr(par, 'finalbody', [])) if s in l), [])
                i = lst.index(s) if s in lst else -1
                prev = lst[i - 1] if i > 0 else None
                unit = _cycle_unit(m)
                in_unit = fi in unit or any(fi.qualname in m.inlined.get(g.qualname, ()) for g in unit)
                ok = in_unit and prev is not None and any(src(c.func) == 'self.statefunc' for c in calls_in(prev))
                ctx.check(ok, f'{fi.qualname}:init cleared', s, 'cleared directly after the state function returned',
                          'init is not cleared directly after the normal return of the state function: the second call of a '
                          'state still sees init (or the first one does not)', fi)
            else:
                ctx.undecided(f'{fi.qualname}:init stored', s, f'value `{src(v) if v is not None else None}`', fi)
    cyc = _m(m, 'cycle')
    cleared = [s for g in _cycle_unit(m) for t, v, s in attr_stores(g.node) if t.attr == 'init' and isinstance(v, ast.Constant) and v.value is False]
    ctx.check(bool(cleared), f'{cyc.qualname}:init cleared after the first call', cyc.node, 'self.init = False exists in cycle',
              'cycle never clears the init flag: every call of a state sees init=True', cyc)
    ns = _m(m, '_new_state')
    ok = any(t.attr == 'init' for t, v, s in attr_stores(ns.node)) and any(t.attr == 'statefunc' for t, v, s in attr_stores(ns.node))
    ctx.check(ok, f'{ns.qualname}:sets init and statefunc', ns.node, 'transition sets init and statefunc together',
              '_new_state does not set both init and statefunc', ns)
    nscfg = CFG(ns.node, m, ns.module)
    iset = [i for t, v, s in attr_stores(ns.node) if t.attr == 'init' and dotted(t.value) == 'self' and isinstance(v, ast.Constant) and v.value is True for i in nscfg.node_of(s)]
    ctx.check(bool(iset) and nscfg.all_paths_pass([nscfg.entry], [nscfg.exit], iset, exc=False), f'{ns.qualname}:init is set on every transition', ns.node,
              'self.init = True lies on every normal path through _new_state',
              '_new_state can be passed without `self.init = True` (the store depends on a condition - e.g. on a transition callback being configured): '
              'the first call of the new state does not see the init flag', ns)
    writers = [fi.name for fi in m.cls(SM).methods.values() for t, v, s in attr_stores(fi.node) if t.attr == 'statefunc' and dotted(t.value) == 'self']
    ctx.check(set(writers) <= {'_new_state'}, f'{SM}:statefunc has one writer', None, 'statefunc stored only in _new_state',
              f'statefunc is stored in {sorted(set(writers))}')


@rule('C14.R6', min_instances=2)
def busy_predicate(ctx):
    """Drivable.isBusy is BUSY <= code < ERROR; start_machine stores a status before posting the task"""
    m = ctx.m
    f = m.method('frappy.modules.Drivable', 'isBusy', inherited=False)
    ctx.analysed(f)
    rets = [n for n in body_walk(f.node) if isinstance(n, ast.Return)]
    ok = False
    for r in rets:
        ops = conj_compare_ops(r.value) if r.value is not None else []
        have = {(l.rpartition('.')[2] if 'StatusType' in l or l.isupper() else 'code', op, rr.rpartition('.')[2] if 'StatusType' in rr or rr.isupper() else 'code')
                for l, op, rr in ops}
        if ('BUSY', '<=', 'code') in have and ('code', '<', 'ERROR') in have and len(ops) == 2:
            ok = True
    ctx.check(ok, f'{f.qualname}:half-open busy interval', f.node, 'BUSY <= code < ERROR',
              'isBusy is not the half-open comparison BUSY <= code < ERROR (substates of BUSY / the ERROR boundary are misclassified)', f)
    sm = m.method('frappy.states.HasStates', 'start_machine', inherited=False)
    ctx.analysed(sm)
    cfg = CFG(sm.node, m, sm.module)
    st = [i for t, v, s in attr_stores(sm.node) if t.attr == 'status' for i in cfg.node_of(s)]
    post = [i for c in calls_in(sm.node) if call_attr(c) == 'start' for i in cfg.node_of(c)]
    if not post:
        raise AnchorMissing('sm.start(...) not found in start_machine')
    ctx.check(bool(st) and all(cfg.dominates(st, i) for i in post), f'{sm.qualname}:status stored before the task is posted', sm.node,
              'a (busy) status is stored on every path before sm.start', 'the task is posted before a busy status was stored', sm)


@rule('C14.R3b', min_instances=2)
def every_request_is_posted(ctx):
    """start() and stop() post their task on EVERY normal path: a request may be superseded only by a later request,
    never dropped by the posting function itself (a stop that is skipped because a stop-triggered cleanup is still
    running loses against a start that arrived in between: the superseded start wins, the machine never becomes idle)"""
    m = ctx.m
    for name in ('start', 'stop'):
        f = _m(m, name)
        ctx.analysed(f)
        cfg = CFG(f.node, m, f.module)
        posts = [i for t, v, s in attr_stores(f.node) if t.attr == 'next_task' and dotted(t.value) == 'self' for i in cfg.node_of(s)]
        ok = bool(posts) and cfg.all_paths_pass([cfg.entry], [cfg.exit], posts, exc=False)
        ctx.check(ok, f'{f.qualname}:posts its task on every path', f.node, 'no normal path around the store of next_task',
                  f'{name}() can return without posting its task: the request is silently dropped, an earlier (superseded) request is '
                  'carried out instead', f)


@rule('C14.R7', min_instances=3)
def task_kind_is_tested_on_the_task_itself(ctx):
    """a pending task is a Start (with .newstate / .kwds) or a Stop (without): every read of .newstate / .kwds of a task
    expression lies on the Start side of an isinstance test OF THAT SAME EXPRESSION (testing another slot, e.g.
    cleanup_reason instead of next_task, decides on the request that is being cleaned up, not on the one that is pending)"""
    m = ctx.m
    n = 0
    funcs = [fi for q, fi in sorted(m.functions.items()) if fi.module.name in ('frappy.lib.statemachine', 'frappy.states') and fi.cls is not None]
    for f in funcs:
        reads = [x for x in body_walk(f.node) if isinstance(x, ast.Attribute) and x.attr in ('newstate', 'kwds') and isinstance(x.ctx, ast.Load)
                 and not (isinstance(x.value, ast.Name) and x.value.id == 'self')]
        if not reads:
            continue
        cfg = CFG(f.node, m, f.module)
        for r in reads:
            e = src(r.value)
            n += 1
            ctx.analysed(f)
            ok = False
            tests_seen = []
            for t in cfg.nodes:
                if t.kind != 'test':
                    continue
                for c in [x for x in ast.walk(t.ast) if isinstance(x, ast.Call) and dotted(x.func) == 'isinstance' and len(x.args) == 2]:
                    if src(c.args[0]) != e:
                        continue
                    kinds = {dotted(k) for k in (c.args[1].elts if isinstance(c.args[1], ast.Tuple) else [c.args[1]])}
                    tests_seen.append(src(c))
                    negated = isinstance(t.ast, ast.UnaryOp) and isinstance(t.ast.op, ast.Not)
                    simple = t.ast is c or (negated and t.ast.operand is c)
                    if not simple:
                        continue
                    on_t = cfg.reach([t.id], labels={'T'}, avoid=[t.id])
                    on_f = cfg.reach([t.id], labels={'F'}, avoid=[t.id])
                    if negated:
                        on_t, on_f = on_f, on_t
                    ids = set(cfg.node_of(r))
                    if kinds == {'Start'} and ids <= on_t and not (ids & on_f):
                        ok = True
                    if 'Stop' in kinds and 'Start' not in kinds and ids <= on_f and not (ids & on_t):
                        ok = True
            if not ok and hasattr(ast, 'Match'):
                # `match <e>: case Exception(): .. case Stop(): .. case _: <read>` - the class patterns in front are the tests
                for a in ancestors(r):
                    if isinstance(a, ast.match_case):
                        mt = getattr(a, 'parent', None)
                        if isinstance(mt, ast.Match) and src(mt.subject) == e:
                            def classes(pat):
                                if isinstance(pat, ast.MatchClass):
                                    return {dotted(pat.cls)}
                                if isinstance(pat, ast.MatchOr):
                                    return set().union(*[classes(x) for x in pat.patterns])
                                return set()
                            before = set().union(*[classes(c.pattern) for c in mt.cases[:mt.cases.index(a)]]) if mt.cases.index(a) else set()
                            own = classes(a.pattern)
                            tests_seen.append(f'match {e}: case {sorted(before | own)}')
                            if own == {'Start'} or (not own and 'Stop' in before and 'Start' not in before):
                                ok = True
                        break
            ctx.check(ok, f'{f.qualname}:`{e}.{r.attr}` read on the Start side', r, f'guarded by an isinstance test of `{e}`',
                      f'`{src(r)}` is read without an isinstance(…, Start / Stop) test of `{e}` deciding the path (tests of that expression seen: '
                      f'{tests_seen or "none"}): when the pending task is a Stop the read raises AttributeError inside the transition callback / the '
                      'status announced for the pending request belongs to another request', f)
    if n < 2:
        raise AnchorMissing('reads of .newstate / .kwds of task objects not found in statemachine.py / states.py')


@rule('C14.R8', min_instances=3)
def each_run_starts_clean(ctx):
    """every run starts with exactly its own attributes: cycle() clears cleanup_reason when it picks the posted task up
    (otherwise the next stop / restart of the NEW run is never cleaned up: `next_task and not cleanup_reason` stays false),
    enters the requested state and applies the keywords of that Start; start() gives `cleanup` a default of None, so that the
    cleanup function of the previous run is not inherited; the returned state of a state function is entered"""
    m = ctx.m
    f = _m(m, 'cycle')
    ctx.analysed(f)
    cfg = CFG(f.node, m, f.module)
    swaps = [i for t, v, s in attr_stores(f.node) if t.attr == 'next_task' for i in cfg.node_of(s)]
    clr = [i for t, v, s in attr_stores(f.node) if t.attr == 'cleanup_reason' and isinstance(v, ast.Constant) and v.value is None for i in cfg.node_of(s)]
    enter = [c for c in calls_in(f.node) if call_attr(c) == '_new_state' and c.args and 'newstate' in src(c.args[0])]
    upd = [c for c in calls_in(f.node) if call_attr(c) == '_update_attributes']
    ok = bool(swaps) and bool(clr) and bool(enter) and all(cfg.all_paths_pass(swaps, cfg.node_of(c), clr, exc=False) for c in enter)
    ctx.check(ok, f'{f.qualname}:cleanup_reason cleared at task pick-up', f.node, 'self.cleanup_reason = None between the swap and the entry of the new state',
              'the reason of the previous clean-up survives into the new run: an interruption of the new run is not cleaned up', f)
    ctx.check(bool(upd) and bool(enter), f'{f.qualname}:requested state entered with its attributes', f.node, '_new_state(action.newstate); _update_attributes(action.kwds)',
              'the posted Start is not carried out completely (state entered / keywords applied)', f)
    loops = [n for n in body_walk(f.node) if isinstance(n, ast.For)]
    # in cycle itself or in the stepping helpers it is split into: the local holding the next state (result of the state
    # function, of _cleanup, or of a stepping helper) is what _new_state is called with
    found = False
    for g in _cycle_unit(m):
        gcfg = CFG(g.node, m, g.module)
        rv = _result_names(g) | {t.id for n in body_walk(g.node) if isinstance(n, ast.Assign) and isinstance(n.value, ast.Call)
                                 and isinstance(n.value.func, ast.Attribute) and dotted(n.value.func.value) == 'self'
                                 and any(h.name == n.value.func.attr for h in _cycle_unit(m)) for t in n.targets if isinstance(t, ast.Name)}
        inner_enter = [c for c in calls_in(g.node) if call_attr(c) == '_new_state' and c.args and src(c.args[0]) in rv]
        found = found or bool(inner_enter)
        for t in gcfg.nodes:
            if t.kind == 'test' and src(t.ast).replace('not ', '') in rv:
                neg = src(t.ast).startswith('not ')
                ids = {i for c in inner_enter for i in gcfg.node_of(c) if any(a is getattr(t.ast, 'cfg_owner', None) for a in ancestors(c))}
                if ids:
                    ctx.analysed(g)
                    ctx.check(ids <= gcfg.reach([t.id], labels={'F' if neg else 'T'}, avoid=[t.id]), f'{g.qualname}:clean-up result entered when there is one', t.ast,
                              '_new_state(ret) on the side where ret is set', f'`{src(t.ast)}`: _new_state(None) is called and a returned clean-up state is ignored', g)
    ctx.check(found, f'{f.qualname}:returned state is entered', f.node, '_new_state(ret)', 'the state returned by a state function is never entered', f)
    # the clean-up after "too many states chained" may return a follow-up state: once entered it is KEPT - the machine goes on
    # with it in the next round instead of falling through to `_new_state(None)` (which would drop the rest of the clean-up)
    unit = _cycle_unit(m)
    stepping = {h.name for h in unit}
    for g in unit:
        over = [n for n in body_walk(g.node) if isinstance(n, ast.Assign) and isinstance(n.value, ast.Call) and call_attr(n.value) == '_cleanup'
                and 'too many' in src(n.value) and isinstance(n.targets[0], ast.Name)]
        for a in over:
            gcfg = CFG(g.node, m, g.module)
            rvn = a.targets[0].id
            if not gcfg.ids(a):
                continue        # unreachable (e.g. the else of a loop that never ends): C14.R1 speaks about that
            enters = [i for c in calls_in(g.node) if call_attr(c) == '_new_state' and c.args and src(c.args[0]) == rvn and
                      gcfg.reachable(gcfg.ids(a)[0], (gcfg.node_of(c) or [0])[0], exc=False) for i in gcfg.node_of(c)
                      if any(isinstance(x, ast.If) and rvn in src(x.test) for x in ancestors(c))]
            if not enters:
                continue
            ctx.analysed(g)
            drops = [i for c in calls_in(g.node) if call_attr(c) == '_new_state' and c.args and isinstance(c.args[0], ast.Constant) and c.args[0].value is None
                     for i in gcfg.node_of(c)]
            steps = [i for c in calls_in(g.node) if src(c.func) == 'self.statefunc' or call_attr(c) == '_cleanup' or
                     (isinstance(c.func, ast.Attribute) and dotted(c.func.value) == 'self' and c.func.attr in stepping) for i in gcfg.node_of(c)]
            ok = gcfg.all_paths_pass(enters, drops, steps, exc=False) if drops else True
            # split into a helper: the two outcomes are told apart by what the helper returns
            tests = [t for t in gcfg.nodes if t.kind == 'test' and src(t.ast).replace('not ', '') == rvn and gcfg.reachable(gcfg.ids(a)[0], t.id, exc=False)]
            for t in tests:
                neg = src(t.ast).startswith('not ')

                def consts(label):
                    r = gcfg.reach([t.id], labels={label}, avoid=[t.id] + steps, exc=False)     # straight to a return, no further step
                    return {src(gcfg.nodes[i].ast.value) if gcfg.nodes[i].ast.value is not None else 'None'
                            for i in r if isinstance(gcfg.nodes[i].ast, ast.Return)}
                yes, no = consts('F' if neg else 'T'), consts('T' if neg else 'F')
                if yes and no and (yes & no):
                    ok = False
            ctx.check(ok, f'{g.qualname}:the follow-up state of the overflow clean-up is kept', a, 'entered and continued with (not followed by _new_state(None))',
                      f'after `{src(a)[:60]}...` returned a follow-up state and it was entered, the same round goes on as if there were none (same return value / '
                      'falls through to `_new_state(None)`): the second step of the clean-up never runs and the machine goes inactive in the middle of it', g)
    s = _m(m, 'start')
    ctx.analysed(s)
    cfgs = CFG(s.node, m, s.module)
    dflt = [i for c in calls_in(s.node) if call_attr(c) == 'setdefault' and c.args and isinstance(c.args[0], ast.Constant) and c.args[0].value == 'cleanup'
            and (len(c.args) < 2 or (isinstance(c.args[1], ast.Constant) and c.args[1].value is None)) for i in cfgs.node_of(c)]
    posts = [i for t, v, st in attr_stores(s.node) if t.attr == 'next_task' for i in cfgs.node_of(st)]
    key = f'{s.qualname}:cleanup defaults to None for every start'
    msg = 'a start without cleanup keyword inherits the cleanup function of the previous run: it is executed for a run that never asked for it'
    if dflt and all(cfgs.dominates(dflt, i) for i in posts):
        ctx.ok(key, s.node, "kwds.setdefault('cleanup', None) before the task is posted", s)
    else:
        # the default may be applied where the request object is built (Start.__init__)
        units = [s]
        for c in calls_in(s.node):
            ci = m.classes.get(m.resolve_name(s.module, dotted(c.func) or '') or '')
            if ci is not None and '__init__' in ci.methods:
                units.append(ci.methods['__init__'])
        verdict = None
        for u in units[1:]:
            ctx.analysed(u)
            ucfg = CFG(u.node, m, u.module)
            sd = [i for c in calls_in(u.node) if call_attr(c) == 'setdefault' and c.args and isinstance(c.args[0], ast.Constant) and c.args[0].value == 'cleanup'
                  and (len(c.args) < 2 or (isinstance(c.args[1], ast.Constant) and c.args[1].value is None)) for i in ucfg.node_of(c)]
            if sd and ucfg.all_paths_pass([ucfg.entry], [ucfg.exit], sd, exc=False):
                verdict = ('ok', u, f"setdefault('cleanup', None) on every path through {u.qualname}")
            for d in [x for x in body_walk(u.node) if isinstance(x, ast.Dict)]:
                ks = [k.value if isinstance(k, ast.Constant) else None for k in d.keys]
                if 'cleanup' in ks and None in d.keys and ks.index('cleanup') < d.keys.index(None) and isinstance(getattr(d, 'parent', None), ast.Assign):
                    verdict = verdict or ('ok', u, "{'cleanup': None, **kwds}")
        mentions = [x for u in units for x in body_walk(u.node) if isinstance(x, ast.Constant) and x.value == 'cleanup']
        partial = [x for u in units for x in body_walk(u.node) if isinstance(x, ast.BoolOp) and isinstance(x.op, ast.Or) and
                   any(isinstance(k, ast.Constant) and k.value == 'cleanup' for v in x.values[1:] for k in ast.walk(v))]
        other_default = [c for u in units for c in calls_in(u.node) if call_attr(c) == 'setdefault' and c.args and isinstance(c.args[0], ast.Constant)
                         and c.args[0].value == 'cleanup' and len(c.args) > 1 and not (isinstance(c.args[1], ast.Constant) and c.args[1].value is None)]
        if other_default:
            ctx.bad(key, other_default[0], f'`{src(other_default[0])}` makes a start without cleanup keyword take over `{src(other_default[0].args[1])}`: ' + msg, s)
        elif verdict and not partial:
            ctx.ok(key, verdict[1].node, verdict[2], s)
        elif partial:
            ctx.bad(key, partial[0], f'`{src(partial[0])}` applies the default only when NO attribute at all is given: ' + msg, s)
        elif not mentions:
            ctx.bad(key, s.node, msg, s)
        else:
            ctx.undecided(key, mentions[0], 'the way the cleanup default is applied was not recognised', s)


@rule('C14.R10', min_instances=1)
def cleanup_hooks_are_looked_up_on_the_object(ctx):
    """HasStates.on_cleanup forwards to on_error / on_restart / on_stop - the documented way for a module to define its
    cleanup is to OVERRIDE these.  They are therefore reached through the object (`self.on_stop(sm)`, `getattr(self, name)(sm)`),
    never as function objects taken from the class body (a class level table `((Stop, on_stop), ...)` called as
    `handler(self, sm)` binds HasStates' own functions: the override of a subclass runs zero times, the module goes straight
    to its stopped status instead of executing its cleanup)"""
    m = ctx.m
    ci = m.classes.get('frappy.states.HasStates')
    if ci is None or 'on_cleanup' not in ci.methods:
        raise AnchorMissing('frappy.states.HasStates.on_cleanup not found')
    f = ci.methods['on_cleanup']
    ctx.analysed(f)
    hooks = {n for n in ci.methods if n in ('on_error', 'on_restart', 'on_stop')}
    key = f'{f.qualname}:cleanup hooks are reached through the object'
    # function objects of the hooks stored at class level
    stored = {a: v for a, v in ci.assigns.items() if any(isinstance(x, ast.Name) and x.id in hooks for x in ast.walk(v))}
    by_object = [c for c in calls_in(f.node) if isinstance(c.func, ast.Attribute) and dotted(c.func.value) == 'self' and c.func.attr in hooks] + \
        [c for c in calls_in(f.node) if isinstance(c.func, ast.Call) and dotted(c.func.func) == 'getattr' and c.func.args and src(c.func.args[0]) == 'self']
    unbound = [c for c in calls_in(f.node) if isinstance(c.func, ast.Name) and c.args and src(c.args[0]) == 'self' and
               any(a in src(resolved(v, f.node)) for a in stored for v, st, how in local_assigns(f.node, c.func.id) if v is not None)]
    if unbound:
        ctx.bad(key, unbound[0], f'`{src(unbound[0])}` calls a function object taken from the class level table `{sorted(stored)[0]}` with self handed over by hand: a '
                'subclass (or instance) that overrides on_error / on_restart / on_stop is never reached - its cleanup runs zero times, a cleanup sequence returned by '
                'on_stop never starts and the module reports its stopped status at once', f)
    elif by_object:
        ctx.ok(key, by_object[0], 'self.on_...(sm) / getattr(self, name)(sm)', f)
    else:
        ctx.undecided(key, f.node, 'how on_cleanup reaches the hooks was not recognised', f)


@rule('C14.R11', min_instances=1)
def the_status_follows_the_machine_whatever_the_notification_mode(ctx):
    """HasStates.state_transition (the transition callback of the machine): `sm.status = status` is what makes the module
    report its running / stopping / final status; `all_status_changes` only selects how often read_status() is called.  The
    store must not depend on that flag - under `if self.all_status_changes:` a module that asks for one update per cycle keeps
    the status of the start request (BUSY) for ever, the final or stopped status is never reported"""
    m = ctx.m
    f = m.method('frappy.states.HasStates', 'state_transition', inherited=False)
    ctx.analysed(f)
    smname = f.node.args.args[1].arg
    cfg = CFG(f.node, m, f.module)
    stores = [s for t, v, s in attr_stores(f.node) if t.attr == 'status' and dotted(t.value) == smname]
    if not stores:
        raise AnchorMissing('store of <sm>.status not found in HasStates.state_transition', violation=f'{f.qualname}:status stored independent of all_status_changes')
    dep = sides_with_fact(cfg, lambda a, tv: isinstance(a, ast.Attribute) and a.attr == 'all_status_changes')
    for s in stores:
        ids = set(cfg.node_of(s))
        ctx.check(not (ids and ids <= dep), f'{f.qualname}:status stored independent of all_status_changes', s,
                  'the store is reached on both sides of every test of all_status_changes',
                  f'`{src(s)}` is executed only on one side of a test of `all_status_changes`: with the other setting the status of the module never '
                  'follows the machine - it stays at what start_machine / stop_machine set', f)


@rule('C14.R12', min_instances=1)
def a_default_code_always_yields_a_status(ctx):
    """HasStates.get_status(statefunc, default_code): start_machine / stop_machine / state_transition ask with default_code=BUSY
    for the status of the state to run - whatever the state function is (a method with or without status_code, or a plain
    function that is no method of the module) the answer is a status then, never None.  Walked with `statefunc is None` false and
    `default_code is None` false: no `return None` may be reachable (a None stored as sm.status makes the status update a
    WrongType error, and `sm.status[0]` raises in the next transition - the start request is lost)"""
    m = ctx.m
    f = m.method('frappy.states.HasStates', 'get_status', inherited=False)
    ctx.analysed(f)
    params = [a.arg for a in f.node.args.args]
    if len(params) < 3:
        raise AnchorMissing('HasStates.get_status(statefunc, default_code) not found')
    sf, dc = params[1], params[2]
    cfg = CFG(f.node, m, f.module)
    env = {f'{sf} is None': False, sf: True, f'{dc} is None': False}
    reach = reach_under(cfg, f.node, env, exc=False)
    nones = [r for r in body_walk(f.node) if isinstance(r, ast.Return) and (r.value is None or (isinstance(r.value, ast.Constant) and r.value.value is None))
             and set(cfg.ids(r)) & reach]
    ctx.check(not nones, f'{f.qualname}:with a default code the result is a status', nones[0] if nones else f.node, 'no `return None` is reachable when default_code is given',
              f'`{src(nones[0]) if nones else ""}` is reached although a default code was given: for that state function get_status answers None - the module status is set to None '
              'at the start request instead of (BUSY, <state name>)', f)
