"""C18 - linked parameters stay mutually consistent"""
from sa.core import rule, prop_info
from sa.cfg import CFG
from sa.lib import *  # noqa: F401,F403
from sa.lib import attr_stores, func_calls, compare_ops, raised_names, origins
from sa.model import AnchorMissing, UNKNOWN
from sa import roles

prop_info(
    'C18',
    'Decided: R1 an inverted limit pair is refused for each limit form: <p>_min/<p>_max by a comparison in checkLimits, '
    '<p>_limits either by an order-checking pair datatype given to the limit parameter or by a comparison in the '
    '_limits branch of checkLimits; R2 automatic check functions are generated for exactly the postfixes a Limit '
    'parameter may have, call checkLimits, and the write wrapper collects the check hooks of the whole MRO (order: '
    'C04.R5); R3 the float side of a float/enum pair is derived from the cached index, its generated write method '
    'goes through write_<index> and the index callback re-announces the float parameter; R4 every function that '
    'stores controlled_by also invokes the deactivate callbacks of the other inputs, and an input registers itself '
    'at its output in initModule.',
    not_decided='struct/member agreement over histories (callback driven), closest-value selection (numeric).')

LIMIT = 'frappy.params.Limit'


def _order_checking_types(m):
    """datatype classes whose validate compares two elements of the result and raises RangeError"""
    res = set()
    for q in m.subclasses('frappy.datatypes.TupleOf') + ['frappy.datatypes.TupleOf']:
        ci = m.classes[q]
        v = ci.methods.get('validate')
        if v is None:
            continue
        for n in body_walk(v.node):
            if isinstance(n, ast.If) and any(d and d.endswith('RangeError') for d, _ in raised_names(n.body)):
                ops = compare_ops(n.test)
                if ops and all('[0]' in l + r and '[1]' in l + r for l, op, r in ops):
                    res.add(q)
    return res


@rule('C18.R1', min_instances=2)
def inverted_limits_refused(ctx):
    """each limit form refuses min > max"""
    m = ctx.m
    cl = m.method(roles.MODULE, 'checkLimits', inherited=False)
    ctx.analysed(cl)
    # separate min/max parameters
    ok = False
    for n in body_walk(cl.node):
        if isinstance(n, ast.If) and any(d and d.endswith('RangeError') for d, _ in raised_names(n.body)):
            conj = n.test.values if isinstance(n.test, ast.BoolOp) and isinstance(n.test.op, ast.And) else [n.test]      # `both given and min_ > max_`
            for part in conj:
                for l, op, r in compare_ops(part):
                    if op == '<' and l.startswith('max') and r.startswith('min'):
                        ok = True
    if not ok:
        # the refusal may be reported through a message variable raised at the end: the side of the test on which max < min never
        # completes normally (flags bound to literals are followed)
        ccfg = CFG(cl.node, m, cl.module)
        for t in ccfg.nodes:
            if t.kind == 'test' and not isinstance(t.ast, ast.stmt) and not (isinstance(t.ast, ast.UnaryOp)):
                if any(op == '<' and l.startswith('max') and r.startswith('min') for l, op, r in compare_ops(t.ast)) and isinstance(t.ast, ast.Compare):
                    if side_never_completes(ccfg, t.id, 'T'):
                        ok = True
    ctx.check(ok, f'{cl.qualname}:min/max pair ordered', cl.node, '`if min_ > max_: raise RangeError`',
              'an inverted <p>_min/<p>_max pair is not refused', cl)
    # limits tuple
    sd = m.method(LIMIT, 'set_datatype', inherited=False)
    ctx.analysed(sd)
    oc = _order_checking_types(m)
    types = []
    for t, v, s in attr_stores(sd.node):
        if t.attr == 'datatype' and dotted(t.value) == 'self' and isinstance(v, ast.Call):
            guard = [src(a.test) for a in ancestors(s) if isinstance(a, ast.If)]
            if any("'limits'" in g for g in guard):
                r = m.resolve_name(sd.module, dotted(v.func) or '')
                types.append((r, s))
    if not types:
        raise AnchorMissing('datatype of the <p>_limits parameter not found in Limit.set_datatype')
    in_check = False
    for n in body_walk(cl.node):
        if isinstance(n, ast.If) and any(d and d.endswith('RangeError') for d, _ in raised_names(n.body)):
            tryanc = [a for a in ancestors(n) if isinstance(a, ast.Try)]
            if tryanc and any('_limits' in src(x) for x in ast.walk(tryanc[0]) if isinstance(x, ast.Constant) and isinstance(x.value, str)):
                for l, op, r in compare_ops(n.test):
                    if {l, r} == {'min_', 'max_'}:
                        in_check = True
    for r, s in types:
        ctx.check(r in oc or in_check, f'{sd.qualname}:limits pair is ordered', s,
                  f'the limits parameter gets an order-checking type ({r})' if r in oc else 'checkLimits compares the pair',
                  f'the <p>_limits parameter gets a plain `{r.rpartition(".")[2] if r else "?"}` and the _limits branch of checkLimits only '
                  f'compares the value with the pair: write_<p>_limits((60, 40)) is accepted (order-checking types: {sorted(x.rpartition(".")[2] for x in oc)})', sd)


def _check_function(m, f, fn):
    """the function a `setattr(cls, 'check_<p>', fn)` installs, when it calls checkLimits: a lambda, a local def, or what a
    module level factory (`_make_limit_check(pname)`) returns"""
    body = None
    if isinstance(fn, ast.Lambda):
        body = fn
    elif isinstance(fn, ast.Name):
        body = next((d for d in ast.walk(f.node) if isinstance(d, ast.FunctionDef) and d.name == fn.id), None)
        if body is None:
            r = resolved(fn, f.node)        # a local the function (or the factory's result, expanded in place) was bound to
            if isinstance(r, ast.Lambda):
                body = r
            elif isinstance(r, ast.Name) and r.id != fn.id:
                body = next((d for d in ast.walk(f.node) if isinstance(d, ast.FunctionDef) and d.name == r.id), None)
    elif isinstance(fn, ast.Call) and isinstance(fn.func, ast.Name):
        fac = m.functions.get(f'{f.module.name}.{fn.func.id}')
        if fac is not None:
            inner = [d for d in ast.walk(fac.node) if isinstance(d, (ast.FunctionDef, ast.Lambda)) and d is not fac.node]
            rets = [r.value for r in body_walk(fac.node) if isinstance(r, ast.Return) and r.value is not None]
            for d in inner:
                if isinstance(d, ast.Lambda) and any(r is d for r in rets):
                    body = d
                elif isinstance(d, ast.FunctionDef) and any(isinstance(r, ast.Name) and r.id == d.name for r in rets):
                    body = d
    if body is None or not any(isinstance(x, ast.Call) and call_attr(x) == 'checkLimits' for x in ast.walk(body)):
        return None
    return body


def _postfix_values(m, f, it):
    """the limit postfixes a loop runs over: a literal tuple / list of '_x' strings, a constant holding one, or a generator
    expression over one of those (`pname + postfix for postfix in POSTFIXES`)"""
    if isinstance(it, ast.GeneratorExp) and len(it.generators) == 1:
        it = it.generators[0].iter
    v = m.const(f.module, it)
    if v is not UNKNOWN and isinstance(v, (tuple, list)) and v and all(isinstance(e, str) and e.startswith('_') for e in v):
        return list(v)
    return None


@rule('C18.R2c', min_instances=1)
def limit_check_is_installed_whatever_a_parent_defines(ctx):
    """wherever HasAccessibles installs the automatic limit check (`setattr(base, 'check_<p>', <function calling checkLimits>)`):
    the only reason to skip it is that THIS class already has a check_<p> of its own (`cname not in base.__dict__`).  A test
    that also sees inherited hooks (hasattr / getattr) drops the limit check whenever a parent class has a hand-written
    check_<p> and a subclass adds <p>_min / <p>_max / <p>_limits: the dynamic limits are never enforced"""
    m = ctx.m
    ci = m.cls(roles.HASACC)
    n = 0
    for f in ci.methods.values():
        for c in [x for x in ast.walk(f.node) if isinstance(x, ast.Call) and dotted(x.func) == 'setattr' and len(x.args) == 3]:
            body = _check_function(m, f, c.args[2])
            if body is None:
                continue
            n += 1
            ctx.analysed(f)
            guards = [a for a in ancestors(c) if isinstance(a, ast.If)]
            inherited = [g for g in guards if any(isinstance(x, ast.Call) and dotted(x.func) in ('hasattr', 'getattr') and len(x.args) >= 2 and src(x.args[1]) == src(c.args[1])
                                                  for x in ast.walk(g.test))]
            # a guard clause `if hasattr(base, cname): continue` before the setattr counts as well
            fcfg = CFG(f.node, m, f.module) if not inherited else None
            if fcfg is not None and fcfg.node_of(c):
                side = sides_with_fact(fcfg, lambda a, tv: not tv and isinstance(a, ast.Call) and dotted(a.func) in ('hasattr', 'getattr') and len(a.args) >= 2
                                       and src(a.args[1]) == src(c.args[1]))
                if set(fcfg.node_of(c)) <= side:
                    inherited = [c]
            ctx.check(not inherited, f'{f.qualname}:generated check is not suppressed by an inherited hook', c, 'installed unless the class itself defines the hook',
                      f'`{src(c)[:80]}` is skipped when `{src(inherited[0].test) if inherited and isinstance(inherited[0], ast.If) else "hasattr(...)"}` - which is also true for a '
                      'check hook inherited from a parent: limits added in a subclass are not enforced, requests outside the current limits reach the driver', f)
    if not n:
        raise AnchorMissing('installation of the automatic limit check (setattr(..., <function calling checkLimits>)) not found in HasAccessibles')


@rule('C18.R2', min_instances=3)
def automatic_limit_checks(ctx):
    """generated check_<p> for every Limit postfix; calls checkLimits; MRO-wide collection"""
    m = ctx.m
    hook = m.method(roles.HASACC, '__init_subclass__', inherited=False)
    ctx.analysed(hook)
    lim = m.cls(LIMIT)
    post = m.const(lim.module, lim.assigns.get('POSTFIXES')) if lim.assigns.get('POSTFIXES') is not None else UNKNOWN
    loops = [n for n in body_walk(hook.node) if isinstance(n, ast.For) and _postfix_values(m, hook, n.iter) is not None]
    if not loops or post is UNKNOWN:
        raise AnchorMissing('postfix loop in __init_subclass__ / Limit.POSTFIXES not found')
    have = {e.lstrip('_') for e in _postfix_values(m, hook, loops[0].iter)}
    ctx.check(have == set(post), f'{hook.qualname}:check generated for every limit postfix', loops[0],
              f'postfixes {sorted(have)}', f'automatic checks are generated for {sorted(have)} but Limit allows {sorted(post)}', hook)
    sets = [c for c in ast.walk(loops[0]) if isinstance(c, ast.Call) and dotted(c.func) == 'setattr' and len(c.args) == 3]
    bodies = [(c, _check_function(m, hook, c.args[2])) for c in sets]
    lambdas = [c for c, b in bodies if b is not None]

    def two_args(b):
        cl = [x for x in ast.walk(b) if isinstance(x, ast.Call) and call_attr(x) == 'checkLimits']
        return bool(cl) and all(len(x.args) == 2 for x in cl)
    ok = bool(lambdas) and all(two_args(b) for c, b in bodies if b is not None)
    ctx.check(ok, f'{hook.qualname}:generated check calls checkLimits', loops[0], 'lambda self, value: self.checkLimits(value, pname)',
              'the generated check function does not call checkLimits(value, pname)', hook)
    hcfg = CFG(hook.node, m, hook.module)
    for l in lambdas:
        guards = [a for a in ancestors(l) if isinstance(a, ast.If) and any(a is x for x in ast.walk(loops[0]))]
        own = [g for g in guards if ('__dict__' in src(g.test) or 'vars(' in src(g.test)) and 'not in' in src(g.test)]
        if not guards and hcfg.node_of(l):
            # guard clause form: `if cname in vars(owner): continue`
            if set(hcfg.node_of(l)) <= sides_with_fact(hcfg, lambda a, tv: isinstance(a, ast.Compare) and len(a.ops) == 1 and
                                                       ((isinstance(a.ops[0], ast.NotIn) and tv) or (isinstance(a.ops[0], ast.In) and not tv)) and
                                                       ('__dict__' in src(a.comparators[0]) or 'vars(' in src(a.comparators[0]))):
                own = [l]
        inherited = [g for g in guards if 'hasattr(' in src(g.test) or 'getattr(' in src(g.test)]
        if inherited:
            ctx.bad(f'{hook.qualname}:generated check is not suppressed by an inherited hook', inherited[0],
                    f'`{src(inherited[0].test)}` also sees check hooks inherited from a parent: when a parent defines check_<p> and a subclass adds the '
                    'limit parameters, no limit check is attached and the limits are not enforced', hook)
        elif own:
            ctx.ok(f'{hook.qualname}:generated check is not suppressed by an inherited hook', own[0], 'tests the own class dictionary only', hook)
        else:
            ctx.undecided(f'{hook.qualname}:generated check is not suppressed by an inherited hook', l, 'guard form not recognised', hook)
    cf = [n for n in body_walk(hook.node) if isinstance(n, ast.Assign) and src(n.targets[0]) == 'cfuncs']
    ok = bool(cf) and '__mro__' in src(cf[0].value) and ('__dict__' in src(cf[0].value) or 'vars(' in src(cf[0].value))
    ctx.check(ok, f'{hook.qualname}:check hooks of the whole MRO', hook.node, 'cfuncs collected from b.__dict__ for b in cls.__mro__',
              'only the most derived check_<p> hook is collected: inherited limit checks are skipped', hook)
    ww = roles.write_wrapper(m)
    dflt = dict(zip([a.arg for a in ww.node.args.args][-len(ww.node.args.defaults):], ww.node.args.defaults))
    ctx.check(any(src(v) == 'cfuncs' for v in dflt.values()), f'{ww.qualname}:wrapper receives the collected hooks', ww.node,
              'check_funcs=cfuncs', 'the write wrapper is not given the collected check hooks', ww)


def _generated_write_function(m, FE):
    """(FuncInfo of the function installed as write_<name> by FloatEnumParam, {closure variable: [expressions it may denote]}):
    a nested def of the installing method, or the nested def a factory method of the class returns"""
    ci = m.cls(FE)
    for f in ci.methods.values():
        for c in calls_in(f.node):
            if not (dotted(c.func) == 'setattr' and len(c.args) == 3 and 'write_' in src(resolved(c.args[1], f.node))):
                continue
            fn = c.args[2]
            if isinstance(fn, ast.Name):
                nf = f.nested.get(fn.id, [None])[0]
                if nf is not None:
                    outer = {}
                    for n in body_walk(f.node):
                        if isinstance(n, ast.Assign) and len(n.targets) == 1 and isinstance(n.targets[0], ast.Name):
                            outer.setdefault(n.targets[0].id, []).append(n.value)
                    return nf, outer
            if isinstance(fn, ast.Call) and isinstance(fn.func, ast.Attribute) and dotted(fn.func.value) == 'self' and fn.func.attr in ci.methods:
                h = ci.methods[fn.func.attr]
                rets = [r.value.id for r in body_walk(h.node) if isinstance(r, ast.Return) and isinstance(r.value, ast.Name)]
                for name in rets:
                    nf = h.nested.get(name, [None])[0]
                    if nf is not None:
                        params = [a.arg for a in h.node.args.args][1:]
                        outer = {p_: [a] for p_, a in zip(params, fn.args)}
                        for k in fn.keywords:
                            outer[k.arg] = [k.value]
                        for n in body_walk(h.node):
                            if isinstance(n, ast.Assign) and len(n.targets) == 1 and isinstance(n.targets[0], ast.Name):
                                outer.setdefault(n.targets[0].id, []).append(n.value)
                        return nf, outer
    return None, {}


@rule('C18.R3', min_instances=3)
def float_enum_derived(ctx):
    """FloatEnumParam: value derived from the index; write via write_<idx>; callback re-announces"""
    m = ctx.m
    FE = 'frappy.extparams.FloatEnumParam'
    g = m.method(FE, '__get__', inherited=False)
    ctx.analysed(g)
    rets = [n for n in body_walk(g.node) if isinstance(n, ast.Return) and not (isinstance(n.value, ast.Name) and n.value.id == 'self')]
    ok = bool(rets) and all(isinstance(r.value, ast.Subscript) and src(r.value.value) == 'self.valuedict' and
                            'parameters[self.idx_name].value' in src(r.value.slice) for r in rets)
    ctx.check(ok, f'{g.qualname}:float value derived from the cached index', g.node, 'valuedict[parameters[idx_name].value]',
              'the float side is not computed from the cached index: it can show a value that does not belong to the current index', g)
    sn = m.method(FE, '__set_name__', inherited=False)
    ctx.analysed(sn)
    wf, outer = _generated_write_function(m, FE)
    if wf is None:
        raise AnchorMissing('generated write function of FloatEnumParam not found')
    ctx.analysed(wf)
    mobj = wf.node.args.args[0].arg if wf.node.args.args else 'mobj'

    def names_a_write_method(e):
        """the attribute name expression denotes 'write_<index name>': directly, as keyword default of the function, or as a
        variable of the enclosing function / an argument the factory was called with"""
        if 'write_' in src(e):
            return True
        if isinstance(e, ast.Name):
            dflt = dict(zip([a.arg for a in wf.node.args.args][-len(wf.node.args.defaults):], wf.node.args.defaults)) if wf.node.args.defaults else {}
            if e.id in dflt:
                return 'write_' in src(dflt[e.id])
            return any('write_' in src(x) for x in outer.get(e.id, []))
        return False
    getters = [c for c in calls_in(wf.node) if dotted(c.func) == 'getattr' and len(c.args) == 2 and src(c.args[0]) == mobj]
    wcalls = []
    for c in calls_in(wf.node):
        fn = c.func
        if isinstance(fn, ast.Name):
            fn = resolved(fn, wf.node)
        if isinstance(fn, ast.Call) and dotted(fn.func) == 'getattr' and len(fn.args) == 2 and names_a_write_method(fn.args[1]):
            wcalls.append(c)
    ctx.check(bool(wcalls), f'{wf.qualname}:write goes through write_<index>', wf.node, "getattr(mobj, 'write_<idx>')(closest index)",
              'the generated write method does not write the index parameter', wf)
    # what the write method hands back (reply, cache, update of the float parameter) is READ BACK through the parameter after
    # the index was written: a driver may end on another index than the one requested (clamping, stepping)
    wcfg = CFG(wf.node, m, wf.module)
    wids = [i for c in wcalls for i in wcfg.node_of(c)]
    for r in [x for x in body_walk(wf.node) if isinstance(x, ast.Return)]:
        v = resolved(r.value, wf.node) if r.value is not None else None
        readback = isinstance(v, ast.Call) and dotted(v.func) == 'getattr' and len(v.args) >= 2 and src(v.args[0]) == mobj and not names_a_write_method(v.args[1])
        after = bool(wids) and all(wcfg.dominates(wids, i) for i in wcfg.ids(r))
        ctx.check(readback and after, f'{wf.qualname}:hands back the value read back after the write', r,
                  'return getattr(mobj, <float parameter>) after the index write',
                  f'`{src(r)}` is not a read of the float parameter after write_<index>: when the driver ends on another index than the requested one '
                  '(clamping, stepping) the reply, the cached value and the update of the float parameter show the value of the REQUESTED index while the '
                  'index parameter holds another one', wf)
    fin = m.method(FE, 'finish', inherited=False)
    ctx.analysed(fin)
    ok = any(call_attr(c) == 'addCallback' and c.args and src(c.args[0]) == 'self.idx_name' and len(c.args) > 1 and 'trigger_setter' in src(c.args[1])
             for c in calls_in(fin.node))
    ctx.check(ok, f'{fin.qualname}:index change re-announces the float parameter', fin.node, 'addCallback(idx_name, trigger_setter, modobj)',
              'no callback re-announces the float parameter when the index changes: the update stream shows a stale float value', fin)
    ts = m.method(FE, 'trigger_setter', inherited=False)
    ok = any(call_attr(c) == 'announceUpdate' and c.args and src(c.args[0]) == 'self.name' for c in calls_in(ts.node))
    ctx.check(ok, f'{ts.qualname}:announces the float parameter', ts.node, 'announceUpdate(self.name, <derived value>)',
              'trigger_setter does not announce the float parameter', ts)


@rule('C18.R7', min_instances=2)
def linked_parameters_keep_their_flags_on_the_instance(ctx):
    """shared with C09.R2g: StructParam / FloatEnumParam reach the module instance through copy(); the argument-less constructor
    call made there must not turn the keyword default readonly=False into an own property (the struct would be writable on
    the instance while its member parameters, which took the flag at class level, stay read-only)"""
    from sa.rules import c09
    c09.copy_keeps_every_declared_property(ctx)


def _handover_unit(m):
    """(function, expression naming the new controller) where the take-over is carried out: HasOutputModule.activate_control
    itself, or the method of the output (HasControlledBy) it hands its own name to"""
    ac = m.method('frappy.mixins.HasOutputModule', 'activate_control', inherited=False)
    if _deactivations(ac) or any(t.attr == 'controlled_by' for t, v, s in attr_stores(ac.node)):
        return ac, 'self.name'
    out_cls = m.classes.get('frappy.mixins.HasControlledBy')
    for c in calls_in(ac.node):
        if isinstance(c.func, ast.Attribute) and not dotted(c.func.value) == 'self' and out_cls is not None and c.func.attr in out_cls.methods \
                and c.args and src(c.args[0]) == 'self.name':
            h = out_cls.methods[c.func.attr]
            if any(t.attr == 'controlled_by' for t, v, s in attr_stores(h.node)) and len(h.node.args.args) > 1:
                return h, h.node.args.args[1].arg
    return ac, 'self.name'


def _deactivations(fi):
    """calls of a deactivation callback: a local taken out of self.inputCallbacks (loop over .values(), .get(...))"""
    return [c for c in calls_in(fi.node) if isinstance(c.func, ast.Name) and
            any(v is not None and ('inputCallbacks' in src(v) or 'inputCallbacks' in src(resolved(v, fi.node)))        # (`for cb in callbacks:` with callbacks bound before)
                for v, st, how in local_assigns(fi.node, c.func.id))]


@rule('C18.R4d', min_instances=1)
def a_controller_is_switched_off_only_in_a_complete_handover(ctx):
    """HasControlledBy: inputCallbacks is keyed by the NAME of the controlling module.  A function that looks a callback up by
    name and calls it switches that controller off - which is only half of a hand-over: the same function has to record the
    new owner (store controlled_by / self_controlled), otherwise the output still names a controller that is no longer
    controlling.  (update_target looks up by the enum MEMBER today, which never matches a name key: that branch is inert.)"""
    m = ctx.m
    ci = m.classes.get('frappy.mixins.HasControlledBy')
    if ci is None:
        raise AnchorMissing('frappy.mixins.HasControlledBy not found')
    n = 0
    for f in ci.methods.values():
        for c in _deactivations(f):
            gets = [v for v, st, how in local_assigns(f.node, c.func.id) if isinstance(v, ast.Call) and call_attr(v) == 'get' and v.args]
            for g in gets:
                n += 1
                ctx.analysed(f)
                key = g.args[0]
                by_name = (isinstance(key, ast.Attribute) and key.attr == 'name') or (isinstance(key, ast.Call) and dotted(key.func) == 'str') or \
                    (isinstance(key, ast.Name) and key.id in [a.arg for a in f.node.args.args])
                if not by_name:
                    ctx.ok(f'{f.qualname}:controller switched off only in a complete hand-over', g, f'`{src(g)}`: looked up by the enum member, never matches a name key', f)
                    continue
                records = any(t.attr == 'controlled_by' for t, v, s2 in attr_stores(f.node)) or any(call_attr(x) == 'self_controlled' for x in calls_in(f.node))
                ctx.check(records, f'{f.qualname}:controller switched off only in a complete hand-over', c, 'the new owner is recorded in the same function',
                          f'`{src(g)}` finds the callback of the controlling module by its name and `{src(c)}` switches that controller off, but {f.name} does not '
                          'record a new owner: controlled_by keeps naming a module whose control loop is off - nobody controls the output', f)
    if not n:
        raise AnchorMissing('lookup of a deactivation callback by .get(...) not found in HasControlledBy')


@rule('C18.R4', min_instances=3)
def handover_pairing(ctx):
    """stores of controlled_by are paired with the deactivate callbacks; inputs register at their output"""
    m = ctx.m
    n = 0
    for q, fi in m.functions.items():
        if fi.module.name != 'frappy.mixins':
            continue
        st = [(t, v, s) for t, v, s in attr_stores(fi.node) if t.attr == 'controlled_by']
        if not st:
            continue
        n += 1
        ctx.analysed(fi)
        deact = _deactivations(fi)
        loop = any(isinstance(a, ast.For) and ('inputCallbacks' in src(a.iter) or 'inputCallbacks' in src(resolved(a.iter, fi.node))) for c in deact for a in ancestors(c))
        ctx.check(bool(deact) and loop, f'{fi.qualname}:store controlled_by paired with deactivation', st[0][2],
                  'the other inputs are deactivated in the same function',
                  'controlled_by is changed without switching the previous controller(s) off: two inputs are marked as controlling', fi)
    if n < 2:
        raise AnchorMissing('functions storing controlled_by not found in frappy/mixins.py')
    im = m.method('frappy.mixins.HasOutputModule', 'initModule', inherited=False)
    ctx.analysed(im)
    ok = any(call_attr(c) == 'register_input' and len(c.args) == 2 and src(c.args[0]) == 'self.name' and 'deactivate_control' in src(c.args[1])
             for c in calls_in(im.node))
    ctx.check(ok, f'{im.qualname}:input registers at its output', im.node, 'output_module.register_input(self.name, self.deactivate_control)',
              'an input module does not register itself (name + deactivate callback) at the output module', im)
    ac, me = _handover_unit(m)
    ctx.analysed(ac)
    # on every path to the deactivation call the fact `name != <the new controller>` holds: the call lies on the true side of a
    # `!=` test or on the false side of an `==` test (either polarity, early continue included)
    cfga = CFG(ac.node, m, ac.module)
    dcalls = [i for c in _deactivations(ac) for i in cfga.node_of(c)]
    skip_self = False
    for t in cfga.nodes:
        if t.kind != 'test' or not isinstance(t.ast, ast.Compare) or len(t.ast.ops) != 1 or me not in (src(t.ast.left), src(t.ast.comparators[0])):
            continue
        on_t = cfga.reach([t.id], labels={'T'}, avoid=[t.id])
        on_f = cfga.reach([t.id], labels={'F'}, avoid=[t.id])
        if isinstance(t.ast.ops[0], ast.NotEq):
            good, bad_ = on_t, on_f
        elif isinstance(t.ast.ops[0], ast.Eq):
            good, bad_ = on_f, on_t
        else:
            continue
        if dcalls and all(i in good and i not in bad_ for i in dcalls) and all(cfga.dominates([t.id], i) for i in dcalls):
            skip_self = True
    if not skip_self:
        # the selection may be the filter of a generator expression the loop runs over: `(cb for name, cb in ...items() if name != me)`
        for c in _deactivations(ac):
            for a in ancestors(c):
                if isinstance(a, ast.For):
                    it = resolved(a.iter, ac.node)
                    for g in [x for x in ast.walk(it) if isinstance(x, (ast.GeneratorExp, ast.ListComp))]:
                        for cond in [t for gen in g.generators for t in gen.ifs]:
                            if isinstance(cond, ast.Compare) and len(cond.ops) == 1 and isinstance(cond.ops[0], ast.NotEq) and \
                                    me in (src(resolved(cond.left, ac.node)), src(resolved(cond.comparators[0], ac.node))):
                                skip_self = True
    ctx.check(skip_self, f'{ac.qualname}:does not deactivate itself', ac.node, '`if name != self.name` guards the deactivation',
              'taking over control deactivates the new controller itself', ac)


@rule('C18.R5', min_instances=1)
def struct_member_write_returns_the_struct_view(ctx):
    """the generated write method of a struct member (combined read/write layout) returns the member as re-read after the
    struct was written, not the requested value"""
    m = ctx.m
    sn = m.method('frappy.extparams.StructParam', '__set_name__', inherited=False)
    ctx.analysed(sn)
    wfs = [f for f in sn.nested.get('wfunc', [])]
    if not wfs:
        raise AnchorMissing('generated member write function of StructParam not found')
    for wf in wfs:
        p = wf.node.args.args[1].arg
        writes = [c for c in calls_in(wf.node) if isinstance(c.func, ast.Call) and dotted(c.func.func) == 'getattr' and 'write' in src(c.func)]
        for r in [n for n in body_walk(wf.node) if isinstance(n, ast.Return) and n.value is not None]:
            raw = isinstance(r.value, ast.Name) and r.value.id == p
            ctx.check(not raw and bool(writes), f'{wf.qualname}:returns the member as seen by the struct', r,
                      f'returns `{src(r.value)}` after writing the struct',
                      f'`return {src(r.value)}` hands the requested value back to the write wrapper, which caches and announces it: when the device '
                      'clamps or rounds, the member parameter disagrees with the struct parameter', wf)


@rule('C18.R6', min_instances=1)
def member_update_suppression_is_always_lifted(ctx):
    """StructParam (separate member read/write layout): the counter that suppresses the member -> struct callbacks while the
    struct is read / written as a whole (insideRW) is decremented on EVERY exit that follows an increment, exceptional ones
    included (try/finally, also around the yield of a context manager) - a counter left above zero disables the callbacks
    for the life of the module, struct and members then drift apart"""
    m = ctx.m
    n = 0
    for q, fi in sorted(m.functions.items()):
        if fi.module.name != 'frappy.extparams':
            continue
        incs = [x for x in body_walk(fi.node) if isinstance(x, ast.AugAssign) and isinstance(x.op, ast.Add) and isinstance(x.target, ast.Attribute)
                and x.target.attr == 'insideRW']
        if not incs:
            continue
        ctx.analysed(fi)
        cfg = CFG(fi.node, m, fi.module)
        decs = [i for x in body_walk(fi.node) if isinstance(x, ast.AugAssign) and isinstance(x.op, ast.Sub) and isinstance(x.target, ast.Attribute)
                and x.target.attr == 'insideRW' for i in cfg.ids(x)]
        for inc in incs:
            n += 1
            ok = bool(decs) and cfg.all_paths_pass(cfg.ids(inc), [cfg.exit, cfg.exit_exc], decs)
            if not ok and fi.name == '__enter__' and fi.cls is not None and '__exit__' in fi.cls.methods:
                # a context manager class: __exit__ runs for every way out of the with block - it has to decrement on every path
                ex = fi.cls.methods['__exit__']
                ecfg = CFG(ex.node, m, ex.module)
                edecs = [i for x in body_walk(ex.node) if isinstance(x, ast.AugAssign) and isinstance(x.op, ast.Sub) and isinstance(x.target, ast.Attribute)
                         and x.target.attr == 'insideRW' for i in ecfg.ids(x)]
                ok = bool(edecs) and ecfg.all_paths_pass([ecfg.entry], [ecfg.exit], edecs, exc=False)
            ctx.check(ok, f'{fi.qualname}:insideRW decremented on every exit', inc, 'every path from the increment to an exit (normal or exceptional) decrements',
                      f'after `{src(inc)}` there is an exit without the decrement (an exception in a member read / write, or thrown in at the yield '
                      'of the context manager): insideRW stays above zero, the member callbacks are disabled for good and the struct parameter '
                      'no longer follows its members', fi)
    if n < 1:
        raise AnchorMissing('increments of insideRW not found in frappy/extparams.py')


@rule('C18.R4b', min_instances=1)
def controller_callbacks_are_per_output(ctx):
    """the table of deactivate callbacks of an output (inputCallbacks) belongs to that output alone: the class-level default is
    immutable and the first registration creates a per-instance dict (a class-level dict would make taking over one output
    switch off the controllers of every other output)"""
    m = ctx.m
    ci = m.cls('frappy.mixins.HasControlledBy')
    decl = ci.assigns.get('inputCallbacks')
    f = m.method('frappy.mixins.HasControlledBy', 'register_input', inherited=False)
    ctx.analysed(f)
    mutable_default = isinstance(decl, (ast.Dict, ast.List, ast.Set)) or (isinstance(decl, ast.Call) and dotted(decl.func) in ('dict', 'list', 'set', 'OrderedDict'))
    fresh = [s for t, v, s in attr_stores(f.node) if t.attr == 'inputCallbacks' and dotted(t.value) == 'self'
             and (isinstance(v, ast.Dict) or (isinstance(v, ast.Call) and dotted(v.func) in ('dict', 'OrderedDict')))]
    cfg = CFG(f.node, m, f.module)
    writes = [n for n in body_walk(f.node) if isinstance(n, ast.Assign) and any(isinstance(t, ast.Subscript) and src(t.value) == 'self.inputCallbacks' for t in n.targets)]
    ok = not mutable_default and bool(writes)
    if not writes and not mutable_default:
        # `registry = self.inputCallbacks or {}; registry[name] = cb; self.inputCallbacks = registry`: a fresh dict when the immutable
        # class default is still there, stored on the instance
        stores_local = [s for t, v, s in attr_stores(f.node) if t.attr == 'inputCallbacks' and dotted(t.value) == 'self' and isinstance(v, ast.Name)]
        for s in stores_local:
            defs = [v for v, st, how in local_assigns(f.node, s.value.id) if v is not None]
            if defs and all(isinstance(v, ast.BoolOp) and isinstance(v.op, ast.Or) and src(v.values[0]) == 'self.inputCallbacks' and
                            isinstance(v.values[-1], (ast.Dict, ast.Call)) for v in defs):
                ok, fresh = True, [s]
    ctx.check(ok and (decl is None or bool(fresh)), f'{ci.qualname}:inputCallbacks is per instance', decl if decl is not None else f.node,
              'immutable class default, a fresh dict is stored on the instance before the first registration',
              f'inputCallbacks is declared as `{src(decl) if decl is not None else "?"}` at class level'
              + ('' if fresh else ' and register_input never stores a fresh dict on the instance')
              + ': all outputs share one table, so activate_control / self_controlled of one output deactivate the controllers of the '
              'others while their controlled_by still names them', f)


@rule('C18.R6b', min_instances=2)
def generated_wrappers_hold_the_access_lock(ctx):
    """the generated read_/write_ wrappers run their driver call inside `with self.accessLock:` - the StructParam counter
    insideRW ("guarded by self.accessLock") and the member/struct consistency rely on reads and writes of one module being
    serialised"""
    m = ctx.m
    hook = m.method(roles.HASACC, '__init_subclass__', inherited=False)
    ctx.analysed(hook)
    n = 0
    for name in ('new_rfunc', 'new_wfunc'):
        for fi in hook.nested.get(name, []):
            calls = [c for c in calls_in(fi.node) if isinstance(c.func, ast.Name) and c.func.id in ('rfunc', 'wfunc')]
            if not calls:
                continue      # the wrapper of a parameter without read method only returns the cached value
            n += 1
            ok = all(in_lock(c, 'accessLock') for c in calls)
            ctx.check(ok, f'{fi.qualname}:driver call inside accessLock', fi.node, 'with self.accessLock',
                      f'the driver call of the generated {name} is not inside `with self.accessLock:`: reads and writes of one module interleave, the '
                      'insideRW counter of struct parameters is no longer protected', fi)
    if n < 2:
        raise AnchorMissing('generated wrappers new_rfunc / new_wfunc not found')


@rule('C18.R4c', min_instances=4)
def hand_over_switches_both_sides(ctx):
    """taking over control: activate_control switches the new controller on on every path (set_control_active(True)) and, on the
    side where there is an output module, deactivates the others and stores its own name in controlled_by;
    deactivate_control switches off (False) on the side where control was active; self_controlled() resets controlled_by and
    switches the inputs off on the side where somebody was controlling; the insideRW counter moves by one in both
    directions"""
    m = ctx.m
    ac = m.method('frappy.mixins.HasOutputModule', 'activate_control', inherited=False)
    ctx.analysed(ac)
    cfg = CFG(ac.node, m, ac.module)
    on = [c for c in calls_in(ac.node) if call_attr(c) == 'set_control_active' and c.args and isinstance(c.args[0], ast.Constant) and c.args[0].value is True]
    ids = [i for c in on for i in cfg.node_of(c)]
    ctx.check(bool(ids) and cfg.all_paths_pass([cfg.entry], [cfg.exit], ids, exc=False), f'{ac.qualname}:new controller is switched on', ac.node,
              'set_control_active(True) on every path', 'taking over control does not mark the new controller as active: the output names a module that says it is not controlling', ac)
    hu, me = _handover_unit(m)
    delegated = {i for c in calls_in(ac.node) if hu is not ac and call_attr(c) == hu.name for i in cfg.node_of(c)}
    deact = {i for c in _deactivations(ac) for i in cfg.node_of(c)} | delegated
    named = {i for tg, v, s in attr_stores(ac.node) if tg.attr == 'controlled_by' for i in cfg.node_of(s)} | delegated
    ctx.check(not ((deact | named) & cfg.reach(ids)), f'{ac.qualname}:the others are switched off before the new controller is marked active', ac.node,
              'set_control_active(True) comes last',
              'the new controller is marked active before the previous one is switched off and before the output names it: in between (and for good when a deactivation '
              'fails) two controllers are marked as controlling one output while controlled_by names the old one', ac)
    for t in cfg.nodes:
        if t.kind == 'test' and src(t.ast).replace('not ', '') in ('out', 'self.output_module'):
            neg = src(t.ast).startswith('not ')
            side = cfg.reach([t.id], labels={'F' if neg else 'T'}, avoid=[t.id])
            stores = {i for tg, v, s in attr_stores(ac.node) if tg.attr == 'controlled_by' for i in cfg.node_of(s)} | delegated
            if delegated:
                ctx.analysed(hu)
                hstores = [s2 for tg, v, s2 in attr_stores(hu.node) if tg.attr == 'controlled_by' and v is not None and src(v) == me]
                hcfg = CFG(hu.node, m, hu.module)
                ctx.check(bool(hstores) and hcfg.all_paths_pass([hcfg.entry], [hcfg.exit], [i for s2 in hstores for i in hcfg.node_of(s2)], exc=False),
                          f'{hu.qualname}:records the new controller', hu.node, f'self.controlled_by = {me} on every path',
                          f'{hu.name} does not record the module that takes over in controlled_by on every path', hu)
            ctx.check(bool(stores) and stores <= side, f'{ac.qualname}:output is told who controls it', t.ast, 'out.controlled_by = self.name on the side with an output module',
                      f'`{src(t.ast)}`: controlled_by is stored only when there is NO output module (AttributeError on None)', ac)
    dc = m.method('frappy.mixins.HasOutputModule', 'deactivate_control', inherited=False)
    ctx.analysed(dc)
    cfgd = CFG(dc.node, m, dc.module)
    off = {i for c in calls_in(dc.node) if call_attr(c) == 'set_control_active' and c.args and isinstance(c.args[0], ast.Constant) and c.args[0].value is False
           for i in cfgd.node_of(c)}
    ok = bool(off)
    for t in cfgd.nodes:
        if t.kind == 'test' and src(t.ast).replace('not ', '') == 'self.control_active':
            neg = src(t.ast).startswith('not ')
            ok = ok and off <= cfgd.reach([t.id], labels={'F' if neg else 'T'}, avoid=[t.id])
    ctx.check(ok, f'{dc.qualname}:an active controller is switched off', dc.node, 'set_control_active(False) on the active side',
              'deactivate_control does not switch an active controller off: two modules are marked as controlling one output', dc)
    sc = m.method('frappy.mixins.HasControlledBy', 'self_controlled', inherited=False)
    ctx.analysed(sc)
    cfgs = CFG(sc.node, m, sc.module)
    for t in cfgs.nodes:
        if t.kind == 'test' and src(t.ast).replace('not ', '') == 'self.controlled_by':
            neg = src(t.ast).startswith('not ')
            side = cfgs.reach([t.id], labels={'F' if neg else 'T'}, avoid=[t.id])
            def zero(v):
                if isinstance(v, ast.Attribute) and dotted(v.value) in ('self', 'cls'):
                    _, cv = m.class_attr('frappy.mixins.HasControlledBy', v.attr)      # a class constant: SELF_CONTROL = 0
                    v = cv if cv is not None else v
                return isinstance(v, ast.Constant) and v.value == 0 and not isinstance(v.value, bool)
            st = {i for tg, v, s in attr_stores(sc.node) if tg.attr == 'controlled_by' and v is not None and zero(v) for i in cfgs.node_of(s)}
            de = {i for c in _deactivations(sc) for i in cfgs.node_of(c)}
            ctx.check(bool(st) and st <= side and bool(de) and de <= side, f'{sc.qualname}:controllers are switched off when the output takes over', t.ast,
                      'controlled_by = 0 and the deactivation loop on the controlled side',
                      f'`{src(t.ast)}`: a write to the output does not switch the controlling input off (or only when nobody is controlling)', sc)
    n = 0
    for q, fi in sorted(m.functions.items()):
        if fi.module.name != 'frappy.extparams':
            continue
        for x in body_walk(fi.node):
            if isinstance(x, ast.AugAssign) and isinstance(x.target, ast.Attribute) and x.target.attr == 'insideRW':
                n += 1
                ctx.check(isinstance(x.value, ast.Constant) and x.value.value == 1, f'{fi.qualname}:insideRW moves by one', x, src(x),
                          f'`{src(x)}` does not move the counter by exactly one: the suppression of member callbacks is never entered or never left', fi)
    if n < 2:
        raise AnchorMissing('insideRW counter updates not found')


@rule('C18.R9', min_instances=3)
def struct_members_are_paired_by_name(ctx):
    """StructParam: the value of a struct parameter is a dict keyed by member name, the member parameters are paramdict keyed by
    the same names - they are paired through the key (`value[membername]`).  `zip(self.paramdict.values(), value.values())`
    pairs them by POSITION: a struct value whose keys come in another order than the members were declared (a client may send
    them in any order, validate keeps that order) puts each value into the wrong member parameter"""
    m = ctx.m
    ci = m.classes.get('frappy.extparams.StructParam')
    if ci is None:
        raise AnchorMissing('frappy.extparams.StructParam not found')
    n = 0
    for name, f in sorted(ci.methods.items()):
        n += 1
        ctx.analysed(f)
        hits = []
        for c in ast.walk(f.node):
            if isinstance(c, ast.Call) and isinstance(c.func, ast.Name) and c.func.id == 'zip' and len(c.args) >= 2:
                vals = [a for a in c.args if isinstance(a, ast.Call) and call_attr(a) in ('values', 'items', 'keys')]
                if len(vals) >= 2 and any('paramdict' in src(a) for a in vals):
                    hits.append(c)
        ctx.check(not hits, f'{f.qualname}:members paired with their parameters by name', hits[0] if hits else f.node, 'no positional pairing of two mappings',
                  f'`{src(hits[0]) if hits else ""}` pairs the member parameters with the entries of another mapping by position: the orders need not agree '
                  '(the keys of a struct value come in the order the client sent them)', f)
    if n < 3:
        raise AnchorMissing('methods of StructParam not found')


@rule('C18.R10', min_instances=1)
def the_limits_pair_applies_whenever_it_exists(ctx):
    """Module.checkLimits: whether `<p>_limits` is checked depends on the presence of `<p>_limits` alone.  A selection that
    compares the COLLECTION of limit attributes found with an exact display (`present == ['_limits']`) skips the pair as soon as
    the class also has `<p>_min` or `<p>_max`: values outside `<p>_limits` are then accepted"""
    m = ctx.m
    cl = m.method(roles.MODULE, 'checkLimits', inherited=False)
    ctx.analysed(cl)
    hits = []
    for c in body_walk(cl.node):
        if isinstance(c, ast.Compare) and len(c.ops) == 1 and isinstance(c.ops[0], (ast.Eq, ast.NotEq)):
            for side in (c.left, c.comparators[0]):
                if isinstance(side, (ast.List, ast.Tuple, ast.Set)) and any(isinstance(e, ast.Constant) and isinstance(e.value, str) and e.value.endswith('_limits') for e in side.elts):
                    hits.append(c)
    ctx.check(not hits, f'{cl.qualname}:the pair is selected by its own presence', hits[0] if hits else cl.node, 'no comparison of the set of limit attributes with an exact display',
              f'`{src(hits[0]) if hits else ""}`: the limits pair is only used when it is the ONLY limit attribute - with an additional <p>_min / <p>_max the pair is ignored', cl)


@rule('C18.R11', min_instances=1)
def generated_member_functions_are_installed_one_by_one(ctx):
    """StructParam.__set_name__ installs read_<member> / write_<member> generated from read_<struct> / write_<struct> unless the
    programmer wrote that function: the `hasattr(owner, <name>)` test that guards a `setattr(owner, <name>, ...)` asks for the
    SAME name.  One test on the read name guarding the installation of both leaves a member with a hand-written reader without
    its generated writer - a write to the member is cached and announced but never reaches write_<struct>: member and struct
    disagree"""
    m = ctx.m
    f = m.method('frappy.extparams.StructParam', '__set_name__', inherited=False)
    ctx.analysed(f)
    n = 0
    for c in [x for x in calls_in(f.node) if isinstance(x.func, ast.Name) and x.func.id == 'setattr' and len(x.args) == 3]:
        guard = None
        for a in ancestors(c):
            if isinstance(a, ast.If):
                hs = [h for h in ast.walk(a.test) if isinstance(h, ast.Call) and isinstance(h.func, ast.Name) and h.func.id == 'hasattr' and len(h.args) == 2
                      and src(h.args[0]) == src(c.args[0])]
                if hs:
                    guard = hs[0]
                    break
        if guard is None:
            continue
        n += 1
        ctx.check(src(guard.args[1]) == src(c.args[1]), f'{f.qualname}:the test guarding an installation asks for the installed name', c,
                  f'`{src(guard)}` guards `{src(c)}`',
                  f'`{src(c)}` is guarded by `{src(guard)}` - another name: whether `{src(c.args[1])}` is generated depends on whether `{src(guard.args[1])}` was written by the '
                  'programmer', f)
    if not n:
        ctx.undecided(f'{f.qualname}:the test guarding an installation asks for the installed name', f.node, 'no setattr(owner, ...) under a hasattr(owner, ...) test found', f)
