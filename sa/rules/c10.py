"""C10 - configuration is applied faithfully; erroneous configuration is rejected whole"""
from sa.core import rule, prop_info
from sa.lib import *  # noqa: F401,F403
from sa.lib import origins, local_assigns, exit_calls  # noqa
from sa.lib import (attr_stores, func_calls, enclosing_tries, handler_reraises, handler_type_names, loop_anchor,
                    compare_ops, ReachingDefs)
from sa.model import AnchorMissing
from sa import roles

SN = 'frappy.secnode.SecNode'

prop_info(
    'C10',
    'Decided: R1 every handler and every detected-problem branch of Module.__init__/_add_accessible/_handle_writes '
    'feeds the error list (no silent handler), the leftover-names check follows the consumption of properties and '
    'accessibles, and `if self.errors: raise ConfigError` lies on every normal path out of __init__; R2 in '
    'get_module_instance a module is registered only when it was created and every handler appends to the node '
    'errors; R3 the server tests exactly the collected node errors before it waits for start events (order: C15.R2); '
    'R4 value/default/constant from the configuration are checked against the datatype before they are stored, the '
    'write registration is guarded by the existence of the write method, writeInitParams pops a value before it '
    'writes it; R5 checkProperties runs for the module and every accessible, and implements the mandatory and '
    'min<=max rules.',
    not_decided='converted start values, merged multi-file configurations, described limits after override (values).')


def _appends_error(stmts):
    for st in stmts:
        for c in calls_in(st):
            if call_attr(c) == 'append' and src(c.func.value).endswith('errors'):
                return True
    return False


@rule('C10.R1', min_instances=7)
def error_sink(ctx):
    """handlers append to self.errors; leftover check after consumption; final raise on every path"""
    m = ctx.m
    for name in ('__init__', '_add_accessible', '_handle_writes'):
        f = m.method(roles.MODULE, name, inherited=False)
        ctx.analysed(f)
        for n in body_walk(f.node):
            if isinstance(n, ast.ExceptHandler):
                ok = _appends_error(n.body) or handler_reraises(n)
                ctx.check(ok, f'{f.qualname}:handler `{src(n.type) if n.type else "bare"}` reports', n,
                          'the handler appends to self.errors', f'the handler for `{src(n.type) if n.type else "everything"}` swallows a '
                          'configuration problem: a wrong value / unknown property is silently ignored', f)
    init = m.method(roles.MODULE, '__init__', inherited=False)
    cfg = CFG(init.node, m, init.module)
    # leftover names
    left = [n for n in body_walk(init.node) if isinstance(n, ast.If) and src(n.test) == 'cfgdict' and _appends_error(n.body)]
    pops = [c for c in calls_in(init.node) if call_attr(c) == 'pop' and src(c.func.value) == 'cfgdict']
    ok = bool(left) and len(pops) >= 2 and all(cfg.dominates(loop_anchor(cfg, c), i) for c in pops for i in cfg.ids(left[0].test))
    ctx.check(ok, f'{init.qualname}:unknown names reported', init.node, '`if cfgdict: errors.append(...)` follows both consumption loops',
              'names left over in the configuration (unknown property / parameter) are not reported after both consumption loops', init)
    # an accessible that is not implemented (optional) must not consume its configuration entry
    opt = [n for n in body_walk(init.node) if isinstance(n, ast.If) and src(n.test).endswith('.optional') and any(isinstance(x, ast.Continue) for x in n.body)]
    for c in pops:
        loop = next((a for a in ancestors(c) if isinstance(a, ast.For)), None)
        if loop is None or 'accessibles' not in src(resolved(loop.iter, init.node)):
            continue
        # the pop lies only where a test established that the accessible is not optional (`if aobj.optional: continue` before
        # it, or an enclosing `if not aobj.optional:`)
        ok = set(cfg.node_of(c)) <= sides_with_fact(cfg, lambda a, tv: not tv and src(a).endswith('.optional'))
        ctx.check(ok, f'{init.qualname}:configuration consumed only for implemented accessibles', c,
                  '`if aobj.optional: continue` precedes cfgdict.pop(aname)',
                  'the configuration entry is popped before the optional-accessible guard: a configuration naming a parameter the class does '
                  'not implement is silently dropped instead of being reported as unknown', init)
    # final raise
    fin = [n for n in body_walk(init.node) if isinstance(n, ast.If) and src(n.test) == 'self.errors' and n.body and isinstance(n.body[0], ast.Raise)
           and 'ConfigError' in src(n.body[0])]
    ok = bool(fin) and cfg.all_paths_pass([cfg.entry], [cfg.exit], cfg.ids(fin[0].test), exc=False) and not fin[0].orelse
    ctx.check(ok, f'{init.qualname}:errors end in ConfigError', init.node, '`if self.errors: raise ConfigError(self.errors)` on every normal path',
              'a normal path leaves Module.__init__ without testing self.errors: a half-configured module object is created', init)
    hw = m.method(roles.MODULE, '_handle_writes', inherited=False)
    probs = [n for n in body_walk(hw.node) if isinstance(n, ast.If) and ('needscfg' in src(n.test) or 'hasDatatype' in src(n.test) or src(n.test).startswith('not baseparam'))]
    for n in probs:
        ctx.check(_appends_error(n.body), f'{hw.qualname}:problem `{src(n.test)}` reported', n, 'appends to self.errors',
                  f'the detected problem `{src(n.test)}` is not reported', hw)


@rule('C10.R2', min_instances=4)
def no_registration_on_failure(ctx):
    """get_module_instance: add_module only for a created module; handlers append to errors"""
    m = ctx.m
    f = m.method(SN, 'get_module_instance', inherited=False)
    ctx.analysed(f)
    cfg = CFG(f.node, m, f.module)
    adds = [c for c in calls_in(f.node) if call_attr(c) == 'add_module']
    if not adds:
        raise AnchorMissing('add_module call not found in get_module_instance')
    for c in adds:
        arg = src(c.args[0]) if c.args else ''
        guard = [a for a in ancestors(c) if isinstance(a, ast.If) and src(a.test) in (arg, f'{arg} is not None')]
        ctx.check(bool(guard), f'{f.qualname}:registration guarded', c, f'add_module only `if {arg}`',
                  'a module is registered although its creation failed (None / partially constructed object)', f)
        ctors = [i for x in calls_in(f.node) if (isinstance(x.func, ast.Name) and x.func.id == 'cls') or
                 (isinstance(x.func, ast.Attribute) and dotted(x.func.value) == 'self' and any(isinstance(a_, ast.Name) and a_.id == 'cls' for a_ in x.args))
                 for i in cfg.node_of(x)]      # (the constructor call itself, or the helper the class is handed to)
        if not ctors:
            # the whole creation may be a helper: what is registered is what that helper handed back
            ctors = [i for x in body_walk(f.node) if isinstance(x, ast.Assign) and any(src(t) == arg for t in x.targets) and isinstance(x.value, ast.Call)
                     and isinstance(x.value.func, ast.Attribute) and dotted(x.value.func.value) == 'self' and x.value.func.attr.startswith('_') for i in cfg.node_of(x)]
        ctx.check(bool(ctors) and (all(cfg.dominates(ctors, i) for i in cfg.node_of(c)) or
                                   not (set(cfg.node_of(c)) & reach_with_flags(cfg, [cfg.entry], avoid=ctors))), f'{f.qualname}:registration after construction', c,
                  'the constructor call dominates add_module', 'the module is registered before / without being constructed', f)
    for n in body_walk(f.node):
        if isinstance(n, ast.ExceptHandler):
            sets_none = any(isinstance(x, ast.Assign) and isinstance(x.value, ast.Constant) and x.value.value is None for st in n.body for x in walk_local(st)) \
                or any(isinstance(x, ast.Return) and (x.value is None or isinstance(x.value, ast.Constant) and x.value.value is None) for st in n.body for x in walk_local(st))
            if not sets_none:
                # the None may be produced after the try statement: every way from the handler to the end of the function passes it
                none_ids = [i for x in body_walk(f.node) if (isinstance(x, ast.Return) and (x.value is None or (isinstance(x.value, ast.Constant) and x.value.value is None)))
                            or (isinstance(x, ast.Assign) and isinstance(x.value, ast.Constant) and x.value.value is None) for i in cfg.node_of(x)]
                sets_none = bool(none_ids) and cfg.all_paths_pass(cfg.ids(n), [cfg.exit], none_ids, exc=False)
            ctx.check(_appends_error(n.body) and sets_none, f'{f.qualname}:handler `{src(n.type) if n.type else "bare"}` reports and yields None', n,
                      'appends to self.errors and yields no module', 'a creation failure is not reported as node error or still yields a module object', f)


@rule('C10.R3', min_instances=1)
def server_tests_node_errors(ctx):
    """_processCfg: the errors that lead to sys.exit are secnode.errors (plus start errors)"""
    m = ctx.m
    f = m.method('frappy.server.Server', '_processCfg', inherited=False)
    ctx.analysed(f)
    cfg = CFG(f.node, m, f.module)
    rd = ReachingDefs(cfg, f.node)
    tests = [n for n in body_walk(f.node) if isinstance(n, ast.If) and src(n.test) == 'errors' and any(any(a is n for a in ancestors(c)) for c in exit_calls(m, f, cfg))]
    if not tests:
        raise AnchorMissing('`if errors: ... sys.exit` not found in _processCfg')
    # no way to come back from _processCfg without having asked (test mode included: `frappy-server --test` exists to find
    # configuration errors; the playground builds nodes that way)
    tids = [i for n in tests for i in cfg.ids(n.test)]
    ctx.check(cfg.all_paths_pass([cfg.entry], [cfg.exit], tids, exc=False), f'{f.qualname}:every way back passes the errors test', tests[0],
              'all normal paths through _processCfg test the collected errors',
              '_processCfg can return normally on a path that never tests the collected errors: with failing modules the node (in test mode: the '
              'checker) comes back as if the configuration was fine - nothing is reported, exit status 0', f)
    for n in tests:
        o = rd.origins_at(n.test, n.test)
        ok = any('secnode.errors' in src(x) for x in o) and all('secnode.errors' in src(x) for x in o)
        ctx.check(ok, f'{f.qualname}:exit decided on the node errors', n, 'errors = self.secnode.errors',
                  f'the exit is decided on {[src(x) for x in o]}, not (only) on the errors collected by the node: failing modules are not reported together / the node starts anyway', f)


@rule('C10.R4', min_instances=4)
def start_values(ctx):
    """datatype check before storing configured values; write registration guarded; pop before write"""
    m = ctx.m
    f = m.method(roles.MODULE, '_add_accessible', inherited=False)
    ctx.analysed(f)
    cfg = CFG(f.node, m, f.module)
    from sa.lib import deep_calls
    deep = deep_calls(m, f, lambda c: call_attr(c) == 'setProperty')
    if not deep:
        raise AnchorMissing('setProperty call not found in _add_accessible')
    owner = deep[0][1]
    if owner is not f:
        ctx.analysed(owner)
        f = owner          # the configuration block was extracted into a helper: analyse it there
        cfg = CFG(f.node, m, f.module)
    sets = [c for c, o, site in deep if o is f]
    def value_props(test):
        """`propname in {'value', 'default', 'constant'}` - the collection may be a module level constant"""
        for x in ast.walk(test):
            if isinstance(x, ast.Compare) and len(x.ops) == 1 and isinstance(x.ops[0], ast.In):
                coll = x.comparators[0]
                vals = None
                if isinstance(coll, ast.Attribute) and dotted(coll.value) in ('self', 'cls') and f.cls is not None:
                    _, cv = m.class_attr(f.cls.qualname, coll.attr)        # a class level constant: `_VALUE_PROPERTIES = frozenset({...})`
                    if cv is not None:
                        coll = cv
                if isinstance(coll, ast.Call) and dotted(coll.func) in ('frozenset', 'set', 'tuple', 'list') and len(coll.args) == 1:
                    coll = coll.args[0]
                if isinstance(coll, (ast.Set, ast.Tuple, ast.List)):
                    vals = {e.value for e in coll.elts if isinstance(e, ast.Constant)}
                elif isinstance(coll, ast.Name):
                    from sa.model import UNKNOWN
                    v = m.const_name(f.module, coll.id)
                    vals = set(v) if v is not UNKNOWN and isinstance(v, (set, frozenset, tuple, list)) else None
                if vals is not None and {'value', 'default', 'constant'} <= vals:
                    return True
        return False
    chk = [n for n in body_walk(f.node) if isinstance(n, ast.If) and value_props(n.test)]
    # the check runs against the datatype AS CONFIGURED SO FAR: it sits in the loop that applies the properties in the order of
    # the section (a check hoisted in front of that loop uses the class-level datatype: `Param('long text', maxchars=8)` passes)
    dchecks = [c for c in calls_in(f.node) if isinstance(c.func, ast.Attribute) and c.func.attr == 'datatype' and c.args and
               any(isinstance(x, ast.Subscript) for x in ast.walk(c.args[0]))]
    for c in dchecks:
        loops_c = [a for a in ancestors(c) if isinstance(a, ast.For)]
        shared = any(any(a is b for b in ancestors(sp)) for a in loops_c for sp in sets)
        ctx.check(shared, f'{f.qualname}:values are checked against the datatype as configured', c, 'inside the loop that applies the properties in order',
                  f'`{src(c)}` checks value / default / constant in a pass of its own, BEFORE the properties of the same section (maxchars, datatype, ...) are applied: '
                  'a value that fits the class-level datatype but not the configured one is accepted - and silently dropped later', f)
    ok = bool(chk) and any(isinstance(c.func, ast.Attribute) and c.func.attr == 'datatype' for c in calls_in(chk[0]))
    if dchecks and not chk:
        ok = True       # the selection of value / default / constant has another form (a loop over the three names): decided above
    ctx.check(ok, f'{f.qualname}:configured values checked against the datatype', f.node, 'accessible.datatype(cfg[propname]) for value/default/constant',
              'value / default / constant from the configuration are stored without a datatype check', f)
    if chk:
        for c in sets:
            ctx.check(all(cfg.dominates(cfg.ids(chk[0].test), i) for i in cfg.node_of(c)), f'{f.qualname}:check precedes setProperty', c,
                      'the datatype check dominates setProperty', 'setProperty can run before the datatype check', f)
    hw = m.method(roles.MODULE, '_handle_writes', inherited=False)
    ctx.analysed(hw)
    regs = [n for n in body_walk(hw.node) if isinstance(n, ast.Subscript) and isinstance(n.ctx, ast.Store) and src(n.value) == 'self.writeDict']
    for r in regs:
        ok = any(isinstance(a, ast.If) and 'hasattr(self' in src(a.test) and "'write_'" in src(a.test) for a in ancestors(r))
        ctx.check(ok, f'{hw.qualname}:write registration guarded', r, "only `if hasattr(self, 'write_' + pname)`",
                  'a configured value is registered for writing although there is no write method', hw)
    if not regs:
        raise AnchorMissing('writeDict registration not found in _handle_writes')
    wi = m.method(roles.MODULE, 'writeInitParams', inherited=False)
    ctx.analysed(wi)
    cfgw = CFG(wi.node, m, wi.module)
    pops = [i for c in calls_in(wi.node) if call_attr(c) == 'pop' and src(c.func.value) == 'self.writeDict' for i in cfgw.node_of(c)]
    wcalls = [i for c in calls_in(wi.node) if isinstance(c.func, ast.Name) and c.func.id == 'wfunc' for i in cfgw.node_of(c)]
    ok = bool(pops) and bool(wcalls) and all(cfgw.dominates(pops, i) for i in wcalls)
    ctx.check(ok, f'{wi.qualname}:value popped before it is written', wi.node, 'writeDict.pop dominates the write call',
              'the value is written before it is removed from writeDict: it can be written more than once', wi)
    # the pop IS the test-and-take: the written value has to be the result of the pop (a value listed earlier may have been
    # taken - and written - by a write handler covering several parameters in the meantime)
    for c in [c for c in calls_in(wi.node) if isinstance(c.func, ast.Name) and c.func.id == 'wfunc' and c.args]:
        o = origins(c.args[0], wi.node)
        taken = bool(o) and all(isinstance(x, ast.Call) and call_attr(x) == 'pop' and src(x.func.value) == 'self.writeDict' for x in o)
        ctx.check(taken, f'{wi.qualname}:written value is the popped one', c, 'wfunc(value) with value = self.writeDict.pop(pname, <sentinel>)',
                  f'`{src(c)}` writes {[src(x) for x in o]}, a value listed before the pop: when writing one parameter lets a common write handler '
                  'send (and pop) the other pending values too, the loop still writes them again - configured values reach the hardware twice', wi)


@rule('C10.R5', min_instances=4)
def consistency_checks(ctx):
    """checkProperties called for module and accessibles; mandatory and min<=max rules exist"""
    m = ctx.m
    init = m.method(roles.MODULE, '__init__', inherited=False)
    ctx.analysed(init)
    calls = [c for c in calls_in(init.node) if call_attr(c) == 'checkProperties']
    own = [c for c in calls if src(c.func.value) == 'self']
    acc = [c for c in calls if any(isinstance(a, ast.For) and 'accessibles' in src(a.iter) for a in ancestors(c))]
    ctx.check(bool(own), f'{init.qualname}:module properties checked', init.node, 'self.checkProperties()', 'module properties are never checked', init)
    ctx.check(bool(acc), f'{init.qualname}:accessible properties checked', init.node, 'aobj.checkProperties() for every accessible',
              'accessible properties are never checked', init)
    for c in own + acc:
        from sa.lib import contained_by_catch_all
        hs = [h for t, part in enclosing_tries(c) if part == 'body' for h in t.handlers]
        ctx.check(any('ConfigError' in (handler_type_names(h) or []) and _appends_error(h.body) for h in hs), f'{init.qualname}:check result reported ({src(c.func)})', c,
                  'ConfigError is appended to self.errors', 'a failing consistency check is not reported', init)
    cp = m.method('frappy.properties.HasProperties', 'checkProperties', inherited=False)
    ctx.analysed(cp)
    mand = [n for n in body_walk(cp.node) if isinstance(n, ast.If) and src(n.test).endswith('.mandatory')]
    ok = bool(mand) and any('ConfigError' in src(x) for n in mand for x in ast.walk(n) if isinstance(x, ast.Raise))
    if not ok and mand:
        # early-continue form: `if not po.mandatory: continue` followed by the check in the same loop
        for n in mand:
            loop = next((a for a in ancestors(n) if isinstance(a, ast.For)), None)
            if loop is not None and src(n.test).startswith('not ') and any(isinstance(x, ast.Continue) for x in n.body) and \
                    any(isinstance(x, ast.Raise) and 'ConfigError' in src(x) for x in ast.walk(loop)):
                ok = True
    ctx.check(ok, f'{cp.qualname}:mandatory rule', cp.node, 'a missing mandatory property raises ConfigError', 'the mandatory rule is missing', cp)
    order = False
    for n in body_walk(cp.node):
        if isinstance(n, ast.If) and n.body and isinstance(n.body[0], ast.Raise) and 'ConfigError' in src(n.body[0]):
            for l, op, r in compare_ops(n.test):
                if (op == '<' and l.startswith('max') and r.startswith('min')) or (op == '<=' and False):
                    order = True
    ctx.check(order, f'{cp.qualname}:min<=max rule', cp.node, '`if minval > maxval: raise ConfigError`', 'inverted limits (min > max) are not rejected', cp)


@rule('C10.R6', min_instances=3)
def configured_writes_in_poll_thread(ctx):
    """shared with C15.R4: configured values are written for every module of the poll thread before reads and polls"""
    from sa.rules import c15
    c15.poll_thread_startup(ctx)


@rule('C10.R7', min_instances=2)
def wrappers_use_the_instance_parameter(ctx):
    """the generated read / write wrappers take the Parameter (and with it the configured datatype limits) from the instance
    (self.parameters / self.accessibles), never from an object bound at class creation (default argument / closure)"""
    m = ctx.m
    n = 0
    for kind, lst in roles.wrappers(m).items():
        for w in lst:
            ctx.analysed(w)
            dflt_names = [a.arg for a in w.node.args.args][len(w.node.args.args) - len(w.node.args.defaults):]
            for x in body_walk(w.node):
                if isinstance(x, ast.Attribute) and x.attr == 'datatype' and isinstance(x.ctx, ast.Load):
                    n += 1
                    base = x.value
                    o = [base] + (origins(base, w.node) if isinstance(base, ast.Name) else [])
                    inst = any(src(b).startswith(('self.parameters[', 'self.accessibles[')) for b in o)
                    closure = isinstance(base, ast.Name) and (base.id in dflt_names or not local_assigns(w.node, base.id))
                    ctx.check(inst and not closure, f'{w.qualname}:datatype of the instance parameter', x, f'`{src(x)}` comes from the instance',
                              f'`{src(x)}` is the datatype of the class level Parameter bound when the class was created: limits / unit overridden in the '
                              'configuration of one instance are ignored by the wrapper (a value outside the configured limits reaches the driver, one '
                              'inside the widened limits is refused)', w)
    if not n:
        raise AnchorMissing('no datatype use found in the generated wrappers')


@rule('C10.R9', min_instances=1)
def every_placeholder_datatype_is_replaced(ctx):
    """datatype properties declared with a placeholder (`Property(..., Stub('StringType'))` - StringType is defined later in
    the file) validate NOTHING until Stub.fix_datatypes replaced the placeholder: the replacement loop has to reach the class
    that DECLARES each such property - also a plain mix-in like HasUnit, which is no DataType and is only reached through the
    merged propertyDict of its subclasses.  A property left with its Stub accepts any configured value (a list as unit)"""
    m = ctx.m
    mod = m.modules.get('frappy.datatypes')
    if mod is None:
        raise AnchorMissing('frappy.datatypes not found')
    decl = {}
    for q, ci in m.classes.items():
        if ci.module is not mod:
            continue
        for a, e in ci.assigns.items():
            if isinstance(e, ast.Call) and dotted(e.func) == 'Property' and any(isinstance(x, ast.Call) and dotted(x.func) == 'Stub' for x in ast.walk(e)):
                decl.setdefault(q, []).append(a)
    fx = m.classes.get('frappy.datatypes.Stub')
    f = fx.methods.get('fix_datatypes') if fx else None
    if f is None or not decl:
        raise AnchorMissing('Stub.fix_datatypes / Property(..., Stub(...)) declarations not found')
    ctx.analysed(f)
    loops = [n for n in body_walk(f.node) if isinstance(n, ast.For)]
    inner = [n for n in loops if any(isinstance(a, ast.For) for a in ancestors(n))]
    merged = any('propertyDict' in src(n.iter) for n in inner or loops)
    filt = [src(t.test) for t in body_walk(f.node) if isinstance(t, ast.If) and 'issubclass' in src(t.test)]
    for q, attrs in sorted(decl.items()):
        is_dt = q == 'frappy.datatypes.DataType' or 'frappy.datatypes.DataType' in m.mro(q)
        ok = merged or is_dt or not filt
        ctx.check(ok, f'{f.qualname}:placeholders of {q.rpartition(".")[2]} are replaced', f.node,
                  'the loop walks the merged propertyDict of every DataType class' if merged else 'the declaring class is visited itself',
                  f'{q.rpartition(".")[2]} declares {attrs} with a Stub datatype, but it is not a DataType subclass (filter `{filt[0] if filt else ""}`) and the inner loop '
                  f'(`{src((inner or loops)[0].iter) if (inner or loops) else ""}`) only sees the attributes of the visited class itself: the property keeps the '
                  'placeholder, which returns every value unchanged - a configuration may set it to a value of any type', f)


@rule('C10.R10', min_instances=1)
def only_import_failures_silence_later_modules(ctx):
    """SecNode.get_module_instance returns None WITHOUT a report for a module whose python module is in failed_modules (the
    import error was reported once).  That set is keyed by the python module, so it may only be extended where the IMPORT
    failed - an entry made because one module's configuration was wrong silently drops every later module whose class lives
    in the same python file (they are neither created nor reported)"""
    m = ctx.m
    f = m.method('frappy.secnode.SecNode', 'get_module_instance', inherited=False)
    ctx.analysed(f)
    adds = [c for c in calls_in(f.node) if call_attr(c) == 'add' and src(c.func.value).endswith('failed_modules')]
    if not adds:
        ctx.ok(f'{f.qualname}:failed_modules records import failures only', f.node, 'nothing is added to failed_modules', f)
        return
    for c in adds:
        ok = any(part == 'handler' and any(call_name(x) == 'get_class' or call_attr(x) == 'import_module' for st in t.body for x in calls_in(st))
                 and not any(isinstance(x, ast.Call) and isinstance(x.func, ast.Name) and x.func.id == 'cls' for st in t.body for x in calls_in(st))
                 for t, part in enclosing_tries(c))
        ctx.check(ok, f'{f.qualname}:failed_modules records import failures only', c, 'added in the handler of the import (get_class)',
                  f'`{src(c)}` marks the whole python module as failed where no import failed (a module could not be created from its configuration): '
                  'every later module whose class comes from the same python module is skipped by `if pymodule in self.failed_modules: return None` - '
                  'not created and not reported, the node complains about one module only', f)


@rule('C10.R8', min_instances=1)
def configured_value_wins_over_the_stored_one(ctx):
    """shared with C17.R4 / C17.R4b: a value given in the configuration is the start value even when a persistent value is
    stored: the restore is guarded by `not pobj.given` and `given` is set for every configured value, write method or not"""
    from sa.rules import c17
    c17.precedence(ctx)
    c17.given_flag_is_set_for_every_configured_value(ctx)


@rule('C10.R2b', min_instances=3)
def no_module_is_dropped_silently(ctx):
    """get_module_instance: every path that ends without a module object (return None / modobj = None) has appended to
    self.errors - the only exception is the branch on which the python module is known to have failed before
    (`pymodule in self.failed_modules` TRUE: the error was reported when it failed) - so a module can not silently vanish from
    a node that then starts without it"""
    m = ctx.m
    f = m.method(SN, 'get_module_instance', inherited=False)
    ctx.analysed(f)
    cfg = CFG(f.node, m, f.module)
    apps = {i for c in calls_in(f.node) if call_attr(c) == 'append' and src(c.func.value) == 'self.errors' for i in cfg.node_of(c)}
    known = set()
    for t in cfg.nodes:
        if t.kind == 'test':
            for l, op, r in compare_ops(t.ast):
                if r == 'self.failed_modules' and op in ('in', 'notin'):
                    known |= {b for b, lab in cfg.succ[t.id] if lab == ('T' if op == 'in' else 'F')}
    # a helper method that hands back None only after it reported (same rule, applied to the helper): the side on which its
    # result is found to be None counts as reported
    def helper_reports(h):
        hcfg = CFG(h.node, m, h.module)
        happs = {i for c in calls_in(h.node) if call_attr(c) == 'append' and src(c.func.value) == 'self.errors' for i in hcfg.node_of(c)}
        hknown = set()
        for t in hcfg.nodes:
            if t.kind == 'test':
                for l, op, r in compare_ops(t.ast):
                    if r == 'self.failed_modules' and op in ('in', 'notin'):
                        hknown |= {b for b, lab in hcfg.succ[t.id] if lab == ('T' if op == 'in' else 'F')}
        hn = [x for x in body_walk(h.node) if isinstance(x, ast.Return) and (x.value is None or (isinstance(x.value, ast.Constant) and x.value.value is None))]
        return bool(hn) and all(hcfg.all_paths_pass([hcfg.entry], hcfg.ids(x), happs | hknown) for x in hn) and \
            not can_end_without_value(hcfg, h.node, explicit_none_ok=True)
    for site, h in helper_methods_called(m, f):
        st = next((a for a in ancestors(site) if isinstance(a, ast.stmt)), None)
        if isinstance(st, ast.Assign) and st.value is site and isinstance(st.targets[0], ast.Name) and helper_reports(h):
            ctx.analysed(h)
            var = st.targets[0].id
            for t in cfg.nodes:
                if t.kind == 'test' and isinstance(t.ast, ast.expr):
                    for lab in ('T', 'F'):
                        if any(isinstance(a, ast.Compare) and src(a.left) == var and len(a.ops) == 1 and isinstance(a.comparators[0], ast.Constant)
                               and a.comparators[0].value is None and ((isinstance(a.ops[0], ast.Is) and tv) or (isinstance(a.ops[0], ast.IsNot) and not tv))
                               for a, tv in facts_on_side(t.ast, lab == 'T')):
                            known |= {b for b, l2 in cfg.succ[t.id] if l2 == lab}
    creation_start = [i for c in calls_in(f.node) if call_attr(c) == 'get' and 'module_cfg' in src(c.func) for i in cfg.node_of(c)] or [cfg.entry]
    nones = [n for n in body_walk(f.node) if (isinstance(n, ast.Return) and isinstance(n.value, ast.Constant) and n.value.value is None) or
             (isinstance(n, ast.Assign) and isinstance(n.value, ast.Constant) and n.value.value is None and src(n.targets[0]) == 'modobj')]
    if not nones:
        raise AnchorMissing('no failure exit (return None / modobj = None) found in get_module_instance')
    for n in nones:
        ok = cfg.all_paths_pass(creation_start, cfg.ids(n), apps | known)
        ctx.check(ok, f'{f.qualname}:failure exit `{src(n)}` is reported', n, 'every path to it appends to self.errors (or the module failed before)',
                  f'a path reaches `{src(n)}` without appending to self.errors: the module is silently missing and the node starts without it', f)
    # and the NoSuchModule refusal for a name that is not configured
    for t in cfg.nodes:
        if t.kind == 'test' and any(op in ('is', 'isnot') and r == 'None' and l == 'opts' for l, op, r in compare_ops(t.ast)):
            op = [op for l, op, r in compare_ops(t.ast)][0]
            ctx.check(side_never_completes(cfg, t.id, 'T' if op == 'is' else 'F'), f'{f.qualname}:unknown module name is refused', t.ast, 'raises NoSuchModuleError',
                      'a module name without configuration does not raise', f)


@rule('C10.R11', min_instances=1)
def a_false_start_value_is_still_a_value(ctx):
    """Module.writeInitParams: whether there IS a value waiting for a parameter is asked by identity with the sentinel the pop
    returns for "nothing there" (`is Done`), never by the truth of the popped value - 0, 0.0, False, '' and an empty array are
    start values a configuration can give; taken for "nothing to write" they are removed from writeDict and never handed to
    the write method"""
    m = ctx.m
    f = m.method(roles.MODULE, 'writeInitParams', inherited=False)
    ctx.analysed(f)
    units = [f] + [h for site, h in helper_methods_called(m, f)]
    n = 0
    for g in units:
        popped = {x.targets[0].id for x in body_walk(g.node) if isinstance(x, ast.Assign) and len(x.targets) == 1 and isinstance(x.targets[0], ast.Name)
                  and isinstance(x.value, ast.Call) and call_attr(x.value) in ('pop', 'get') and src(x.value.func.value) == 'self.writeDict'}
        if not popped:
            continue
        gcfg = CFG(g.node, m, g.module)
        for t in gcfg.nodes:
            if t.kind != 'test' or isinstance(t.ast, ast.stmt):
                continue
            for a, tv in facts_on_side(t.ast, True) + facts_on_side(t.ast, False):
                if isinstance(a, ast.Name) and a.id in popped:
                    n += 1
                    ctx.bad(f'{g.qualname}:the waiting value is tested by identity with the sentinel', t.ast,
                            f'`{src(t.ast)}` decides by the truth of the value taken from writeDict: a configured start value of 0, 0.0, False, \'\' or [] is popped and '
                            'silently never written to the hardware', g)
        n += 1
        ctx.ok(f'{g.qualname}:waiting values taken from writeDict', g.node, f'{sorted(popped)} compared with the sentinel', g)
    if not n:
        raise AnchorMissing('no value taken from self.writeDict in writeInitParams')


@rule('C10.R12', min_instances=1)
def a_required_value_is_asked_for_before_any_default_is_taken(ctx):
    """Module._handle_writes (and its helpers): where a parameter got no value, the start value is taken from a default -
    `pobj.value = pobj.default`.  Every such store is dominated by the test of `needscfg`, so that a parameter that REQUIRES a
    configured value is reported as missing whether or not a default exists; a guard clause that takes the default first
    lets a module with a missing required value be created silently"""
    m = ctx.m
    hw = m.method(roles.MODULE, '_handle_writes', inherited=False)
    n = 0
    units = [hw] + [h for site, h in helper_methods_called(m, hw)]
    tested = False
    for g in units:
        cfg = CFG(g.node, m, g.module)
        tests = [t.id for t in cfg.nodes if t.kind == 'test' and any(isinstance(x, ast.Attribute) and x.attr == 'needscfg' for x in ast.walk(t.ast))]
        stores = [s for t_, v, s in attr_stores(g.node) if t_.attr == 'value' and dotted(t_.value) != 'self'
                  and any(isinstance(x, ast.Attribute) and x.attr == 'default' for x in ast.walk(v))]
        tested |= bool(tests)
        for s in stores:
            n += 1
            ctx.analysed(g)
            ok = bool(tests) and all(cfg.dominates(tests, i) for i in cfg.node_of(s))
            ctx.check(ok, f'{g.qualname}:needscfg is asked before the default is taken', s, 'the needscfg test dominates the store of the default',
                      f'`{src(s)}` can be reached without the test of `needscfg`: a parameter that requires a configured value and happens to have a '
                      'default starts with that default, nothing is appended to self.errors and the module is created and registered', g)
    if not n or not tested:
        raise AnchorMissing('the needscfg test / the store of the default value not found in _handle_writes and its helpers')


@rule('C10.R13', min_instances=1)
def configurations_found_by_a_pinata_are_all_processed(ctx):
    """SecNode.create_modules: Pinata.scanModules() yields further module configurations, which are created (or rejected and
    reported) like the ones of the configuration file - at every level: a pinata may yield a pinata.  Where the creation of one
    module is a helper method that RETURNS what its pinata found, that result is used at every call; a call whose result is
    dropped (`self._create_configured(modname, options)` as a statement) ignores those configurations silently - a good one
    produces no module, an erroneous one no entry in the error report"""
    m = ctx.m
    f = m.method(SN, 'create_modules', inherited=False)
    ctx.analysed(f)
    ci = m.cls(SN)
    n = 0
    scans = [c for c in calls_in(f.node) if call_attr(c) == 'scanModules']
    for st in body_walk(f.node):
        for c in calls_in(st) if isinstance(st, ast.Expr) else []:
            if c is st.value and isinstance(c.func, ast.Attribute) and dotted(c.func.value) == 'self' and c.func.attr in ci.methods:
                h = ci.methods[c.func.attr]
                if any(call_attr(x) == 'scanModules' for x in calls_in(h.node)) and \
                        any(isinstance(r, ast.Return) and r.value is not None and not (isinstance(r.value, ast.Constant) and r.value.value is None) for r in body_walk(h.node)):
                    n += 1
                    ctx.bad(f'{f.qualname}:what a pinata found is processed at every level', st,
                            f'`{src(st)}` drops what {h.name}() returns - the module configurations its pinata found: they are neither created nor reported', f)
    helpers = [ci.methods[c.func.attr] for c in calls_in(f.node) if isinstance(c.func, ast.Attribute) and dotted(c.func.value) == 'self' and c.func.attr in ci.methods]
    if not scans and not any(call_attr(x) == 'scanModules' for h in helpers for x in calls_in(h.node)) and not m.inlined.get(f.qualname):
        raise AnchorMissing('scanModules() not reached from SecNode.create_modules')
    if not n:
        ctx.ok(f'{f.qualname}:what a pinata found is processed at every level', f.node, 'no call drops the configurations a pinata found', f)
