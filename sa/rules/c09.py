"""C09 - module classes, instances and configurations are isolated from each other"""
import builtins

from sa.core import rule, prop_info
from sa.lib import *  # noqa: F401,F403
from sa.lib import attr_stores, func_calls, origins, local_assigns, ReachingDefs
from sa.model import AnchorMissing
from sa.typestate import forward
from sa import roles

prop_info(
    'C09',
    'Decided: R1 in the class-creation hooks and in Module.__init__ an object taken from a base class dictionary is '
    'copied (copy/clone/create_from_value) before a mutating method or attribute store is applied to it; R2 every store '
    'into a datatype/argument/result slot in clone/merge takes a copy of the datatype; R3 Module.__init__ creates fresh '
    'per-instance containers and stores a copy of every accessible, and no class-level mutable literal of the framework '
    'is mutated in place through an instance (R3b: a registry that outlives the node may be consulted only behind a test '
    'that the name is registered in the current node); R4 every self.<attr> load in params/properties/modulebase/datatypes '
    'resolves to an attribute defined in the class hierarchy; R5 the run-time datatype replacement of the control '
    'hand-over touches the instance parameter only.',
    not_decided='aliasing inside arbitrary user modules (needs points-to analysis beyond reach).')

OWNERSHIP = {'copy', 'clone', 'create_from_value'}
MUTATORS = {'merge', 'init', 'setProperty', 'finish', 'set_properties', 'set_name', 'set_main_unit', 'update', 'fixExport'}


@rule('C09.R1', min_instances=3)
def copy_before_mutate(ctx):
    """typestate SHARED/OWNED for objects taken from base-class dictionaries"""
    m = ctx.m
    targets = [
        (m.method(roles.HASACC, '__init_subclass__', inherited=False), 'accessibles'),
        (m.method('frappy.properties.HasProperties', '__init_subclass__', inherited=False), 'properties'),
        (m.method(roles.MODULE, '__init__', inherited=False), 'accessibles'),
    ]
    for f, source in targets:
        ctx.analysed(f)
        cfg = CFG(f.node, m, f.module)
        # loop variables bound from <source>.items()/.values()
        shared_vars = {}
        for n in body_walk(f.node):
            it = src(n.iter) if isinstance(n, ast.For) else ''
            if it.startswith('list(') and it.endswith(')'):
                it = it[5:-1]
            if isinstance(n, ast.For) and it not in (f'{source}.items()', f'{source}.values()'):
                # the same collection under another local name (`declared = self.accessibles`)
                itn = n.iter.args[0] if isinstance(n.iter, ast.Call) and dotted(n.iter.func) == 'list' and n.iter.args else n.iter
                if isinstance(itn, ast.Call) and call_attr(itn) in ('items', 'values') and isinstance(itn.func.value, ast.Name) and \
                        src(resolved(itn.func.value, f.node)) == f'self.{source}':
                    it = f'{source}.{call_attr(itn)}()'
            if isinstance(n, ast.For) and it in (f'{source}.items()', f'{source}.values()'):
                tgt = n.target.elts[-1] if isinstance(n.target, ast.Tuple) else n.target
                if isinstance(tgt, ast.Name):
                    shared_vars[tgt.id] = n
        if not shared_vars:
            raise AnchorMissing(f'loop over {source} not found in {f.qualname}')

        def transfer(node, state):
            a = node.ast
            if node.kind == 'for' and isinstance(a, ast.For):
                bound = {x.id for x in ast.walk(a.target) if isinstance(x, ast.Name)}
                for v, loop in shared_vars.items():
                    if loop is a:
                        state[v] = 'SHARED'
                    elif v in bound:
                        state[v] = 'OWNED'    # rebound from another collection (e.g. the per-instance copies)
            if isinstance(a, ast.Assign):
                for t in a.targets:
                    if isinstance(t, ast.Name) and t.id in shared_vars:
                        v = a.value
                        if isinstance(v, ast.Call) and call_attr(v) in OWNERSHIP:
                            state[t.id] = 'OWNED'
                        elif isinstance(v, ast.Call) and isinstance(v.func, ast.Call) and call_attr(v.func) in OWNERSHIP:
                            state[t.id] = 'OWNED'
                        else:
                            state[t.id] = 'SHARED'
            return state

        ins, outs = forward(cfg, {}, transfer, join=lambda a, b: 'SHARED' if 'SHARED' in (a, b) else a)
        nuse = 0
        for node in cfg.stmt_nodes():
            if node.id not in ins or node.kind in ('for', 'with', 'handler') or isinstance(node.ast, (ast.FunctionDef, ast.ClassDef)):
                continue
            for n in walk_local(node.ast):
                mut = None
                if isinstance(n, ast.Call) and isinstance(n.func, ast.Attribute) and isinstance(n.func.value, ast.Name) \
                        and n.func.value.id in shared_vars and n.func.attr in MUTATORS:
                    mut = (n.func.value.id, f'.{n.func.attr}(...)', n)
                if isinstance(n, ast.Attribute) and isinstance(n.ctx, ast.Store) and isinstance(n.value, ast.Name) and n.value.id in shared_vars:
                    mut = (n.value.id, f'.{n.attr} = ...', n)
                if mut is None:
                    continue
                var, what, n = mut
                nuse += 1
                st = ins[node.id].get(var, 'SHARED')
                own_test = any(isinstance(a, ast.If) and '__dict__' in src(a.test) and ' in ' in src(a.test) for a in ancestors(n))
                ctx.check(st == 'OWNED' or own_test, f'{f.qualname}:mutation {var}{what}', n,
                          'the object is a fresh copy here' if st == 'OWNED' else 'guarded by an own-ness test',
                          f'`{src(n)}` mutates `{var}`, which at this point is still the object found in a base class (from '
                          f'`{source}`, no copy()/clone() on this path): defining class D(Mixin, Base2) after C(Mixin, Base1) changes '
                          'the limits/description of C.x and of every later instance of C', f)
        if nuse == 0:
            ctx.ok(f'{f.qualname}:no mutation of inherited objects', f.node, 'no mutating use of objects taken from the base class', f)


@rule('C09.R2', min_instances=3)
def datatype_escape(ctx):
    """clone / merge store a copy of the datatype"""
    m = ctx.m
    n = 0
    for cname in (roles.PARAMETER, roles.COMMAND):
        ci = m.cls(cname)
        for meth in ('clone', 'merge', 'create_from_value'):
            f = ci.methods.get(meth)
            if f is None:
                continue
            for t, v, s in attr_stores(f.node):
                if t.attr in ('datatype', 'argument', 'result') and v is not None:
                    n += 1
                    ctx.analysed(f)
                    fresh = isinstance(v, ast.Call) and (call_attr(v) == 'copy' or (dotted(v.func) or '').endswith('Type') or dotted(v.func) in ('TupleOf', 'ArrayOf', 'StructOf'))
                    if not fresh and isinstance(v, ast.Name):
                        # `datatype = datatype.copy()` + `self.datatype = datatype`: every definition of the name that reaches the store is a copy
                        rd_ = ReachingDefs(CFG(f.node, m, f.module), f.node)
                        oo = rd_.origins_at(s, v)
                        fresh = bool(oo) and all(isinstance(o, ast.Call) and call_attr(o) == 'copy' for o in oo)
                    for a in ancestors(s):
                        if isinstance(a, ast.If) and isinstance(a.test, ast.BoolOp) and isinstance(a.test.op, ast.And):
                            extra = [src(x) for x in a.test.values if src(x) not in ("'datatype' in self.propertyValues", 'self.hasDatatype()', 'datatype is not None')]
                            ctx.check(not extra, f'{f.qualname}:copy of {t.attr} is unconditional', a,
                                      'the copy depends only on the presence of the datatype',
                                      f'the datatype is copied only when `{" and ".join(extra)}`: otherwise class and instances (or base and subclass) '
                                      'share one datatype object - main-unit substitution or a property change on one instance changes the others', f)
                    ctx.check(fresh, f'{f.qualname}:store {src(t)}', s, 'a copy / fresh datatype is stored',
                              f'`{src(s)}` stores a datatype object that belongs to another accessible: base class and subclass (or class and '
                              'instance) share one datatype - a configured limit or unit of one instance changes the others', f)
    if n < 3:
        raise AnchorMissing('datatype stores in clone/merge not found')
    lim = m.method('frappy.params.Limit', 'set_datatype', inherited=False)
    for t, v, s in attr_stores(lim.node):
        if t.attr == 'datatype' and isinstance(v, ast.Name):
            ctx.info(f'{lim.qualname}:store {src(t)}', s, 'a <p>_min/<p>_max limit parameter shares the datatype object of its base '
                     'parameter (same instance, not across instances)', lim)


# methods that change their object without changing what it means (confirmed by reading), one reason each
_NORMALISING = {
    'fixExport': "replaces export=True by the wire name it stands for ('_' + name or the predefined name): idempotent, the description is the same",
}


def _mutates_self(m, ci, f, depth=3, _seen=None):
    """[statement] by which method f changes its own object or an object reached from it (`self.x = ..`, `self.x.y = ..`,
    through a local alias `d = self.x; d.y = ..`, a mutating container call on such an object, or a method of the same
    object that does)"""
    _seen = _seen or set()
    if f.qualname in _seen:
        return []
    _seen = _seen | {f.qualname}
    alias = {'self'}
    for n in body_walk(f.node):
        if isinstance(n, ast.Assign) and len(n.targets) == 1 and isinstance(n.targets[0], ast.Name) and dotted(n.value) and dotted(n.value).split('.')[0] in alias \
                and dotted(n.value) != 'self':
            alias.add(n.targets[0].id)
    hits = []
    for t, v, st in attr_stores(f.node):
        base = dotted(t.value)
        if base and base.split('.')[0] in alias:
            hits.append(st)
    for n in body_walk(f.node):
        if isinstance(n, (ast.Assign, ast.AugAssign, ast.Delete)):
            for t in (n.targets if not isinstance(n, ast.AugAssign) else [n.target]):
                if isinstance(t, ast.Subscript) and dotted(t.value) and dotted(t.value).split('.')[0] in alias and dotted(t.value) != 'self':
                    hits.append(n)
    for c in calls_in(f.node):
        if isinstance(c.func, ast.Attribute):
            recv = dotted(c.func.value)
            if recv and recv.split('.')[0] in alias and recv != 'self' and c.func.attr in ('append', 'add', 'update', 'pop', 'remove', 'clear', 'setdefault', 'extend',
                                                                                             'discard', 'insert', 'popitem', 'setProperty'):
                hits.append(c)
            if recv == 'self' and depth > 0 and c.func.attr not in _NORMALISING:
                g = None
                for q in m.mro(ci.qualname):
                    c2 = m.classes.get(q)
                    if c2 and c.func.attr in c2.methods:
                        g = c2.methods[c.func.attr]
                        break
                if g is not None and g is not f and _mutates_self(m, ci, g, depth - 1, _seen):
                    hits.append(c)
    return hits


@rule('C09.R2h', min_instances=2)
def deriving_from_an_inherited_accessible_leaves_it_alone(ctx):
    """create_from_value / clone / copy of Parameter and Command run on the BASE class's accessible when a subclass overrides
    it (by a value, by a plain method): they build a new object and must not change the one they were called on, nor objects
    reached from it (its argument / datatype) - neither directly nor through a method of the same object.  Effects belong
    to the clone (`res._helper(..)`), not to `self`"""
    m = ctx.m
    n = 0
    for cname in (roles.PARAMETER, roles.COMMAND):
        ci = m.cls(cname)
        for meth in ('create_from_value', 'clone', 'copy'):
            f = None
            for q in m.mro(ci.qualname):
                c2 = m.classes.get(q)
                if c2 and meth in c2.methods:
                    f = c2.methods[meth]
                    break
            if f is None:
                continue
            n += 1
            ctx.analysed(f)
            hits = _mutates_self(m, ci, f)
            key = f'{ci.qualname}.{meth}:the accessible it is called on is not changed'
            if hits:
                ctx.bad(key, hits[0], f'`{src(hits[0]).splitlines()[0]}` changes the accessible {meth}() was called on (or an object it holds): when a subclass '
                        'overrides an inherited accessible this is the BASE class\'s object - base class, sibling classes and instances created later are '
                        'described and behave differently from then on', f)
            else:
                ctx.ok(key, f.node, 'no store / mutating call on self or on an object reached from self', f)
    if n < 2:
        raise AnchorMissing('create_from_value / clone of Parameter and Command not found')


FRESH_CONTAINERS = ('accessibles', 'parameters', 'commands', 'paramCallbacks', 'writeDict', 'attachedModules', 'errors',
                    'accessiblename2attr', 'polledModules')
# class-level registries that may be filled through instances: symbol -> reason (DESIGN A.8)
REGISTRY_EXCEPTIONS = {
    'frappy.rwhandler.Handler.method_names': 'transient class-creation registry, entries are removed in __set_name__',
    'frappy_psi.sea.SeaClient.default_json_file': 'driver package: name -> description file registry read by sibling classes of the same node (thorough tier)',
}


def _mutable_literal(expr):
    if isinstance(expr, (ast.Dict, ast.List, ast.Set)):
        return True
    return isinstance(expr, ast.Call) and dotted(expr.func) in ('dict', 'list', 'set', 'OrderedDict', 'defaultdict') and not expr.args


@rule('C09.R3', min_instances=10)
def per_instance_state(ctx):
    """fresh containers per instance; no in-place mutation of class-level mutables through self"""
    m = ctx.m
    init = m.method(roles.MODULE, '__init__', inherited=False)
    ctx.analysed(init)
    stored = {t.attr: v for t, v, s in attr_stores(init.node) if dotted(t.value) == 'self'}
    for c in FRESH_CONTAINERS:
        v = stored.get(c)
        ctx.check(v is not None and _mutable_literal(v), f'{init.qualname}:fresh self.{c}', init.node, 'created per instance',
                  f'self.{c} is not created freshly in Module.__init__: instances share (or inherit) the container', init)
    adds = [c for c in calls_in(init.node) if call_attr(c) == '_add_accessible']
    cfg = CFG(init.node, m, init.module)
    rd = ReachingDefs(cfg, init.node)
    for c in adds:
        o = rd.origins_at(c, c.args[1]) if len(c.args) > 1 else []
        ok = bool(o) and all(isinstance(x, ast.Call) and call_attr(x) in OWNERSHIP for x in o)
        ctx.check(ok, f'{init.qualname}:instance gets copies of the accessibles', c, 'aobj = aobj.copy() before _add_accessible',
                  'the class-level Parameter/Command object itself is stored in the instance: value cache and configuration of one '
                  'instance are shared with all others', init)
    # class-level mutable literals mutated through self
    INPLACE = {'append', 'add', 'update', 'setdefault', 'pop', 'extend', 'clear', 'remove', 'insert', 'popitem', 'discard'}
    for q, ci in sorted(m.classes.items()):
        if not ci.module.name.startswith('frappy') or ci.module.name.startswith('frappy.gui') or \
                ci.module.name in ('frappy.protocol.router', 'frappy.client.interactive', 'frappy.playground'):   # stale / interactive tools (A.8)
            continue
        for attr, expr in ci.assigns.items():
            if not _mutable_literal(expr):
                continue
            sym = f'{q}.{attr}'
            users = [q] + m.subclasses(q)
            muts = []
            reassigned = False
            for u in users:
                uc = m.classes.get(u)
                if not uc:
                    continue
                for fi in uc.methods.values():
                    for t, v, s in attr_stores(fi.node):
                        if t.attr == attr and dotted(t.value) == 'self':
                            reassigned = True
                    for n in body_walk(fi.node):
                        if isinstance(n, ast.Call) and isinstance(n.func, ast.Attribute) and n.func.attr in INPLACE and \
                                src(n.func.value) in (f'self.{attr}', f'cls.{attr}'):
                            muts.append((fi, n))
                        if isinstance(n, ast.Subscript) and isinstance(n.ctx, (ast.Store, ast.Del)) and src(n.value) == f'self.{attr}':
                            muts.append((fi, n))
            if not muts:
                continue
            fi, n = muts[0]
            ctx.analysed(fi)
            if sym in REGISTRY_EXCEPTIONS:
                ctx.ok(f'{sym}:class-level mutable', n, f'named exception: {REGISTRY_EXCEPTIONS[sym]}', fi)
                continue
            if not ci.module.name.startswith('frappy.'):
                ctx.info(f'{sym}:class-level mutable', n, 'class-level mutable in a driver package filled through an instance (un-triaged: info only)', fi)
                continue
            if reassigned and all(_assigned_before(m, f2, attr, n2) for f2, n2 in muts):
                ctx.ok(f'{sym}:class-level mutable', n, 'a per-instance object is assigned before it is mutated', fi)
                continue
            # R3b: registry outliving the node, consulted only behind a current-node test
            ok3b = _registry_revalidated(m, users, attr)
            ctx.check(ok3b, f'{sym}:class-level mutable', n,
                      'registry outlives the node, but a name read from it is reused only after a test that it is registered in the current node',
                      f'`{src(n)}` fills the class-level `{attr} = {src(expr)}` through an instance; the entries outlive the node: creating a '
                      'module with the same key on a second node in the same process (this is what Server.run does on restart) reuses a name '
                      'that does not exist there', fi)


def _assigned_before(m, fi, attr, node):
    """in fi a store self.<attr> = ... dominates node, or the mutation is guarded by a falsiness test followed by assignment"""
    cfg = CFG(fi.node, m, fi.module)
    st = [i for t, v, s in attr_stores(fi.node) if t.attr == attr and dotted(t.value) == 'self' for i in cfg.node_of(s)]
    if st and all(cfg.dominates(st, i) or _guarded_init(fi, attr, node) for i in cfg.node_of(node)):
        return True
    return _guarded_init(fi, attr, node)


def _guarded_init(fi, attr, node):
    """`if not self.X: self.X = {}` precedes the mutation in the same function"""
    for n in body_walk(fi.node):
        if isinstance(n, ast.If) and src(n.test) in (f'not self.{attr}', f'self.{attr} is None') and \
                any(t.attr == attr for st in n.body for t, v, s in attr_stores(ast.Module(body=[st], type_ignores=[]), whole_tree=True)):
            if (n.lineno, n.col_offset) < (node.lineno, node.col_offset):
                return True
    return False


def _registry_revalidated(m, users, attr):
    found = False
    for u in users:
        uc = m.classes.get(u)
        if not uc:
            continue
        for fi in uc.methods.values():
            for n in body_walk(fi.node):
                if isinstance(n, ast.Assign) and isinstance(n.value, ast.Call) and call_attr(n.value) == 'get' and src(n.value.func.value) == f'self.{attr}' \
                        and isinstance(n.targets[0], ast.Name):
                    found = True
                    name = n.targets[0].id
                    # some test mentions `name` together with the node's module table
                    ok = any(isinstance(t, ast.If) and name in src(t.test) and 'secnode.modules' in src(t.test) for t in body_walk(fi.node))
                    if not ok:
                        return False
    return found


@rule('C09.R4', min_instances=100)
def no_member(ctx):
    """self.<attr> loads resolve in the class hierarchy"""
    m = ctx.m
    mods = ('frappy.params', 'frappy.properties', 'frappy.modulebase', 'frappy.datatypes')
    obj_attrs = set(dir(object)) | {'__dict__', '__class__', '__name__', '__qualname__', '__module__', '__mro__', '__bases__', '__doc__'}
    for q, ci in sorted(m.classes.items()):
        if ci.module.name not in mods:
            continue
        mro = m.mro(q)
        if any(b not in m.classes and not b.startswith('builtins.') and b != 'builtins.object' and b not in ('object', 'dict') for b in mro):
            continue   # external base class: attributes unknown
        defined = set(obj_attrs)
        for u in [q] + m.subclasses(q):
            defined |= m.all_class_attrs(u)
        has_getattr = any('__getattr__' in m.classes[b].methods for b in mro if b in m.classes)
        if any(b in ('builtins.dict', 'dict') for b in mro):
            defined |= set(dir(dict))
        funcs = list(ci.methods.values())
        # nested closures of the class' methods whose first parameter is `self`
        for fi in list(funcs):
            stack = [x for lst in fi.nested.values() for x in lst]
            while stack:
                g = stack.pop()
                if g.node.args.args and g.node.args.args[0].arg == 'self':
                    funcs.append(g)
                stack.extend(x for lst in g.nested.values() for x in lst)
        for fi in funcs:
            for n in body_walk(fi.node, into_lambda=False):
                if isinstance(n, ast.Attribute) and isinstance(n.ctx, ast.Load) and isinstance(n.value, ast.Name) and n.value.id == 'self':
                    a = n.attr
                    if a.startswith('__') and a.endswith('__'):
                        continue
                    name = a if not (a.startswith('__') and not a.endswith('__')) else a   # private names are spelled as in the source
                    construct = f'{fi.qualname}:self.{a}'
                    if name in defined or has_getattr:
                        ctx.ok(construct, n, 'defined in the class hierarchy', fi)
                        continue
                    guarded = any(isinstance(x, ast.Call) and dotted(x.func) == 'hasattr' and len(x.args) == 2 and src(x.args[0]) == 'self'
                                  and isinstance(x.args[1], ast.Constant) and x.args[1].value == a for x in ast.walk(fi.node))
                    # read_/write_/check_/update_ methods and parameters are created per driver class
                    dynamic = a.split('_')[0] in ('read', 'write', 'check', 'update', 'do') or a in ('io', 'status', 'value', 'target', 'Status')
                    if guarded or dynamic:
                        ctx.ok(construct, n, 'guarded by hasattr / driver-defined accessor', fi)
                        continue
                    ctx.bad(construct, n, f'`self.{a}` is read in {fi.short} but no class in the hierarchy of {ci.name} (bases and '
                            f'subclasses) defines `{a}`: AttributeError when this path runs', fi)


@rule('C09.R5', min_instances=1)
def runtime_replacement_is_instance_local(ctx):
    """register_input replaces the datatype of the instance parameter only"""
    m = ctx.m
    f = m.method('frappy.mixins.HasControlledBy', 'register_input', inherited=False)
    ctx.analysed(f)
    stores = list(attr_stores(f.node))
    dts = [(t, v, s) for t, v, s in stores if t.attr == 'datatype']
    if not dts:
        raise AnchorMissing('datatype replacement in register_input not found')
    for t, v, s in dts:
        base = [t.value] + (origins(t.value, f.node) if isinstance(t.value, ast.Name) else [])
        ok = any(src(b).startswith('self.parameters[') for b in base)
        ctx.check(ok, f'{f.qualname}:store {src(t)}', s, 'the datatype of the instance copy of the parameter is replaced',
                  f'`{src(t)}` is not the instance parameter: the enum growth changes the class (all instances, later instances)', f)
        fresh = isinstance(v, ast.Call) and dotted(v.func) == 'EnumType'
        ctx.check(fresh, f'{f.qualname}:new datatype object', s, 'a new EnumType is built', 'the existing (possibly shared) datatype is modified in place', f)
    for t, v, s in stores:
        if src(t.value) in ('type(self)', 'self.__class__', 'cls') or (isinstance(t.value, ast.Name) and t.value.id[:1].isupper()):
            ctx.bad(f'{f.qualname}:store {src(t)}', s, 'a class attribute is modified at run time', f)


@rule('C09.R6', min_instances=2)
def inheritance_merge_reads_own_properties_only(ctx):
    """Accessible.updateProperties (what a class contributes to its subclasses) is a function of ownProperties: it must not
    look at propertyValues, which also hold what was merged in from other classes"""
    m = ctx.m
    n = 0
    for cname in (roles.PARAMETER, roles.COMMAND):
        f = m.cls(cname).methods.get('updateProperties')
        if f is None:
            continue
        n += 1
        ctx.analysed(f)
        bad = [x for x in body_walk(f.node) if (isinstance(x, ast.Attribute) and x.attr == 'propertyValues' and dotted(x.value) == 'self') or
               (isinstance(x, ast.Call) and call_attr(x) in ('hasDatatype', 'getProperties', 'as_dict') and dotted(x.func.value) == 'self')]
        ctx.check(not bad, f'{f.qualname}:reads ownProperties only', f.node, 'only self.ownProperties / self.propertyDict are read',
                  f'`{src(bad[0]) if bad else ""}` makes the contribution of this accessible depend on merged (inherited) property values: after a later '
                  'class definition re-merges it, an override like Parameter(min=1) starts to wipe the datatype properties of its bases', f)
    if not n:
        raise AnchorMissing('updateProperties not found')


@rule('C09.R7', min_instances=1)
def kept_configuration_is_not_consumed(ctx):
    """_add_accessible applies the per-parameter configuration dict without changing it: SecNode / Server keep that dict
    (only the outer dict is copied per module) and use it again for a restart, and one Param(...) may be shared by two
    modules - popping keys from it changes what the next module / the restarted node is configured with"""
    m = ctx.m
    f = m.method(roles.MODULE, '_add_accessible', inherited=False)
    ctx.analysed(f)
    params = [a.arg for a in f.node.args.args]
    cfgp = next((p for p in params if p in ('cfg', 'config', 'cfgdict')), None)
    if cfgp is None:
        raise AnchorMissing('configuration parameter of _add_accessible not found')
    MUT = {'pop', 'popitem', 'clear', 'update', 'setdefault', '__setitem__', '__delitem__'}
    bad = [c for c in calls_in(f.node) if call_attr(c) in MUT and isinstance(c.func, ast.Attribute) and dotted(c.func.value) == cfgp]
    bad += [n for n in body_walk(f.node) if isinstance(n, ast.Delete) and any(isinstance(t, ast.Subscript) and dotted(t.value) == cfgp for t in n.targets)]
    bad += [n for n in body_walk(f.node) if isinstance(n, (ast.Assign, ast.AugAssign)) and
            any(isinstance(t, ast.Subscript) and dotted(t.value) == cfgp for t in (n.targets if isinstance(n, ast.Assign) else [n.target]))]
    rebound = any(v is not None and isinstance(v, ast.Call) and dotted(v.func) in ('dict', 'copy.copy', 'copy.deepcopy') for v, st, how in local_assigns(f.node, cfgp)
                  if how == 'assign')
    ctx.check(not bad or rebound, f'{f.qualname}:configuration dict is read only', bad[0] if bad else f.node, f'`{cfgp}` is only read',
              f'`{src(bad[0]) if bad else ""}` changes the configuration dict handed in: it is the dict kept in the node configuration (shallow '
              'copies only), so a restart or a second module using the same Param(...) starts without these entries', f)


@rule('C09.R7b', min_instances=1)
def server_configuration_is_not_consumed(ctx):
    """SecNode.get_module_instance creates a module from srv.module_cfg[<name>] - the dict the Server keeps and uses again for a
    restart.  Whatever consumes entries (`opts.pop('cls')`, the module constructor popping what it has treated) works on a
    private copy: the mutating call - in the method itself or in a helper the dict is handed to - comes after `opts = dict(opts)`"""
    m = ctx.m
    f = m.method('frappy.secnode.SecNode', 'get_module_instance', inherited=False)
    ctx.analysed(f)
    cfg = CFG(f.node, m, f.module)
    rd = ReachingDefs(cfg, f.node)
    MUT = {'pop', 'popitem', 'clear', 'update', 'setdefault'}
    raw = {t.id for n in body_walk(f.node) if isinstance(n, ast.Assign) and 'module_cfg' in src(n.value) and not
           (isinstance(n.value, ast.Call) and dotted(n.value.func) in ('dict', 'copy.copy', 'copy.deepcopy', 'deepcopy')) for t in n.targets if isinstance(t, ast.Name)}
    if not raw:
        raise AnchorMissing('lookup of the module configuration (srv.module_cfg) not found in get_module_instance')

    def is_raw_at(use, name_node):
        oo = rd.origins_at(use, name_node)
        return any('module_cfg' in src(o) and not (isinstance(o, ast.Call) and dotted(o.func) in ('dict', 'copy.copy', 'copy.deepcopy', 'deepcopy')) for o in oo)
    n = 0
    for c in calls_in(f.node):
        # direct mutation
        if call_attr(c) in MUT and isinstance(c.func.value, ast.Name) and c.func.value.id in raw:
            n += 1
            ctx.check(not is_raw_at(c, c.func.value), f'{f.qualname}:the kept configuration is not consumed', c, 'applied to a private copy',
                      f'`{src(c)}` removes an entry from the dict stored in srv.module_cfg itself: the next creation from the same configuration (a restart of the '
                      'server, a retry) finds the entry gone - the module can not be created a second time', f)
        # handed to a helper method / a constructor that consumes entries
        for a in c.args:
            if isinstance(a, ast.Name) and a.id in raw and is_raw_at(c, a):
                consumes = True
                if isinstance(c.func, ast.Attribute) and dotted(c.func.value) == 'self' and m.has_method('frappy.secnode.SecNode', c.func.attr):
                    h = m.method('frappy.secnode.SecNode', c.func.attr)
                    idx = c.args.index(a) + 1
                    prm = h.node.args.args[idx].arg if len(h.node.args.args) > idx else None
                    consumes = any(call_attr(x) in MUT and isinstance(x.func.value, ast.Name) and x.func.value.id == prm for x in calls_in(h.node))
                elif call_attr(c) in ('get', 'debug', 'info', 'error', 'warning') or dotted(c.func) in ('dict', 'len', 'repr', 'str', 'list', 'sorted'):
                    consumes = False
                n += 1
                ctx.check(not consumes, f'{f.qualname}:the kept configuration is not consumed', c, 'helpers get a private copy',
                          f'`{src(c)}` hands the dict stored in srv.module_cfg itself to code that removes entries from it (`cls`, the properties a module has '
                          'treated): a second creation from the same configuration fails', f)
    if not n:
        ctx.ok(f'{f.qualname}:the kept configuration is not consumed', f.node, 'only a copy (dict(opts)) is consumed', f)


@rule('C09.R2b', min_instances=8)
def container_copies_copy_their_members(ctx):
    """shared with C03.R2: Parameter.clone gives every instance a copy() of the class-level datatype; for arrays, tuples and
    structs that copy has to reach the member datatypes too, whatever properties they have - set_main_unit and setProperty
    on one instance's member would otherwise change the other instances and the class"""
    from sa.rules import c03
    c03.copy_without_sharing(ctx)


@rule('C09.R2c', min_instances=1)
def inherited_properties_are_applied_to_a_private_datatype(ctx):
    """Parameter.clone(properties): `properties` are the merged properties of the class chain; its 'datatype' entry is the
    datatype OBJECT of the class that declared it, and the entries after it (min, max, unit ...) are applied to whatever
    datatype the new accessible holds at that moment - so the datatype has to be replaced by a copy BEFORE init(properties)
    runs (a copy taken afterwards is too late: the declaring class already has the subclass's limits)"""
    m = ctx.m
    f = m.method(roles.PARAMETER, 'clone', inherited=False)
    ctx.analysed(f)
    cfg = CFG(f.node, m, f.module)
    p = f.node.args.args[1].arg
    inits = [c for c in calls_in(f.node) if call_attr(c) == 'init' and c.args and isinstance(c.args[0], ast.Name) and c.args[0].id == p]
    if not inits:
        raise AnchorMissing('init(properties) not found in Parameter.clone')
    # R: the parameter name is re-bound to a dict carrying a copied datatype;  alternatively the datatype is taken out (pop)
    rebinds = []
    for v, st, how in local_assigns(f.node, p):
        if how == 'assign' and isinstance(v, ast.Call) and dotted(v.func) == 'dict':
            kw = next((k.value for k in v.keywords if k.arg == 'datatype'), None)
            if isinstance(kw, ast.Call) and call_attr(kw) == 'copy':
                rebinds.append(st)
    pops = [c for c in calls_in(f.node) if call_attr(c) == 'pop' and dotted(c.func.value) == p and c.args and isinstance(c.args[0], ast.Constant)
            and c.args[0].value == 'datatype']
    R = [i for st in rebinds for i in cfg.node_of(st)] + [i for c in pops for i in cfg.node_of(c)]
    # G: tests whether there is a datatype at all
    def rs(t):      # the test with its once-bound locals spelled out (`dt = properties.get('datatype'); if dt is None`)
        return src(resolved(t.ast, f.node)) if isinstance(t.ast, ast.expr) else src(t.ast)
    G = [t.id for t in cfg.nodes if t.kind == 'test' and ('datatype' in rs(t)) and ('None' in rs(t) or ' in ' in rs(t))]
    for c in inits:
        ids = cfg.node_of(c)
        unguarded = set(ids) & cfg.reach([cfg.entry], avoid=set(R) | set(G))
        covered = bool(R) and not unguarded
        if covered and G:
            for g in G:
                tsucc = [b for b, lab in cfg.succ[g] if lab == 'T']
                fsucc = [b for b, lab in cfg.succ[g] if lab == 'F']
                neg = ' is None' in rs(cfg.nodes[g]) or 'not in' in rs(cfg.nodes[g])
                has_side = fsucc if neg else tsucc
                covered = covered and all(x in R or not (set(ids) & (cfg.reach([x], avoid=set(R)) | {x})) for x in has_side)
        ctx.check(covered, f'{f.qualname}:properties applied to a private datatype', c,
                  'the datatype entry is replaced by a copy before init(properties)',
                  f'`{src(c)}` applies the merged properties while the new accessible still refers to the datatype object of the declaring class: '
                  'the datatype properties that follow (e.g. max=5 of an intermediate class) are set on THAT object - defining `class C(B): p = 3` '
                  'changes the limits that every later subclass of the base class inherits', f)


@rule('C09.R2d', min_instances=1)
def clones_own_their_datatypes(ctx):
    """presence: Parameter.clone stores a copy of the datatype, Command.clone a copy of the argument and of the result type (an
    instance created from the class, or a subclass override, must not hold the class's datatype objects - setProperty /
    set_main_unit on one would change the others)"""
    m = ctx.m
    for cname, attrs in ((roles.PARAMETER, ('datatype',)), (roles.COMMAND, ('argument', 'result'))):
        f = m.method(cname, 'clone', inherited=False)
        ctx.analysed(f)
        for a in attrs:
            copies = [s for t, v, s in attr_stores(f.node) if t.attr == a and isinstance(v, ast.Call) and call_attr(v) == 'copy']
            copies += [n for n in body_walk(f.node) if isinstance(n, ast.Assign) and isinstance(n.value, ast.Call) and dotted(n.value.func) == 'dict'
                       and any(k.arg == a and isinstance(k.value, ast.Call) and call_attr(k.value) == 'copy' for k in n.value.keywords)]
            if not copies:
                # another scheme: the property dicts are rewritten with copies under the keys 'argument' / 'result' before they are
                # applied (a nested helper / a comprehension): a copy is made, whether it is the one that stays is not decided
                txt = [x for x in ast.walk(f.node) if isinstance(x, ast.Constant) and x.value == a]
                cps = [x for x in ast.walk(f.node) if isinstance(x, ast.Call) and call_attr(x) == 'copy']
                if txt and cps:
                    ctx.undecided(f'{f.qualname}:{a} is copied', f.node, f"copies are made for the key '{a}' before the properties are applied", f)
                    continue
            ctx.check(bool(copies), f'{f.qualname}:{a} is copied', f.node, f'a .copy() of the {a} is stored in the clone',
                      f'{f.qualname} never stores a copy of `{a}`: the clone (every module instance, every subclass override) shares the '
                      f'{a} datatype object with the class it was cloned from', f)


def _foreign_keys_fact(a, tv):
    """the test established that the keyword dict holds a key that is no property of the accessible (= a datatype property)"""
    t = src(a)
    if 'propertyDict' not in t:
        return False
    if isinstance(a, ast.Call) and dotted(a.func) in ('any', 'all') and a.args and isinstance(a.args[0], (ast.GeneratorExp, ast.ListComp)):
        ops = compare_ops(a.args[0].elt)
        if len(ops) == 1 and ops[0][2].endswith('propertyDict'):
            if dotted(a.func) == 'any' and ops[0][1] == 'notin':
                return tv
            if dotted(a.func) == 'all' and ops[0][1] == 'in':
                return not tv
        return False
    if isinstance(a, ast.BinOp) and isinstance(a.op, ast.Sub) and 'propertyDict' in src(a.right):
        return tv
    if isinstance(a, ast.Compare) and len(a.ops) == 1 and isinstance(a.ops[0], ast.LtE) and 'propertyDict' in src(a.comparators[0]):
        return not tv
    return False


@rule('C09.R2f', min_instances=1)
def given_datatype_object_is_not_modified(ctx):
    """Parameter(descr, <datatype object>, min=.., max=.., unit=..): keywords that are no Parameter properties are datatype
    properties and are applied by init() to self.datatype - which must then be a private copy, not the object the caller
    handed in (a module-level singleton such as UInt16, or one object used for two parameters)"""
    m = ctx.m
    f = m.method(roles.PARAMETER, '__init__', inherited=False)
    ctx.analysed(f)
    cfg = CFG(f.node, m, f.module)
    rd = ReachingDefs(cfg, f.node)
    names = [a.arg for a in f.node.args.args]
    if 'datatype' not in names:
        raise AnchorMissing('Parameter.__init__ has no datatype parameter')
    kw = f.node.args.kwarg.arg if f.node.args.kwarg else None
    stores = [(t, v, st) for t, v, st in attr_stores(f.node) if t.attr == 'datatype' and dotted(t.value) == 'self' and v is not None]
    inits = [c for c in calls_in(f.node) if call_attr(c) == 'init' and dotted(c.func.value) == 'self' and c.args and kw and kw in names_in(c.args[0])]
    if not stores or not inits:
        raise AnchorMissing('self.datatype = ... / self.init(kwds) not found in Parameter.__init__')
    # a local holding the keywords that are no parameter properties (`dtkeys = self._datatype_keys(kwds)` /
    # `[k for k in kwds if k not in self.propertyDict]`): its truth is the same fact
    dtk = set()
    for x in body_walk(f.node):
        if isinstance(x, ast.Assign) and len(x.targets) == 1 and isinstance(x.targets[0], ast.Name):
            val = x.value
            if isinstance(val, ast.Call) and isinstance(val.func, ast.Attribute) and dotted(val.func.value) == 'self' and m.has_method(roles.PARAMETER, val.func.attr):
                h = m.method(roles.PARAMETER, val.func.attr)
                rr = [r.value for r in body_walk(h.node) if isinstance(r, ast.Return) and r.value is not None]
                val = rr[0] if len(rr) == 1 else None
            if isinstance(val, (ast.ListComp, ast.SetComp, ast.GeneratorExp)) and any(
                    isinstance(c, ast.Compare) and len(c.ops) == 1 and isinstance(c.ops[0], ast.NotIn) and 'propertyDict' in src(c.comparators[0])
                    for g in val.generators for c in g.ifs) and isinstance(val, (ast.ListComp, ast.SetComp)):
                dtk.add(x.targets[0].id)
    base_fact = globals()['_foreign_keys_fact']

    def _foreign_keys_fact(a, tv):      # noqa: F811  (extends the module level fact inside this rule)
        return base_fact(a, tv) or (isinstance(a, ast.Name) and a.id in dtk and tv)
    foreign = sides_with_fact(cfg, _foreign_keys_fact)
    for t, v, st in stores:
        oo = rd.origins_at(st, v)
        raw = [o for o in oo if isinstance(o, ast.Name) and o.id.startswith('<param')]
        if not raw:
            ctx.ok(f'{f.qualname}:datatype properties are applied to a private datatype', st, f'`{src(st)}`: never the object that was handed in', f)
            continue
        # the raw object may be stored - but not when datatype properties are among the keywords: on that side the name
        # has to be re-bound to a copy before the store
        copies = [d for val, d, how in rd.at(st, v.id) if how == 'assign' and isinstance(val, ast.Call) and call_attr(val) == 'copy'] if isinstance(v, ast.Name) else []
        guarded = bool(copies) and all(set(cfg.ids(d)) <= foreign for d in copies) and \
            paths_need_fact(cfg, [cfg.entry], cfg.ids(st), lambda a, tv: _foreign_keys_fact(a, not tv), avoid=[i for d in copies for i in cfg.ids(d)])
        ctx.check(guarded, f'{f.qualname}:datatype properties are applied to a private datatype', st,
                  'the given datatype object is replaced by a copy whenever datatype properties are among the keywords',
                  f'`{src(st)}` stores the datatype object the caller handed in, and `{src(inits[0])}` then applies the datatype properties among the '
                  'keywords (min, max, unit ...) to THAT object: `Parameter("x", UInt16, max=10)` changes the module-level UInt16 for every class defined '
                  'later, and one datatype object used for two parameters gives both the limits of the last one', f)


_UNK = object()


def _eval_with(test, env):
    """truth value of a test when the names in env hold the given constants (True / False / None = not determined)"""
    def val(e):
        if isinstance(e, ast.Constant):
            return e.value
        if isinstance(e, ast.Name) and e.id in env:
            return env[e.id]
        return _UNK
    if isinstance(test, ast.UnaryOp) and isinstance(test.op, ast.Not):
        v = _eval_with(test.operand, env)
        return None if v is None else not v
    if isinstance(test, ast.BoolOp):
        vals = [_eval_with(v, env) for v in test.values]
        if isinstance(test.op, ast.And):
            return False if any(v is False for v in vals) else (True if all(v is True for v in vals) else None)
        return True if any(v is True for v in vals) else (False if all(v is False for v in vals) else None)
    if isinstance(test, ast.Compare) and len(test.ops) == 1:
        a, b = val(test.left), val(test.comparators[0])
        if a is _UNK or b is _UNK:
            return None
        op = test.ops[0]
        if isinstance(op, ast.Is):
            return a is b
        if isinstance(op, ast.IsNot):
            return a is not b
        if isinstance(op, ast.Eq):
            return a == b
        if isinstance(op, ast.NotEq):
            return a != b
        return None
    if isinstance(test, ast.Call) and dotted(test.func) == 'isinstance' and len(test.args) == 2:
        a = val(test.args[0])
        return False if a is None else None
    v = val(test)
    return None if v is _UNK else bool(v)


@rule('C09.R2g', min_instances=2)
def copy_keeps_every_declared_property(ctx):
    """copy() / clone() build the new accessible with `type(self)(**kwds)` - the constructor is run WITHOUT arguments and the
    properties are applied afterwards (inherited ones first, then the own ones of the new object).  A Parameter subclass whose
    __init__ forwards a keyword default of its own (`readonly=False`) to Parameter.__init__ on that argument-less path turns the
    default into an OWN property of the copy, which then overrides the value of the original: the module instance (which holds
    copies) is described - and served - with other flags than the class declares"""
    m = ctx.m
    pc = m.cls(roles.PARAMETER)
    props = set()
    for q in m.mro(pc.qualname):
        c = m.classes.get(q)
        if c is not None:
            props |= {a for a, e in c.assigns.items() if isinstance(e, ast.Call) and dotted(e.func) == 'Property'}
    n = 0
    for q in m.subclasses(roles.PARAMETER):
        ci = m.classes[q]
        f = ci.methods.get('__init__')
        if f is None or not ci.module.name.startswith('frappy.') or ci.module.name.startswith('frappy.gui'):
            continue
        a = f.node.args
        params = a.args[1:] + a.kwonlyargs
        defaults = [None] * (len(a.args) - 1 - len(a.defaults)) + list(a.defaults) + list(a.kw_defaults)
        if any(d is None for d in defaults[:len(a.args) - 1]):
            continue        # has a mandatory argument: not constructed by clone()
        env = {prm.arg: (d.value if isinstance(d, ast.Constant) else _UNK) for prm, d in zip(params, defaults) if d is not None}
        n += 1
        ctx.analysed(f)
        cfg = CFG(f.node, m, f.module)
        # path-sensitive walk with every parameter at its default (the call made by clone())
        seen, stack, hits = set(), [(cfg.entry, tuple(sorted((k, id(v) if v is _UNK else repr(v)) for k, v in env.items())), env)], []
        while stack:
            nid, key, e = stack.pop()
            if (nid, key) in seen:
                continue
            seen.add((nid, key))
            node = cfg.nodes[nid]
            e2 = e
            st = node.ast
            if isinstance(st, ast.Assign) and node.kind != 'test':
                e2 = dict(e)
                for t in st.targets:
                    if isinstance(t, ast.Name) and t.id in e2:
                        e2[t.id] = st.value.value if isinstance(st.value, ast.Constant) else _UNK
            if isinstance(st, (ast.Expr, ast.Assign, ast.Return)) and node.kind != 'test':
                for c in calls_in(st):
                    if call_attr(c) == '__init__' and src(c.func.value) == 'super()':
                        for k in c.keywords:
                            if k.arg in props and isinstance(k.value, ast.Name) and e.get(k.value.id, _UNK) not in (_UNK, None):
                                hits.append((c, k.arg, e[k.value.id]))
                if isinstance(st, ast.Assign):
                    for t in st.targets:
                        if isinstance(t, ast.Subscript) and isinstance(t.slice, ast.Constant) and t.slice.value in props and \
                                f.node.args.kwarg and src(t.value) == f.node.args.kwarg.arg and isinstance(st.value, ast.Name) and \
                                e.get(st.value.id, _UNK) not in (_UNK, None):
                            hits.append((st, t.slice.value, e[st.value.id]))
            k2 = tuple(sorted((k, id(v) if v is _UNK else repr(v)) for k, v in e2.items()))
            for b, lab in cfg.succ[nid]:
                if lab == 'exc':
                    continue
                if node.kind == 'test' and lab in ('T', 'F') and isinstance(node.ast, ast.expr):
                    tv = _eval_with(node.ast, e2)
                    if tv is not None and tv != (lab == 'T'):
                        continue
                stack.append((b, k2, e2))
        key = f'{f.qualname}:the argument-less call made by copy() adds no own property'
        if hits:
            c, k, v = hits[0]
            ctx.bad(key, c, f'constructed without arguments (as clone() does), `{src(c)[:90]}` passes {k}={v!r} - the keyword default of this __init__ - on to '
                    f'Parameter.__init__: it becomes an own property of the copy and overrides the inherited value. A `{ci.name}` declared with {k}={not v if isinstance(v, bool) else "..."} '
                    f'is {k}={v!r} on every module instance: the description and the behaviour of the instance differ from the class declaration', f)
        else:
            ctx.ok(key, f.node, 'no keyword default reaches Parameter.__init__ when all arguments are at their defaults', f)
    if n < 2:
        raise AnchorMissing('Parameter subclasses with an own __init__ (StructParam, FloatEnumParam) not found')


@rule('C09.R2e', min_instances=1)
def command_datatype_is_rebuilt_from_the_own_argument_and_result(ctx):
    """Command.finish stores a CommandType built from the CURRENT self.argument / self.result on every path: clone() first
    applies the class-level datatype and then replaces argument and result by private copies - a finish() that keeps the old
    CommandType "because its exported content is equal" leaves the instance holding the class's argument / result objects"""
    m = ctx.m
    f = m.method(roles.COMMAND, 'finish', inherited=False)
    ctx.analysed(f)
    cfg = CFG(f.node, m, f.module)
    stores = [i for t, v, s in attr_stores(f.node) if t.attr == 'datatype' and dotted(t.value) == 'self' for i in cfg.node_of(s)]
    built = any(isinstance(c, ast.Call) and dotted(c.func) == 'CommandType' and 'self.argument' in src(c) and 'self.result' in src(c) for c in calls_in(f.node))
    ok = bool(stores) and built and cfg.all_paths_pass([cfg.entry], [cfg.exit], stores, exc=False)
    ctx.check(ok, f'{f.qualname}:datatype rebuilt on every path', f.node, 'self.datatype = CommandType(self.argument, self.result) unconditionally',
              'finish() can leave self.datatype as it was: after clone() the CommandType still refers to the argument / result objects of the class, so a run-time '
              'change through one instance changes the class, the other instances and every instance created later', f)


@rule('C09.R2i', min_instances=1)
def the_class_creation_registry_is_emptied_before_anything_can_fail(ctx):
    """rwhandler.Handler.method_names is a registry shared by ALL handler objects; it is tolerated as transient because
    __set_name__ removes the entry of its function.  The removal has to come before every `raise` of __set_name__: when the
    refusal of a superfluous method is raised first, the entry stays behind for the life of the process and the next class
    (a corrected re-definition, another module with the same qualified name) is refused as 'duplicate method'"""
    m = ctx.m
    f = m.method('frappy.rwhandler.Handler', '__set_name__', inherited=False)
    ctx.analysed(f)
    cfg = CFG(f.node, m, f.module)
    rem = [c for c in calls_in(f.node) if call_attr(c) in ('discard', 'remove', 'pop') and 'method_names' in src(c.func)]
    if not rem:
        raise AnchorMissing('removal from method_names not found in Handler.__set_name__', violation=f'{f.qualname}:registry entry removed before a refusal')
    rids = [i for c in rem for i in cfg.node_of(c)]
    raises = [r for r in body_walk(f.node) if isinstance(r, ast.Raise)]
    late = [r for r in raises if not all(cfg.dominates(rids, i) for i in cfg.ids(r))]
    ctx.check(not late, f'{f.qualname}:registry entry removed before a refusal', late[0] if late else rem[0],
              f'`{src(rem[0])}` precedes every raise of __set_name__ ({len(raises)})',
              f'`{src(late[0])[:80] if late else ""}` can be raised before `{src(rem[0])}` ran: the entry of this function stays in the registry shared by all '
              'handlers, and a later class defining a method of the same qualified name is refused as duplicate', f)


@rule('C09.R2j', min_instances=1)
def a_proxy_class_is_built_from_copies(ctx):
    """frappy.proxy.proxy_class takes the accessibles of the remote class and puts them on a new class: only COPIES may be changed.
    Decorating with the original Command object (`aobj(cfunc)` - Command.__call__ stores the function on the object and returns it),
    merging into it or storing attributes on it changes the accessible of the proxied class - for an inherited command (stop) that
    is the object of Drivable itself, for every instance created before and after"""
    m = ctx.m
    pc = m.functions.get('frappy.proxy.proxy_class')
    if pc is None:
        raise AnchorMissing('frappy.proxy.proxy_class not found')
    n = 0
    todo, seen = [], set()
    for l in [x for x in ast.walk(pc.node) if isinstance(x, (ast.For, ast.comprehension)) and 'accessibles' in src(x.iter)]:
        names = {t.id for t in ast.walk(l.target) if isinstance(t, ast.Name)}
        # the accessible object is the value of the pair
        if isinstance(l.target, ast.Tuple) and len(l.target.elts) == 2 and isinstance(l.target.elts[1], ast.Name):
            names = {l.target.elts[1].id}
        todo.append((pc, names))
    if not todo:
        raise AnchorMissing('loop over the accessibles of the remote class not found in proxy_class')
    while todo:
        f, names = todo.pop()
        key = (f.qualname, tuple(sorted(names)))
        if key in seen or not names:
            continue
        seen.add(key)
        n += 1
        ctx.analysed(f)
        hits = []
        for x in ast.walk(f.node):
            if isinstance(x, ast.Call):
                if isinstance(x.func, ast.Name) and x.func.id in names:
                    hits.append(x)          # the object itself used as decorator / called
                elif isinstance(x.func, ast.Attribute) and isinstance(x.func.value, ast.Name) and x.func.value.id in names and \
                        x.func.attr in ('merge', 'setProperty', 'init', 'updateProperties', 'finish', 'set_datatype'):
                    hits.append(x)
                elif isinstance(x.func, ast.Name):
                    g = m.functions.get(f'{f.module.name}.{x.func.id}')
                    if g is not None and g.cls is None:
                        pos = [a.arg for a in g.node.args.args]
                        t2 = {pos[i] for i, a in enumerate(x.args) if i < len(pos) and isinstance(a, ast.Name) and a.id in names}
                        if t2:
                            todo.append((g, t2))
            if isinstance(x, ast.Attribute) and isinstance(x.ctx, ast.Store) and isinstance(x.value, ast.Name) and x.value.id in names:
                hits.append(x)
        ctx.check(not hits, f'{f.qualname}:the accessibles of the proxied class are only copied', hits[0] if hits else f.node, f'{sorted(names)}: no call of / store on / merge into the original object',
                  f'`{src(hits[0]) if hits else ""}` changes the accessible object of the proxied class itself (not a copy): after proxy_class() the class it was taken from - and for an '
                  'inherited command its base class and every sibling - behaves differently', f)
