"""C11 - client: every caller gets its own reply or an error, under all interleavings"""
from sa.core import rule, prop_info
from sa.lib import *  # noqa: F401,F403
from sa.lib import attr_stores, func_calls, lock_regions, enclosing_tries, loop_anchor, ReachingDefs
from sa.model import AnchorMissing, kwarg, _unconditional_calls
from sa import roles

C = roles.CLIENT

prop_info(
    'C11',
    'Decided: R1 the pending-request table (active_requests) is reached from the transmit thread, the receive thread '
    'and the caller threads; every check-then-insert and every iteration that can overlap a mutation in another '
    'thread must be inside one common lock region; R2 on disconnect every entry removed from a container that can '
    'hold request entries (txq, pending, active_requests) has its event set; R3 every blocking call on the caller '
    'path has a finite time-out and every thread join of the shutdown path is preceded by the action that releases '
    'that thread; R4 disconnect clears the running flag first, joins both worker threads and only then releases the '
    'waiters, and the receive thread reaches disconnect from a finally; R5 error replies are matched through '
    'REQUEST2REPLY with the error prefix stripped.',
    not_decided='which caller receives which reply under a concrete schedule; promptness in seconds.')


def _thread_entries(m):
    """methods of SecopClient handed to mkthread"""
    ci = m.cls(C)
    res = {}
    for fi in ci.methods.values():
        for c in calls_in(fi.node):
            if call_name(c) in ('mkthread', 'threading.Thread') and c.args and isinstance(c.args[0], ast.Attribute) \
                    and dotted(c.args[0].value) == 'self' and c.args[0].attr in ci.methods:
                res[c.args[0].attr] = ci.methods[c.args[0].attr]
    if len(res) < 2:
        raise AnchorMissing('thread entry points of SecopClient not found')
    return res


def _accesses(fi, field):
    """(kind, node) of every access to self.<field> in the function"""
    out = []
    for n in body_walk(fi.node):
        if isinstance(n, ast.Attribute) and n.attr == field and dotted(n.value) == 'self':
            par = n.parent
            if isinstance(par, ast.Compare) and n in par.comparators and any(isinstance(o, (ast.In, ast.NotIn)) for o in par.ops):
                out.append(('test-in', par))
            elif isinstance(par, ast.Subscript) and isinstance(par.ctx, ast.Store):
                out.append(('insert', par))
            elif isinstance(par, ast.Attribute) and isinstance(par.parent, ast.Call) and par.parent.func is par:
                meth = par.attr
                if meth in ('items', 'values', 'keys') and isinstance(par.parent.parent, (ast.For, ast.comprehension)):
                    out.append(('iterate', par.parent.parent))
                elif meth in ('pop', 'popitem', 'clear'):
                    out.append(('remove', par.parent))
    return out


@rule('C11.R1', min_instances=2)
def check_then_act_atomicity(ctx):
    """active_requests: check-then-insert and iterate-while-mutated need one common lock"""
    m = ctx.m
    entries = _thread_entries(m)
    field = 'active_requests'
    acc = {name: _accesses(fi, field) for name, fi in entries.items()}
    mutators = {name for name, a in acc.items() if any(k in ('insert', 'remove') for k, _ in a)}
    if len(mutators) < 2:
        ctx.undecided(f'{C}:{field} shared between threads', None, f'mutating thread entries: {sorted(mutators)}')
        return
    for name, fi in sorted(entries.items()):
        ctx.analysed(fi)
        kinds = {k for k, _ in acc[name]}
        others = mutators - {name}
        if 'test-in' in kinds and 'insert' in kinds:
            for tnode in [n for k, n in acc[name] if k == 'test-in']:
                owner = next((a for a in ancestors(tnode) if isinstance(a, (ast.If, ast.While, ast.IfExp))), None)
                pure = owner is not None and (owner.test is tnode or (isinstance(owner.test, ast.UnaryOp) and owner.test.operand is tnode))
                ctx.check(pure, f'{fi.qualname}:collision guard covers every key', tnode, f'`{src(owner.test) if owner is not None else src(tnode)}`',
                          f'the guard `{src(owner.test) if owner is not None else src(tnode)}` is more than the membership test: for the keys it lets through '
                          '(e.g. the shared key None of unknown actions) a second request overwrites the pending entry - the first caller never '
                          'gets its reply, the second gets the wrong one', fi)
        if 'test-in' in kinds and 'insert' in kinds and others:
            tests = [n for k, n in acc[name] if k == 'test-in']
            ins = [n for k, n in acc[name] if k == 'insert']
            common = set(lock_regions(tests[0])) & set(lock_regions(ins[0]))
            other_locked = all(set(lock_regions(n)) & common for o in others for k, n in acc[o] if k in ('insert', 'remove'))
            ctx.check(bool(common) and other_locked, f'{fi.qualname}:check-then-insert on {field}', tests[0],
                      f'membership test and insert share lock {sorted(common)}, which the other mutators hold too',
                      f'`{src(tests[0])}` followed by an insert runs without a lock shared with the mutators in {sorted(others)}: '
                      'schedule - the transmit thread finds the key busy, is preempted, the receive thread pops the key and '
                      'drains `pending`, then the transmit thread parks the entry in `pending`: the request stays parked until '
                      'an unrelated reply arrives (or its caller times out)', fi)
        if 'iterate' in kinds and others:
            its = [n for k, n in acc[name] if k == 'iterate']
            common = set(lock_regions(its[0]))
            other_locked = bool(common) and all(set(lock_regions(n)) & common for o in others for k, n in acc[o] if k in ('insert', 'remove'))
            ctx.check(other_locked, f'{fi.qualname}:iteration over {field}', its[0],
                      'iteration and concurrent mutation share a lock',
                      f'`for ... in self.{field}.items()` can overlap an insert from {sorted(others)}: RuntimeError("dictionary changed '
                      'size during iteration") ends the receive thread and with it the connection', fi)


def _request_containers():
    return {'txq': ('get', 'get_nowait'), 'pending': ('get', 'get_nowait'), 'active_requests': ('popitem', 'pop')}


@rule('C11.R2', min_instances=3)
def drain_discipline(ctx):
    """disconnect: every entry taken out of txq / pending / active_requests gets its event set"""
    m = ctx.m
    f = m.method(C, 'disconnect', inherited=False)
    ctx.analysed(f)
    n = 0
    from sa.lib import deep_calls
    for c, owner, site in deep_calls(m, f, lambda c: True):
        if not isinstance(c.func, ast.Attribute):
            continue
        recv = c.func.value
        if not (isinstance(recv, ast.Attribute) and dotted(recv.value) == 'self' and recv.attr in _request_containers()):
            continue
        if c.func.attr not in _request_containers()[recv.attr]:
            continue
        n += 1
        st = enclosing_stmt(c)
        names = set()
        if isinstance(st, ast.Assign):
            names = {x.id for t in st.targets for x in ast.walk(t) if isinstance(x, ast.Name) and x.id != '_'}
        loop = next((a for a in ancestors(c) if isinstance(a, (ast.While, ast.For))), None)
        scope = loop if loop is not None else owner.node
        sets = [x for x in calls_in(scope) if call_attr(x) == 'set' and names & {y.id for y in ast.walk(x.func) if isinstance(y, ast.Name)}]
        ctx.check(bool(names) and bool(sets), f'{f.qualname}:entries drained from {recv.attr} are released', c,
                  'the event of every removed entry is set',
                  f'`{src(st)}` takes request entries out of `{recv.attr}` and drops them: a caller whose request was still '
                  'queued is not woken up - it waits the full 10 s and gets TimeoutError instead of a prompt connection error', f)
        # the peer (rx / tx thread) and the user may run disconnect at the same time: the other one can take the last entry between
        # the emptiness test and this call - taking from the empty container has to be expected here
        import queue
        raises = {'popitem': KeyError, 'pop': KeyError, 'get': queue.Empty, 'get_nowait': queue.Empty}.get(c.func.attr)
        if raises is not None and not (c.func.attr == 'pop' and len(c.args) >= 2):
            from sa.lib import covering_handler
            h = covering_handler(c, [raises], owner.module)
            ctx.check(h is not None, f'{f.qualname}:taking from an emptied {recv.attr} is expected', c,
                      f'`{src(c)}` lies in a try that catches {raises.__name__}',
                      f'`{src(c)}` raises {raises.__name__} when a concurrent disconnect (the rx / tx thread notices the lost connection while the user '
                      'shuts down) emptied the container after the loop test: the exception escapes from disconnect, the remaining containers are not drained '
                      '- shutdown by both sides at once does not complete', f)
    if n < 3:
        closures = [c for lst in f.nested.values() for nf in lst for c in calls_in(nf.node) if isinstance(c.func, ast.Attribute) and isinstance(c.func.value, ast.Attribute)
                    and dotted(c.func.value.value) == 'self' and c.func.value.attr in _request_containers() and c.func.attr in _request_containers()[c.func.value.attr]]
        if closures:
            raise AnchorMissing(f'`{src(closures[0])}`: the request containers are drained through local closures of disconnect - not decided in this form')
        raise AnchorMissing('drains of txq / pending / active_requests not found in disconnect', violation='frappy.client.SecopClient.disconnect:all three request containers are drained')


def _has_timeout(call):
    if kwarg(call, 'timeout') is not None:
        return True
    a = call_attr(call)
    if a == 'wait':
        return len(call.args) >= 1
    if a == 'put':
        return len(call.args) >= 3 or (len(call.args) >= 2 and isinstance(call.args[1], ast.Constant) and call.args[1].value is False)
    if a == 'get':
        return len(call.args) >= 2 or (len(call.args) >= 1 and isinstance(call.args[0], ast.Constant) and call.args[0].value is False) \
            or (kwarg(call, 'block') is not None and isinstance(kwarg(call, 'block'), ast.Constant) and kwarg(call, 'block').value is False)
    if a == 'join':
        return len(call.args) >= 1
    return True


@rule('C11.R3', min_instances=3)
def bounded_waits(ctx):
    """caller path: finite time-outs; shutdown path: joins preceded by the releasing action"""
    m = ctx.m
    for name in ('queue_request', 'get_reply'):
        f = m.method(C, name, inherited=False)
        ctx.analysed(f)
        for c in calls_in(f.node):
            if call_attr(c) in ('wait', 'put', 'get', 'join') and isinstance(c.func, ast.Attribute) and \
                    ('txq' in src(c.func) or 'entry' in src(c.func) or 'pending' in src(c.func)):
                ctx.check(_has_timeout(c), f'{f.qualname}:{src(c.func)} has a time-out', c, 'finite time-out given',
                          f'`{src(c)}` blocks without time-out: a caller can wait forever', f)
    f = m.method(C, 'disconnect', inherited=False)
    ctx.analysed(f)
    cfg = CFG(f.node, m, f.module)
    for c in calls_in(f.node):
        if call_attr(c) == 'join' and isinstance(c.func, ast.Attribute):
            th = src(c.func.value)
            if th == 'self._txthread':
                rel = [i for x in calls_in(f.node) if call_attr(x) == 'put' and 'txq' in src(x.func) and x.args and
                       isinstance(x.args[0], ast.Constant) and x.args[0].value is None for i in cfg.node_of(x)]
                what = 'txq.put(None) (shutdown marker)'
            elif th == 'self._rxthread':
                rel = [i for x in calls_in(f.node) if call_attr(x) == 'shutdown' and 'self.io' in src(x.func) for i in loop_anchor(cfg, x)]
                rel = [i for x in body_walk(f.node) if isinstance(x, ast.If) and src(x.test) == 'self.io' and any(call_attr(y) == 'shutdown' for y in calls_in(x))
                       for i in cfg.ids(x.test)] or rel
                what = 'io.shutdown()'
            else:
                continue
            ok = bool(rel) and all(cfg.dominates(rel, i) for i in cfg.node_of(c))
            ctx.check(ok, f'{f.qualname}:join of {th} preceded by {what}', c, f'{what} dominates the join',
                      f'`{src(c)}` is not preceded by {what} on every path: the join can block forever', f)
    for c in calls_in(f.node):
        if call_attr(c) in ('get',) and 'self.txq' in src(c.func) or call_attr(c) == 'get' and 'self.pending' in src(c.func):
            ctx.check(_has_timeout(c), f'{f.qualname}:{src(c.func)} non-blocking', c, 'non-blocking get',
                      f'`{src(c)}` can block inside disconnect', f)


@rule('C11.R4', min_instances=4)
def shutdown_protocol(ctx):
    """_running cleared first; joins before waiters are released; rx thread reaches disconnect from a finally"""
    m = ctx.m
    f = m.method(C, 'disconnect', inherited=False)
    ctx.analysed(f)
    cfg = CFG(f.node, m, f.module)
    first = next((x for x in f.node.body if not (isinstance(x, ast.Expr) and isinstance(x.value, ast.Constant)) and
                  not isinstance(x, (ast.FunctionDef, ast.ClassDef))), f.node.body[0])      # (docstring and local helper definitions do nothing)
    ok = isinstance(first, ast.Assign) and src(first.targets[0]) == 'self._running' and isinstance(first.value, ast.Constant) and first.value.value is False
    ctx.check(ok, f'{f.qualname}:running flag cleared first', first, 'self._running = False is the first statement',
              'disconnect does not start by clearing the running flag: worker threads keep looping', f)
    from sa.lib import deep_calls
    joins = [i for c in calls_in(f.node) if call_attr(c) == 'join' and src(c.func.value) in ('self._txthread', 'self._rxthread') for i in cfg.node_of(c)]
    drains = [i for c, o, site in deep_calls(m, f, lambda c: call_attr(c) == 'popitem' and 'active_requests' in src(c.func)) for i in cfg.node_of(site)]
    if not joins or not drains:
        indirect = [c for c in calls_in(f.node) if call_attr(c) == 'join' and isinstance(c.func.value, ast.Call) and dotted(c.func.value.func) == 'getattr'] or \
            [c for lst in f.nested.values() for nf in lst for c in calls_in(nf.node) if call_attr(c) == 'popitem' and 'active_requests' in src(c.func)]
        if indirect:
            raise AnchorMissing(f'`{src(indirect[0])}`: the worker threads are joined through a table of attribute names / the containers are drained through local '
                                'closures - the shutdown order is not decided in this form')
        raise AnchorMissing('joins / active_requests drain not found in disconnect', violation='frappy.client.SecopClient.disconnect:joins and drain present')
    ok = not (cfg.reach(drains) & set(joins))
    ctx.check(ok, f'{f.qualname}:waiters released after the workers stopped', f.node, 'no join is reachable after the drain of active_requests',
              'waiters are released before the worker threads were joined: a late reply can be delivered to an entry that was already released', f)
    for th in ('self._txthread', 'self._rxthread'):
        js = [c for c in calls_in(f.node) if call_attr(c) == 'join' and src(c.func.value) == th]
        ok = bool(js) and all(any(isinstance(a, ast.If) and src(a.test) == th for a in ancestors(c)) for c in js)
        ctx.check(ok, f'{f.qualname}:join of {th} guarded', f.node, f'`if {th}:` guards the join (the thread clears it before calling disconnect itself)',
                  f'{th} is joined unconditionally: a worker calling disconnect would join itself', f)
    entries = _thread_entries(m)
    for name, fi in sorted(entries.items()):
        if 'rx' not in name and 'tx' not in name:
            continue
        ctx.analysed(fi)
        calls = [c for c in calls_in(fi.node) if call_attr(c) == 'disconnect' and dotted(c.func.value) == 'self']
        cfgf = CFG(fi.node, m, fi.module)
        ids = [i for c in calls for i in cfgf.node_of(c)]
        if 'rx' in name:
            ok = bool(ids) and cfgf.all_paths_pass([cfgf.entry], [cfgf.exit, cfgf.exit_exc], ids)
            ctx.check(ok, f'{fi.qualname}:reaches disconnect on every exit', fi.node, 'every exit of the receive thread (normal or exceptional) passes self.disconnect(...)',
                      'the receive thread can end without calling disconnect: callers keep waiting for the dead connection', fi)
        else:
            ok = bool(ids) and cfgf.all_paths_pass([cfgf.entry], [cfgf.exit], ids, exc=False)
            ctx.check(ok, f'{fi.qualname}:reaches disconnect on its normal exit', fi.node, 'the normal exit of the transmit thread passes self.disconnect(...)',
                      'the transmit thread can end normally without calling disconnect', fi)
            if not cfgf.all_paths_pass([cfgf.entry], [cfgf.exit_exc], ids):
                ctx.info(f'{fi.qualname}:exceptional exit', fi.node, 'an exception in the transmit thread (e.g. data that json can not encode) '
                         'ends it without disconnect; a lost connection is then noticed by the receive thread, which does disconnect', fi)
        clr = [i for t, v, s in attr_stores(fi.node) if t.attr in ('_rxthread', '_txthread') and isinstance(v, ast.Constant) and v.value is None for i in cfgf.node_of(s)]
        ok = bool(clr) and all(cfgf.dominates(clr, i) for i in ids)
        ctx.check(ok, f'{fi.qualname}:clears its handle before disconnect', fi.node, 'self._xxthread = None dominates the disconnect call',
                  'the worker calls disconnect while its own handle is still set: it would join itself', fi)


@rule('C11.R5', min_instances=1)
def error_matching(ctx):
    """error replies are mapped through REQUEST2REPLY[action[len(ERRORPREFIX):]]"""
    m = ctx.m
    rx = _thread_entries(m)
    fi = next((f for n, f in rx.items() if 'rx' in n), None)
    if fi is None:
        raise AnchorMissing('receive thread not found')
    ctx.analysed(fi)
    from sa.lib import deep_nodes
    # the unit that does the matching: the receive thread itself or a helper method it calls (not expanded in place)
    units = [fi] + [h for site, h in helper_methods_called(m, fi)]
    # ... or a module level function the reply is handed to (a generator of the keys under which the reply may be expected)
    units += [g for c in calls_in(fi.node) if isinstance(c.func, ast.Name) for g in [m.functions.get(f'{fi.module.name}.{c.func.id}')]
              if g is not None and g.cls is None and 'REQUEST2REPLY' in src(g.node, 9000)]
    unit = next((u for u in units if any((isinstance(n, ast.Subscript) and src(n.value) == 'REQUEST2REPLY') or
                                         (isinstance(n, ast.Call) and call_attr(n) == 'get' and src(n.func.value) == 'REQUEST2REPLY')
                                         for n in body_walk(u.node))), None)
    if unit is None:
        ctx.bad(f'{fi.qualname}:error reply matched to its request', fi.node,
                'an error_<action> reply is not mapped back to the pending request through REQUEST2REPLY: the caller times out', fi)
    else:
        ctx.analysed(unit)
        ucfg = CFG(unit.node, m, unit.module)

        def is_error(a, tv):
            return tv and isinstance(a, ast.Call) and call_attr(a) == 'startswith' and a.args and src(a.args[0]) == 'ERRORPREFIX'

        def not_error(a, tv):
            return not tv and isinstance(a, ast.Call) and call_attr(a) == 'startswith' and a.args and src(a.args[0]) == 'ERRORPREFIX'
        err_side = sides_with_fact(ucfg, is_error)
        noerr_side = sides_with_fact(ucfg, not_error)
        maps = [n for n in body_walk(unit.node) if ((isinstance(n, ast.Subscript) and src(n.value) == 'REQUEST2REPLY' and 'len(ERRORPREFIX)' in src(resolved(n.slice, unit.node))) or
                                                     (isinstance(n, ast.Call) and call_attr(n) == 'get' and src(n.func.value) == 'REQUEST2REPLY' and n.args
                                                      and 'len(ERRORPREFIX)' in src(resolved(n.args[0], unit.node))))]

        def sliced_only_for_errors(n):
            # `failed = action[len(ERRORPREFIX):] if action.startswith(ERRORPREFIX) else None`: the slice is the error branch of the expression
            key = resolved(n.slice if isinstance(n, ast.Subscript) else n.args[0], unit.node)
            return isinstance(key, ast.IfExp) and is_error(key.test, True) and 'len(ERRORPREFIX)' in src(key.body) and 'len(ERRORPREFIX)' not in src(key.orelse)
        ok = bool(maps) and all(((st := next((a for a in ancestors(n) if isinstance(a, ast.stmt)), None)) is not None and set(ucfg.ids(st)) <= err_side)
                                or sliced_only_for_errors(n) for n in maps)
        ctx.check(ok, f'{fi.qualname}:error reply matched to its request', unit.node,
                  'REQUEST2REPLY[action[len(ERRORPREFIX):]] under `action.startswith(ERRORPREFIX)`',
                  'an error_<action> reply is not mapped back to the pending request through REQUEST2REPLY: the caller times out', unit)
        # the catch-all key None (the slot of the ONE request with an unknown action) is tried only for a message that can not
        # belong to a known request: a non-error message, or the error of an action that is not in REQUEST2REPLY
        mapped = {t.id for n in body_walk(unit.node) if isinstance(n, ast.Assign) and any(x in maps for x in ast.walk(n.value)) for t in n.targets if isinstance(t, ast.Name)}
        def unknown(a, tv):
            if isinstance(a, ast.Name):
                return not tv and a.id in mapped
            if isinstance(a, ast.Compare) and len(a.ops) == 1 and isinstance(a.left, ast.Name) and a.left.id in mapped \
                    and isinstance(a.comparators[0], ast.Constant) and a.comparators[0].value is None:
                return (tv and isinstance(a.ops[0], ast.Is)) or (not tv and isinstance(a.ops[0], ast.IsNot))
            return False
        unknown_side = sides_with_fact(ucfg, unknown)

        def only_for_unknown(ids):
            # every way to the statement leaves a test on its not-an-error side or on the side where the mapping found nothing
            return bool(ids) and paths_need_fact(ucfg, [ucfg.entry], list(ids), lambda a, tv: not_error(a, tv) or unknown(a, tv))
        nones = []
        for n in body_walk(unit.node):
            if isinstance(n, ast.Expr) and isinstance(n.value, ast.Yield) and isinstance(n.value.value, ast.Constant) and n.value.value.value is None:
                nones.append(n)         # a generator of the keys to try: `yield None` is the catch-all key
            if isinstance(n, ast.Assign) and isinstance(n.value, ast.Constant) and n.value.value is None and any(isinstance(t, ast.Name) and 'key' in t.id for t in n.targets):
                nones.append(n)
            if isinstance(n, ast.Expr) and isinstance(n.value, ast.Call) and call_attr(n.value) in ('append', 'pop') and n.value.args and \
                    isinstance(n.value.args[0], ast.Constant) and n.value.args[0].value is None:
                nones.append(n)
        # ... and it IS tried for the error of an unknown action: with REQUEST2REPLY[...] the KeyError handler does it, with
        # REQUEST2REPLY.get(...) there has to be a None-key fall-back on the side where the lookup found nothing
        # the fall-back as an expression: `yield (expected, ident) if expected else None` / `key = (..) if expected else None`
        expr_fallback = [x for x in body_walk(unit.node) if isinstance(x, ast.IfExp) and isinstance(x.test, ast.Name) and x.test.id in mapped
                         and isinstance(x.orelse, ast.Constant) and x.orelse.value is None]
        for g in [x for x in maps if isinstance(x, ast.Call)]:
            etests = [t.id for t in ucfg.nodes if t.kind == 'test' and not isinstance(t.ast, ast.stmt) and
                      any(is_error(a, tv) or not_error(a, tv) for truth in (True, False) for a, tv in facts_on_side(t.ast, truth))]
            after_error = (set(ucfg.reach(list(err_side), avoid=etests)) | err_side) if err_side else set()
            fallback = [n for n in nones if set(ucfg.ids(n)) and (set(ucfg.ids(n)) <= unknown_side or
                                                                   (only_for_unknown(set(ucfg.ids(n))) and set(ucfg.ids(n)) & after_error))] + expr_fallback
            ctx.check(bool(fallback), f'{fi.qualname}:error of an unknown action reaches the catch-all slot', g, 'None key tried when the action is not in REQUEST2REPLY',
                      f'`{src(g)}` yields None for an action that is not in REQUEST2REPLY, and that None ends up inside the key (`(None, ident)`) instead of the '
                      'catch-all key None: the error reply to a request with an unknown action is never delivered, its caller waits for the time-out', unit)
        for n in nones:
            ids = set(ucfg.ids(n))
            in_keyerror = any(part == 'handler' and any(x in maps for st in t.body for x in ast.walk(st)) for t, part in enclosing_tries(n))
            ok = bool(ids) and (ids <= noerr_side or ids <= unknown_side or in_keyerror or only_for_unknown(ids))
            if not ok and isinstance(n, ast.Assign):
                # a default (`key = None` in front of the error test): harmless when it is overwritten on the error side - every
                # path on which THIS binding reaches a pop leaves the error test on its not-an-error side
                var = n.targets[0].id
                redefs = [i for x in body_walk(unit.node) if isinstance(x, ast.Assign) and x is not n and any(isinstance(t, ast.Name) and t.id == var for t in x.targets)
                          for i in ucfg.ids(x)]
                pops = [i for c in calls_in(unit.node) if call_attr(c) == 'pop' and 'active_requests' in src(c.func) and c.args and src(c.args[0]) == var
                        for i in ucfg.node_of(c)]
                ok = bool(pops) and paths_need_fact(ucfg, list(ids), pops, not_error, avoid=redefs)
            ctx.check(ok, f'{fi.qualname}:catch-all slot only for messages of unknown requests', n, 'None key only for non-error messages / errors of unknown actions',
                      f'`{src(n)}` lets the error reply of a KNOWN action fall through to the catch-all key None: a late `error_change mod:p` (its caller timed out) is '
                      'handed to the caller of a concurrent request with an unknown action, whose own reply then ends as an unhandled message', unit)
    tx = next((f for n, f in rx.items() if 'tx' in n), None)
    ok = any(isinstance(n, ast.Call) and call_attr(n) == 'get' and src(n.func.value) == 'REQUEST2REPLY' for n in body_walk(tx.node))
    ctx.check(ok, f'{tx.qualname}:pending key from REQUEST2REPLY', tx.node, 'key = (REQUEST2REPLY.get(action), ident)',
              'pending requests are not keyed by the expected reply action', tx)


@rule('C11.R6', min_instances=1)
def cleanup_removes_by_identity(ctx):
    """time-out cleanup in the receive thread removes an entry from active_requests only when it IS the timed-out entry
    (the same key may meanwhile belong to a newer request)"""
    m = ctx.m
    rx = next((f for n, f in _thread_entries(m).items() if 'rx' in n), None)
    if rx is None:
        raise AnchorMissing('receive thread not found')
    ctx.analysed(rx)
    loops = [n for n in body_walk(rx.node) if isinstance(n, ast.While) and 'cleanup' in src(n.test)]
    if not loops:
        ctx.undecided(f'{rx.qualname}:cleanup by identity', rx.node, 'no cleanup loop found', rx)
        return
    for l in loops:
        for c in [c for c in calls_in(l) if call_attr(c) in ('pop', 'popitem') and 'active_requests' in src(c.func)] + \
                 [d for d in walk_local(l) if isinstance(d, ast.Delete) and 'active_requests' in src(d)]:
            ok = any(isinstance(a, ast.If) and isinstance(a.test, ast.Compare) and all(isinstance(o, ast.Is) for o in a.test.ops) for a in ancestors(c))
            if not ok and isinstance(c, ast.Call) and c.args and isinstance(c.args[0], ast.Name):
                # the key is searched first: `key = next((k for k, e in list(...items()) if e is entry), MISSING)` - the identity test
                # is the filter of the search over the table, and what is popped is the key that search found
                for v, st, how in local_assigns(rx.node, c.args[0].id):
                    if v is not None and any(isinstance(g, (ast.GeneratorExp, ast.ListComp)) and
                                             any('active_requests' in src(gen.iter) and
                                                 any(isinstance(t, ast.Compare) and len(t.ops) == 1 and isinstance(t.ops[0], ast.Is) for t in gen.ifs) for gen in g.generators)
                                             for g in ast.walk(v)):
                        ok = True
            if not ok and isinstance(c, ast.Call) and c.args and isinstance(c.args[0], ast.Name):
                # `for key in [k for k, prev in snapshot if prev is timed_out][:1]: pop(key)`: the keys come out of an identity filter
                for a in ancestors(c):
                    if isinstance(a, ast.For) and isinstance(a.target, ast.Name) and a.target.id == c.args[0].id and \
                            any(isinstance(g, (ast.GeneratorExp, ast.ListComp)) and
                                any(any(isinstance(t, ast.Compare) and len(t.ops) == 1 and isinstance(t.ops[0], ast.Is) for t in gen.ifs)
                                    and 'active_requests' in src(resolved(gen.iter, rx.node)) for gen in g.generators) for g in ast.walk(a.iter)):
                        ok = True
            ctx.check(ok, f'{rx.qualname}:cleanup by identity', c, 'removal guarded by `prev is entry`',
                      f'`{src(c)}` removes the entry found under the key of the timed-out request without checking that it is that request: a newer '
                      'request with the same action and specifier is dropped and its caller waits for the time-out although the peer answered', rx)


@rule('C11.R7', min_instances=1)
def dequeued_entry_is_never_dropped(ctx):
    """transmit thread: an entry taken from txq either becomes pending / active or the loop is left only because the entry is
    the shutdown marker (None): a dequeued request that is in no container can never be released by disconnect()"""
    m = ctx.m
    tx = next((f for n, f in _thread_entries(m).items() if 'tx' in n), None)
    if tx is None:
        raise AnchorMissing('transmit thread not found')
    ctx.analysed(tx)
    gets = [n for n in body_walk(tx.node) if isinstance(n, ast.Assign) and isinstance(n.value, ast.Call) and call_attr(n.value) == 'get'
            and 'txq' in src(n.value.func) and isinstance(n.targets[0], ast.Name)]
    # `for entry in iter(self.txq.get, None):` (or a small method wrapping txq.get) - the loop statement is the dequeue
    forgets = []
    for n in body_walk(tx.node):
        if isinstance(n, ast.For) and isinstance(n.iter, ast.Call) and dotted(n.iter.func) == 'iter' and len(n.iter.args) == 2 and isinstance(n.target, ast.Name):
            fn = n.iter.args[0]
            direct = 'txq' in src(fn) and src(fn).endswith('.get')
            via = isinstance(fn, ast.Attribute) and dotted(fn.value) == 'self' and m.has_method(C, fn.attr) and \
                any(call_attr(c) == 'get' and 'txq' in src(c.func) for c in calls_in(m.method(C, fn.attr).node))
            if direct or via:
                forgets.append(n)
    if not gets and not forgets:
        raise AnchorMissing('txq.get() in the transmit thread not found')
    for g in gets + forgets:
        var = g.targets[0].id if isinstance(g, ast.Assign) else g.target.id
        loop = g if isinstance(g, ast.For) else next((a for a in ancestors(g) if isinstance(a, ast.While)), None)
        if loop is None:
            ctx.undecided(f'{tx.qualname}:dequeued entry accounted for', g, 'not inside a loop', tx)
            continue
        cfg = CFG(tx.node, m, tx.module)
        keep = {i for n in walk_local(loop) for i in cfg.node_of(n)
                if (isinstance(n, ast.Subscript) and isinstance(n.ctx, ast.Store) and 'active_requests' in src(n.value)) or
                (isinstance(n, ast.Call) and call_attr(n) == 'put' and n.args and src(n.args[0]) == var) or
                (isinstance(n, ast.Call) and call_attr(n) == 'set' and var in src(n.func))}
        leaves = [n for n in walk_local(loop) if isinstance(n, (ast.Break, ast.Return))]
        nleave = 0
        for lv in leaves:
            ids = set(cfg.ids(lv))
            after_get = cfg.reach(cfg.ids(g) if isinstance(g, ast.For) else cfg.node_of(g), avoid=keep)
            if not (ids & after_get):
                continue
            nleave += 1
            guards = [a.test for a in ancestors(lv) if isinstance(a, ast.If) and any(a is x for x in ast.walk(loop))]
            pure = any(src(t) == f'{var} is None' for t in guards)
            ctx.check(pure, f'{tx.qualname}:loop left with a dequeued entry only for the shutdown marker', lv, f'guarded by `{var} is None`',
                      f'the loop can be left under {[src(t) for t in guards]} with a request entry that was taken from txq but is neither active nor pending: '
                      'disconnect() can not find it, its caller is never released', tx)
        if not nleave:
            ctx.ok(f'{tx.qualname}:loop left with a dequeued entry only for the shutdown marker', g, 'the loop is never left between the dequeue and the registration', tx)


@rule('C11.R8', min_instances=1)
def no_stale_queue_alias_across_connect(ctx):
    """connect() replaces self.txq / self.pending by new queues: a request must be put on the queue read AFTER the
    connect-on-demand call, never on a local alias taken before it (the request would land on the abandoned queue: it is
    never transmitted and not even a disconnect releases its caller)"""
    m = ctx.m
    ci = m.cls(C)
    con = m.method(C, 'connect', inherited=False)
    replaced = {t.attr for t, v, s in attr_stores(con.node) if dotted(t.value) == 'self' and isinstance(v, ast.Call) and 'Queue' in src(v.func)}
    if not replaced:
        raise AnchorMissing('connect() does not create the request queues')
    n = 0
    for name, f in sorted(ci.methods.items()):
        conn_calls = [c for c in calls_in(f.node) if call_attr(c) == 'connect' and dotted(c.func.value) == 'self']
        puts = [c for c in calls_in(f.node) if call_attr(c) in ('put', 'put_nowait')]
        if not puts:
            continue
        cfg = None
        for c in puts:
            recv = c.func.value
            if isinstance(recv, ast.Attribute) and dotted(recv.value) == 'self' and recv.attr in replaced:
                n += 1
                ctx.analysed(f)
                ctx.ok(f'{f.qualname}:request put on the current queue', c, f'`{src(recv)}` is read at the put', f)
                continue
            if not isinstance(recv, ast.Name):
                continue
            defs = [(v, st) for v, st, how in local_assigns(f.node, recv.id)
                    if how == 'assign' and isinstance(v, ast.Attribute) and dotted(v.value) == 'self' and v.attr in replaced]
            if not defs:
                continue
            n += 1
            ctx.analysed(f)
            cfg = cfg or CFG(f.node, m, f.module)
            stale = False
            for v, st in defs:
                after_def = cfg.reach(cfg.node_of(st))
                for cc in conn_calls:
                    cids = cfg.node_of(cc)
                    if set(cids) & after_def and set(cfg.node_of(c)) & cfg.reach(cids):
                        stale = True
            ctx.check(not stale, f'{f.qualname}:request put on the current queue', c, 'no connect() between the alias and the put',
                      f'`{src(c)}` uses an alias of self.{defs[0][0].attr} taken before self.connect(): connect() replaces the queues when it '
                      'really (re)connects, so the request is put on the abandoned queue - it is never sent, the caller times out, and it '
                      'is in none of txq / pending / active_requests, so even a disconnect does not release it', f)
    if not n:
        raise AnchorMissing('no put on the request queues found in SecopClient')


def _tp(test):
    """(source of the core, negated?) of a truth / None test; `x is not None` reads as the negation of `x is None`"""
    neg = False
    t = test
    while isinstance(t, ast.UnaryOp) and isinstance(t.op, ast.Not):
        neg = not neg
        t = t.operand
    s = src(t)
    if isinstance(t, ast.Compare) and len(t.ops) == 1 and isinstance(t.ops[0], ast.IsNot) and src(t.comparators[0]) == 'None':
        s, neg = f'{src(t.left)} is None', not neg
    return s, neg


def _side(cfg, t, truth):
    """nodes on the side of test node t where the CORE expression has the given truth value"""
    core, neg = _tp(t.ast)
    label = 'T' if (truth != neg) else 'F'
    return cfg.reach([t.id], labels={label}, avoid=[t.id]), label


@rule('C11.R13', min_instances=8)
def every_request_has_its_reply_key(ctx):
    """the transmit thread registers a caller under (REQUEST2REPLY[action], identifier); an action missing from the table is
    registered under the catch-all key None, where ANY unmatched message (an asynchronous log event, a late reply) is taken for
    its reply.  Every <X>REQUEST constant of frappy.protocol.messages that has a sibling <X>REPLY is therefore a key of
    REQUEST2REPLY and maps to that sibling (IDENTREQUEST is handled apart, as the table's comment says)"""
    from sa.model import UNKNOWN
    m = ctx.m
    msgs = m.modules.get('frappy.protocol.messages')
    if msgs is None:
        raise AnchorMissing('frappy.protocol.messages not found')
    table = m.const_name(msgs, 'REQUEST2REPLY')
    if table is UNKNOWN or not isinstance(table, dict):
        ctx.undecided('frappy.protocol.messages.REQUEST2REPLY', None, 'table can not be folded')
        return
    n = 0
    for name in sorted(msgs.consts):
        if not name.endswith('REQUEST') or name == 'IDENTREQUEST':
            continue
        stem = name[:-len('REQUEST')]
        rname = stem + 'REPLY'
        if rname not in msgs.consts:
            continue
        req, rep = m.const_name(msgs, name), m.const_name(msgs, rname)
        if UNKNOWN in (req, rep):
            continue
        n += 1
        ctx.check(table.get(req) == rep, f'frappy.protocol.messages.REQUEST2REPLY:{name} maps to {rname}', msgs.consts[name], f'{req!r} -> {rep!r}',
                  f'REQUEST2REPLY has {"no entry" if req not in table else "the entry " + repr(table.get(req))} for {name} ({req!r}): the client registers a '
                  f'`{req}` request under the catch-all key None - the next unmatched message from the node (an asynchronous event, a late reply) is handed '
                  'to the caller as its reply and the real reply is dropped as unhandled', None)
    if n < 8:
        raise AnchorMissing(f'only {n} REQUEST/REPLY constant pairs found in frappy.protocol.messages')


@rule('C11.R14', min_instances=4)
def reply_lines_arrive_complete(ctx):
    """shared with C16.R5: the receive thread reads every message with AsynConn.readline - a reader that drops received bytes
    on one of its ways out (a reply arriving in two segments more than the receive time-out apart) or misses a terminator
    turns an answered request into a time-out for its caller"""
    from sa.rules import c16
    c16.framing(ctx)


@rule('C11.R9', min_instances=6)
def caller_path_obligations(ctx):
    """queue_request hands the entry to the transmit queue and returns it; get_reply: the wait is finite, on the timed-out side
    the entry is registered for clean-up and TimeoutError is raised, an entry released without reply raises ConnectionError,
    an error reply raises the rebuilt error, and the reply is returned on every other exit - with the polarity of each test"""
    m = ctx.m
    q = m.method(C, 'queue_request', inherited=False)
    ctx.analysed(q)
    cfgq = CFG(q.node, m, q.module)
    puts = [i for c in calls_in(q.node) if call_attr(c) in ('put', 'put_nowait') for i in cfgq.node_of(c)]
    ctx.check(bool(puts) and cfgq.all_paths_pass([cfgq.entry], [cfgq.exit], puts, exc=False), f'{q.qualname}:entry is queued on every path', q.node,
              'txq.put(entry) lies on every normal path', 'a request can be "made" without being put on the transmit queue: its caller waits for the time-out', q)
    ctx.check(not can_end_without_value(cfgq, q.node), f'{q.qualname}:returns the entry', q.node, 'return entry', 'queue_request can return None: the caller has nothing to wait on', q)
    g = m.method(C, 'get_reply', inherited=False)
    ctx.analysed(g)
    cfg = CFG(g.node, m, g.module)
    e = g.node.args.args[1].arg
    n = 0
    raised_names = {x.exc.id for x in body_walk(g.node) if isinstance(x, ast.Raise) and isinstance(x.exc, ast.Name)}

    def raising(kind):
        # `raise <Kind>(...)`, or `error = <Kind>(...)` where `raise error` ends the method
        return {i for x in body_walk(g.node) if (isinstance(x, ast.Raise) and x.exc is not None and kind in src(x.exc)) or
                (isinstance(x, ast.Assign) and len(x.targets) == 1 and isinstance(x.targets[0], ast.Name) and x.targets[0].id in raised_names
                 and kind in src(x.value)) for i in cfg.ids(x)}
    for t in cfg.nodes:
        if t.kind != 'test':
            continue
        core, neg = _tp(resolved(t.ast, g.node))
        if core.startswith(f'{e}[1].wait('):
            n += 1
            side, label = _side(cfg, t, False)            # wait() returned False: timed out
            cl = {i for c in calls_in(g.node) if call_attr(c) == 'append' and 'cleanup' in src(c.func) for i in cfg.node_of(c)}
            to = raising('TimeoutError')
            ok = bool(cl) and cl <= side and bool(to) and to <= side and side_never_completes(cfg, t.id, label)
            ctx.check(ok, f'{g.qualname}:timed-out wait registers for clean-up and raises TimeoutError', t.ast, 'on the side where wait() is false',
                      f'`{src(t.ast)}`: on the side where the wait timed out the entry is not handed to the clean-up list / no TimeoutError is raised '
                      '(or this happens when the reply DID arrive): a caller waits for ever, or gets a time-out for an answered request', g)
        if core == f'{e}[2]':
            n += 1
            side, label = _side(cfg, t, False)            # no reply stored
            ce = raising('ConnectionError')
            ok = bool(ce) and ce <= side and side_never_completes(cfg, t.id, label)
            ctx.check(ok, f'{g.qualname}:released without reply raises ConnectionError', t.ast, 'on the side where no reply was stored',
                      f'`{src(t.ast)}`: an entry released by disconnect (no reply stored) does not raise ConnectionError on that side', g)
        if core.endswith('.startswith(ERRORPREFIX)'):
            n += 1
            side, label = _side(cfg, t, True)
            ctx.check(side_never_completes(cfg, t.id, label), f'{g.qualname}:error reply raises', t.ast, 'the error side raises the rebuilt error',
                      f'`{src(t.ast)}`: an error reply is returned to the caller as if it were the answer (or a good reply raises)', g)
    ctx.check(not can_end_without_value(cfg, g.node), f'{g.qualname}:returns the reply', g.node, 'every normal exit returns the stored reply',
              'get_reply can return None', g)
    waits = [c for c in calls_in(g.node) if call_attr(c) == 'wait']
    for c in waits:
        ctx.check(bool(c.args or c.keywords), f'{g.qualname}:finite wait', c, f'`{src(c)}`', f'`{src(c)}` waits without time-out', g)
    if n < 3:
        raise AnchorMissing('tests of get_reply (wait / stored reply / error prefix) not found')


@rule('C11.R10', min_instances=4)
def worker_thread_obligations(ctx):
    """transmit thread: a request whose reply key is free becomes the active request of that key AND is sent; one whose key is
    taken is parked - decided on the two sides of `key in self.active_requests`.  receive thread: a reply is matched by
    popping its key; for a matched entry the reply is stored BEFORE the event is set; an unmatched message never reaches the
    set(); after every matched reply the parked requests go back to the transmit queue"""
    m = ctx.m
    entries = _thread_entries(m)
    tx = next((f for n_, f in entries.items() if 'tx' in n_), None)
    rx = next((f for n_, f in entries.items() if 'rx' in n_), None)
    if tx is None or rx is None:
        raise AnchorMissing('transmit / receive thread not found')
    ctx.analysed(tx)
    cfg = CFG(tx.node, m, tx.module)
    sends = {i for c in calls_in(tx.node) if call_attr(c) == 'send' and 'io' in src(c.func) for i in cfg.node_of(c)}
    stores = {i for n_ in body_walk(tx.node) if isinstance(n_, ast.Assign) and any(isinstance(t, ast.Subscript) and src(t.value) == 'self.active_requests' for t in n_.targets)
              for i in cfg.node_of(n_)}
    parks = {i for c in calls_in(tx.node) if call_attr(c) == 'put' and 'pending' in src(c.func) for i in cfg.node_of(c)}
    found = False
    for t in cfg.nodes:
        if t.kind != 'test':
            continue
        for l, op, r in compare_ops(t.ast):
            if r == 'self.active_requests' and op in ('in', 'notin'):
                found = True
                taken = cfg.reach([t.id], labels={'T' if op == 'in' else 'F'}, avoid=[t.id])
                free = cfg.reach([t.id], labels={'F' if op == 'in' else 'T'}, avoid=[t.id])
                ok = bool(sends) and bool(stores) and bool(parks) and sends <= free and stores <= free and parks <= taken and \
                    not ((sends | stores) & taken - free) and not (parks & free - taken)
                ctx.check(ok, f'{tx.qualname}:free key is sent and registered, taken key is parked', t.ast, 'send + active_requests[key] on the free side, pending.put on the other',
                          f'`{src(t.ast)}`: ' + ('nothing is sent' if not sends else 'the request is not registered under its key' if not stores else
                                                 'a request with a taken key is not parked' if not parks else
                                                 'the sides are swapped: a second request with the same key overwrites the active one (its caller never gets a reply) and a '
                                                 'request with a free key is parked for ever'), tx)
    if not found:
        ctx.bad(f'{tx.qualname}:free key is sent and registered, taken key is parked', tx.node, 'no membership test on active_requests in the transmit thread', tx)
    ctx.check(bool(stores) and bool(sends) and all(cfg.dominates(list(stores), i) for i in sends), f'{tx.qualname}:registered before the bytes leave', tx.node,
              'active_requests[key] = entry dominates io.send(line)',
              'the request is sent before it is registered under its reply key: a reply that the receive thread reads in between finds no entry, is reported as '
              'unhandled and dropped - the caller times out and a stale entry parks every later request with that key', tx)
    ctx.analysed(rx)
    cfgr = CFG(rx.node, m, rx.module)
    sets = {i for c in calls_in(rx.node) if call_attr(c) == 'set' and '[1]' in src(c.func) for i in cfgr.node_of(c)}
    stor = {i for n_ in body_walk(rx.node) if isinstance(n_, ast.Assign) and any(isinstance(t, ast.Subscript) and src(t.slice) == '2' for t in n_.targets)
            for i in cfgr.node_of(n_)}
    ctx.check(bool(sets) and bool(stor) and all(cfgr.dominates(list(stor), i) for i in sets), f'{rx.qualname}:reply stored before the event is set', rx.node,
              'entry[2] = ... dominates entry[1].set()',
              'the waiting caller is woken without (or before) its reply being stored: it reads "connection closed before reply"', rx)
    from sa.lib import deep_calls
    pops = {i for c, owner, site in deep_calls(m, rx, lambda c: call_attr(c) == 'pop' and src(c.func.value) == 'self.active_requests') for i in cfgr.node_of(site)}
    ctx.check(bool(pops) and all(cfgr.dominates(list(pops), i) for i in sets), f'{rx.qualname}:the reply key is taken out of active_requests', rx.node,
              'a pop of active_requests lies on every path to the set()', 'a reply is matched without removing its key: every later request with that key is parked for ever', rx)
    for t in cfgr.nodes:
        if t.kind == 'test' and _tp(t.ast)[0] == 'entry is None':
            side, label = _side(cfgr, t, True)
            ctx.check(not (sets & side - _side(cfgr, t, False)[0]) and bool(sets & _side(cfgr, t, False)[0]), f'{rx.qualname}:unmatched message wakes nobody', t.ast,
                      'set() only on the matched side', f'`{src(t.ast)}`: the event of a missing entry is set (AttributeError ends the receive thread) and matched replies are dropped', rx)
    requeue = [c for c in calls_in(rx.node) if call_attr(c) == 'put' and 'txq' in src(c.func) and c.args and 'pending' in src(c.args[0])]
    ctx.check(bool(requeue), f'{rx.qualname}:parked requests are re-queued after a reply', rx.node, 'self.txq.put(self.pending.get())',
              'parked requests are never handed back to the transmit queue: their callers time out', rx)
    for c in requeue:
        t = next((a for a in ancestors(c) if isinstance(a, (ast.While, ast.If))), None)
        if t is not None:
            core, neg = _tp(t.test)
            ctx.check(core == 'self.pending.empty()' and neg, f'{rx.qualname}:re-queue runs while something is parked', t.test, 'while not self.pending.empty()',
                      f'`{src(t.test)}`: the re-queue loop runs only when nothing is parked (and then blocks the receive thread in pending.get())', rx)


@rule('C11.R11', min_instances=2)
def shutdown_flag_and_io_teardown(ctx):
    """disconnect(shutdown): the shutdown event is set exactly on the side where shutdown is requested (waiting callers then
    get 'connection shut down', the reconnect thread stops), `_running` is cleared first, and the connection object is closed
    and forgotten (io.disconnect(); self.io = None) so that no worker can use a half-closed connection"""
    m = ctx.m
    f = m.method(C, 'disconnect', inherited=False)
    ctx.analysed(f)
    cfg = CFG(f.node, m, f.module)
    p = f.node.args.args[1].arg if len(f.node.args.args) > 1 else 'shutdown'
    sets = {i for c in calls_in(f.node) if call_attr(c) == 'set' and '_shutdown' in src(c.func) for i in cfg.node_of(c)}
    tests = [t for t in cfg.nodes if t.kind == 'test' and _tp(t.ast)[0] == p]
    ok = bool(sets) and bool(tests)
    for t in tests:
        on, _ = _side(cfg, t, True)
        off, _ = _side(cfg, t, False)
        ok = ok and sets <= on and not (sets & off - on)
    ctx.check(ok, f'{f.qualname}:shutdown event set iff shutdown is requested', f.node, '_shutdown.set() on the shutdown side',
              'the shutdown event is not set exactly when disconnect(shutdown=True) is called: waiting callers are told "connection closed" and the reconnect '
              'thread keeps reconnecting a client that was shut down (or a dropped connection is never reconnected)', f)
    closes = [c for c in calls_in(f.node) if call_attr(c) == 'disconnect' and src(c.func.value) == 'self.io']
    forget = [s for t, v, s in attr_stores(f.node) if t.attr == 'io' and dotted(t.value) == 'self' and isinstance(v, ast.Constant) and v.value is None]
    ctx.check(bool(closes) and bool(forget), f'{f.qualname}:connection closed and forgotten', f.node, 'self.io.disconnect(); self.io = None',
              'the connection object is not closed / not forgotten on disconnect', f)
    first = next((x for x in f.node.body if not (isinstance(x, ast.Expr) and isinstance(x.value, ast.Constant)) and
                  not isinstance(x, (ast.FunctionDef, ast.ClassDef))), f.node.body[0])
    okr = isinstance(first, ast.Assign) and src(first.targets[0]) == 'self._running' and isinstance(first.value, ast.Constant) and first.value.value is False
    ctx.check(okr, f'{f.qualname}:_running cleared first', first, 'self._running = False is the first statement',
              f'`{src(first)}` precedes the clearing of _running: the workers go on taking requests while the connection is being torn down', f)


@rule('C11.R12', min_instances=3)
def a_new_connection_starts_clean_and_running(ctx):
    """connect(): inside the connect lock and on the not-yet-connected side, the request tables of the previous connection are
    emptied (active_requests.clear(): a key left over from a dropped connection would park every later request with that key
    for ever; cleanup.clear()), and `_running` is set before the worker threads are started (they leave their loops at once
    otherwise: every request times out)"""
    m = ctx.m
    f = m.method(C, 'connect', inherited=False)
    ctx.analysed(f)
    cfg = CFG(f.node, m, f.module)
    for name in ('active_requests', 'cleanup'):
        cl = [c for c in calls_in(f.node) if call_attr(c) == 'clear' and src(c.func.value) == f'self.{name}']
        ctx.check(bool(cl) and all(in_lock(c, '_lock') for c in cl), f'{f.qualname}:{name} emptied for the new connection', f.node, f'self.{name}.clear() inside the connect lock',
                  f'self.{name} is not emptied when a new connection is made: entries of requests that died with the old connection stay - every later request with '
                  'the same action and specifier is parked behind them and times out', f)
    for name in ('txq', 'pending'):
        fresh = [s for t, v, s in attr_stores(f.node) if t.attr == name and dotted(t.value) == 'self' and isinstance(v, ast.Call) and 'Queue' in src(v.func)]
        ctx.check(bool(fresh) and all(in_lock(s, '_lock') for s in fresh), f'{f.qualname}:fresh {name} queue for the new connection', f.node, f'self.{name} = queue.Queue(...)',
                  f'connect() keeps the {name} queue of the previous connection: a shutdown marker (or a request) left in it by a transmit thread that died on a send error '
                  'is the first thing the new transmit thread reads - the fresh connection is torn down at once', f)
    run = [i for t, v, s in attr_stores(f.node) if t.attr == '_running' and isinstance(v, ast.Constant) and v.value is True for i in cfg.node_of(s)]
    threads = [i for c in calls_in(f.node) if call_name(c) == 'mkthread' and c.args and ('rxthread' in src(c.args[0]) or 'txthread' in src(c.args[0])) for i in cfg.node_of(c)]
    ctx.check(bool(run) and bool(threads) and all(cfg.dominates(run, i) for i in threads), f'{f.qualname}:_running set before the workers start', f.node,
              'self._running = True dominates both mkthread calls', 'the worker threads are started while _running is still false: they end at once, no request is ever answered', f)
    for t in cfg.nodes:
        if t.kind == 'test' and _tp(t.ast)[0] == 'self.io':
            side, label = _side(cfg, t, True)
            rets = {i for n_ in body_walk(f.node) if isinstance(n_, ast.Return) for i in cfg.ids(n_)}
            mk = set(threads)
            other, _ = _side(cfg, t, False)
            ctx.check(bool(rets & side) and mk <= other and not (mk & side - other), f'{f.qualname}:an existing connection is kept', t.ast, 'return on the connected side',
                      f'`{src(t.ast)}`: connect() returns without connecting when there is NO connection and tears into a live one otherwise', f)


@rule('C11.R15', min_instances=3)
def one_connect_at_a_time(ctx):
    """SecopClient.connect is entered from several threads (the first requests on a fresh client, a request during an
    automatic reconnect): the test "already connected", the replacement of the queues, the creation of the connection object
    and the start of the worker threads form one region of `self._lock` - outside it two callers both open a connection, four
    workers start, one connection and one transmit thread are left over and disconnect() can hang"""
    m = ctx.m
    f = m.method(C, 'connect', inherited=False)
    ctx.analysed(f)
    from sa.lib import deep_calls, in_lock_deep
    n = 0
    sites = []
    for c, owner, site in deep_calls(m, f, lambda c: call_name(c) in ('mkthread', 'AsynConn') or (isinstance(c.func, ast.Name) and c.func.id in ('mkthread', 'AsynConn'))):
        sites.append((c, owner, site, f'`{src(c)[:50]}`'))
    units = [(f, None)] + [(h, site) for site, h in helper_methods_called(m, f)]
    for g, site in units:
        for t, v, s in attr_stores(g.node):
            if dotted(t.value) == 'self' and t.attr in ('txq', 'pending', 'io') and not (isinstance(v, ast.Constant) and v.value is None):
                sites.append((s, g, site if site is not None else s, f'`{src(s)[:50]}`'))
    for node, owner, site, what in sites:
        n += 1
        ctx.check(in_lock_deep(node, owner, site, '_lock'), f'{f.qualname}:{what} inside the connect lock', node, 'inside `with self._lock`',
                  f'{what} happens outside the `self._lock` region of connect(): two threads connecting at once both pass the "already connected" test and both '
                  'open a connection and start worker threads - one connection and one transmit thread are left over, disconnect() may hang', f)
    if n < 3:
        raise AnchorMissing('creation of the connection / queues / worker threads not found in SecopClient.connect')


@rule('C11.R16', min_instances=1)
def the_reconnect_loop_asks_for_shutdown_before_every_attempt(ctx):
    """the reconnect thread (the thread entry whose loop calls connect()): the condition of that loop evaluates the shutdown
    event (`_shutdown.is_set()` / `_shutdown.wait(..)`) UNCONDITIONALLY in every round - behind `pause and ...` it is skipped
    whenever the pause is 0 (the first attempt), and a client that was shut down meanwhile is connected again: its requests
    are then answered although disconnect() was called, and nobody ever closes that connection"""
    m = ctx.m
    n = 0
    for name, f in sorted(_thread_entries(m).items()):
        loops = [w for w in body_walk(f.node) if isinstance(w, ast.While) and any(call_attr(c) == 'connect' for c in calls_in(w))]
        for w in loops:
            n += 1
            ctx.analysed(f)
            asks = [c for c in ast.walk(w.test) if isinstance(c, ast.Call) and call_attr(c) in ('is_set', 'wait') and '_shutdown' in src(c.func)]
            if not asks:
                ctx.undecided(f'{f.qualname}:shutdown is asked in every round', w, f'`while {src(w.test)}`: no test of the shutdown event in the loop condition', f)
                continue
            uncond = {id(c) for c in _unconditional_calls(w.test, top=False)} | ({id(w.test)} if isinstance(w.test, ast.Call) else set())
            ok = any(id(c) in uncond for c in asks)
            ctx.check(ok, f'{f.qualname}:shutdown is asked in every round', w, f'`{src(asks[0])}` is evaluated in every round',
                      f'`while {src(w.test)}`: the shutdown event is only looked at behind a short-circuit operand - whenever that operand is falsy (a pause of 0 '
                      'before the first attempt) the loop goes on and connects a client that was shut down meanwhile', f)
    if not n:
        raise AnchorMissing('reconnect loop (a while loop calling connect() in a thread entry of SecopClient) not found')


@rule('C11.R17', min_instances=1)
def a_failing_user_callback_can_not_reach_the_worker_threads(ctx):
    """ProxyClient.callback runs user code from the receive thread (updateValue for every update and reply, _unhandled_message) and
    from disconnect().  The handler that catches a failing callback is itself unable to raise: whatever it evaluates - the text
    `f'... {args}: {e}'` calls __repr__ / __str__ of user objects - sits inside a try with a catch-all of its own.  Formatted
    outside, a callback whose exception has a raising __str__ drops the reply before it is matched (the caller times out), ends
    the receive thread, and makes disconnect() raise before the queues are drained"""
    from sa.lib import handler_catches_all
    m = ctx.m
    f = m.method('frappy.client.ProxyClient', 'callback', inherited=False)
    ctx.analysed(f)
    n = 0

    def risky(stmts):
        out = []
        for st in stmts:
            if isinstance(st, ast.Try) and any(handler_catches_all(h) for h in st.handlers):
                for h in st.handlers:
                    out += risky(h.body)
                out += risky(st.orelse) + risky(st.finalbody)
                continue
            if isinstance(st, ast.If):
                out += [x for x in ast.walk(st.test) if isinstance(x, (ast.Call, ast.FormattedValue))]
                out += risky(st.body) + risky(st.orelse)
                continue
            if isinstance(st, (ast.Pass, ast.Continue, ast.Break)):
                continue
            out += [x for x in ast.walk(st) if isinstance(x, ast.FormattedValue) or (isinstance(x, ast.Call) and not src(x.func).endswith(('log.debug', 'log.info', 'log.warning', 'log.error')))]
        return out
    for t in [x for x in body_walk(f.node) if isinstance(x, ast.Try)]:
        if not any(isinstance(c.func, ast.Name) and any(isinstance(a, ast.Starred) for a in c.args) for st in t.body for c in calls_in(st)):
            continue        # (the try around the call of the registered function `cbfunc(*args)`)
        for h in t.handlers:
            if not handler_catches_all(h):
                continue
            n += 1
            r = risky(h.body)
            ctx.check(not r, f'{f.qualname}:the handler of a failing callback can not raise', r[0] if r else h, 'everything the handler evaluates is inside its own catch-all',
                      f'`{src(r[0]) if r else ""}` is evaluated in the handler outside a try of its own: a user exception (or argument) whose __str__ / __repr__ raises escapes from '
                      'callback() into the receive thread / into disconnect()', f)
    if not n:
        raise AnchorMissing('catch-all handler around the call of the registered callback not found in ProxyClient.callback')
