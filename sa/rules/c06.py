"""C06 - the node's self-description is true of its behaviour"""
from sa.core import rule, prop_info
from sa.lib import *  # noqa: F401,F403
from sa.lib import func_calls, attr_stores, ReachingDefs, is_method_call, compare_ops
from sa.model import AnchorMissing, kwarg
from sa import roles

D = roles.DISPATCHER
SN = 'frappy.secnode.SecNode'

prop_info(
    'C06',
    'Decided: R1 description and dispatcher are keyed by the same attribute (.export) under the same truthiness guard, '
    'the module list is exactly secnode.export, filled only for modules with export set; R2 request handlers reach '
    'modules only through get_module + the exported-name table or behind an `in secnode.export` test, and an '
    'unexported module clears the export flag of its accessibles before any wire name is registered; R3 every value '
    'fed into a read/change/do reply is a (value, qualifiers) pair whose value is in transport representation; '
    'R4 the described readonly flag is the attribute the dispatcher tests, constants force readonly, the automatic '
    'properties are computed from the implementing class; R5 the datatype object that is exported as datainfo is the '
    'one used on the request paths, main-unit substitution happens inside Module.__init__.',
    not_decided='payload accept/reject equality with the described datainfo (values), stability of JSON text.')


@rule('C06.R1', min_instances=4)
def export_name_agreement(ctx):
    """export_accessibles: `if aobj.export: res[aobj.export] = ...`; get_descriptive_data iterates self.export and skips
    `not module.export`; add_module appends to self.export only under `if module.export`"""
    m = ctx.m
    ea = m.method(SN, 'export_accessibles', inherited=False)
    ctx.analysed(ea)
    stores = [n for n in body_walk(ea.node) if isinstance(n, ast.Subscript) and isinstance(n.ctx, ast.Store)]
    if not stores:
        raise AnchorMissing('no result store in export_accessibles')
    for s in stores:
        key = src(s.slice)
        guards = [src(a.test) for a in ancestors(s) if isinstance(a, ast.If)]
        eacfg = CFG(ea.node, m, ea.module)
        sst = next((a for a in ancestors(s) if isinstance(a, ast.stmt)), None)
        # the store lies only where a test established that <key> is true (an enclosing if, or a `continue` guard before it)
        ok = key.endswith('.export') and sst is not None and set(eacfg.ids(sst)) <= sides_with_fact(eacfg, lambda a, tv, key=key: tv and src(a) == key)
        ctx.check(ok, f'{ea.qualname}:accessible listed under its wire name iff exported', s,
                  f'keyed by `{key}` under guard `{key}`',
                  f'the description lists accessibles under `{key}` with guards {guards}: it no longer agrees with the '
                  'dispatcher table (Module.accessiblename2attr is keyed by accessible.export under `if accessible.export`)', ea)
        vals = [n for n in body_walk(ea.node) if isinstance(n, ast.Assign) and s in n.targets]
        for a in vals:
            ctx.check(call_attr(a.value) == 'for_export' if isinstance(a.value, ast.Call) else False,
                      f'{ea.qualname}:entry is for_export()', a, 'for_export()', 'the entry is not produced by for_export()', ea)
    mod_guard = [n for n in body_walk(ea.node) if isinstance(n, ast.If) and 'self.export' in src(n.test)]
    ctx.check(bool(mod_guard), f'{ea.qualname}:only exported modules', ea.node, 'guarded by `modulename in self.export`',
              'accessibles of unexported modules are listed', ea)
    gd = m.method(SN, 'get_descriptive_data', inherited=False)
    ctx.analysed(gd)
    loops = [n for n in body_walk(gd.node) if isinstance(n, ast.For) and src(n.iter) == 'self.export']
    ctx.check(bool(loops), f'{gd.qualname}:iterates exported modules', gd.node, 'for modulename in self.export',
              'the structure report is not built from self.export', gd)
    am = m.method(SN, 'add_module', inherited=False)
    ctx.analysed(am)
    apps = [c for c in calls_in(am.node) if call_attr(c) == 'append' and 'self.export' in src(c.func)]
    amcfg = CFG(am.node, m, am.module)
    exported_side = sides_with_fact(amcfg, lambda a, tv: tv and src(a).endswith('.export'))
    ok = bool(apps) and all(set(amcfg.node_of(c)) <= exported_side for c in apps)
    ctx.check(ok, f'{am.qualname}:export list guarded', am.node, 'appended only `if module.export`',
              'modules are added to the export list regardless of their export property', am)


@rule('C06.R2', min_instances=5)
def no_undescribed_access(ctx):
    """module / accessible resolution in the dispatcher is export-aware"""
    m = ctx.m
    ci = m.cls(D)
    n_obl = 0
    for name, fi in sorted(ci.methods.items()):
        cfg = None
        if m.is_inlined(fi):
            continue     # a single-use helper: its statements are analysed in place of the call
        for n in body_walk(fi.node):
            # direct use of secnode.modules with a name
            is_idx = isinstance(n, ast.Subscript) and src(n.value).endswith('secnode.modules') and isinstance(n.ctx, ast.Load)
            is_get = isinstance(n, ast.Call) and call_attr(n) == 'get' and src(n.func.value).endswith('secnode.modules')
            if is_idx or is_get:
                n_obl += 1
                ctx.analysed(fi)
                if name == 'handle_logging':
                    ctx.ok(f'{fi.qualname}:direct module lookup', n, 'named exception: logging is not an accessible access (C20)', fi)
                    continue
                if not name.startswith('handle_'):
                    # a private helper: the export test has to dominate every call of the helper (one level)
                    callers = [(g, c) for g in ci.methods.values() for c in calls_in(g.node)
                               if isinstance(c.func, ast.Attribute) and dotted(c.func.value) == 'self' and c.func.attr == name]
                    okc = bool(callers)
                    # when the helper loops over one of its own parameters, the argument of the call is what counts
                    params = [a.arg for a in fi.node.args.args]
                    hloops = [a for a in ancestors(n) if isinstance(a, ast.For) and isinstance(a.iter, ast.Name) and a.iter.id in params]
                    for g, c in callers:
                        cfgg = CFG(g.node, m, g.module)
                        tests = [t.id for t in cfgg.nodes if t.kind == 'test' and 'secnode.export' in src(t.ast)]
                        loops = [a for a in ancestors(c) if isinstance(a, ast.For)]
                        dom = any(all(cfgg.dominates([t], i) for i in cfgg.node_of(c)) for t in tests)
                        from_export = any('secnode.export' in src(x.value) for x in body_walk(g.node)
                                          if isinstance(x, ast.Assign) and any(src(l.iter) == src(x.targets[0]) for l in loops))
                        from_arg = False
                        for hl in hloops:
                            idx = params.index(hl.iter.id) - 1   # self is not passed explicitly
                            arg = c.args[idx] if 0 <= idx < len(c.args) else next((k.value for k in c.keywords if k.arg == hl.iter.id), None)
                            if isinstance(arg, ast.Name):
                                defs = [x for x in body_walk(g.node) if isinstance(x, ast.Assign) and any(src(t) == arg.id for t in x.targets)]
                                from_arg = bool(defs) and all(
                                    'secnode.export' in src(x.value) or any(all(cfgg.dominates([t], i) for i in cfgg.node_of(x)) for t in tests)
                                    for x in defs)
                        okc = okc and (dom or from_export or from_arg)
                    ctx.check(okc, f'{fi.qualname}:direct module lookup', n, 'helper: every call site is behind an export test / iterates exported names',
                              'a helper indexes secnode.modules with a name that is not checked against secnode.export at its call sites', fi)
                    continue
                if cfg is None:
                    cfg = CFG(fi.node, m, fi.module)
                tests = [t.id for t in cfg.nodes if t.kind == 'test' and 'secnode.export' in src(t.ast)]
                loops = [a for a in ancestors(n) if isinstance(a, ast.For)]
                # the name comes from a list built from secnode.export or from the tested specifier
                dom = any(all(cfg.dominates([t], i) for i in cfg.node_of(n)) for t in tests)
                from_export = any('secnode.export' in src(x.value) for x in body_walk(fi.node)
                                  if isinstance(x, ast.Assign) and any(src(l.iter) == src(x.targets[0]) for l in loops))
                # ... or out of a private helper of the dispatcher that tests / lists secnode.export (`for name, p in self._scope(conn, spec):`)
                from_helper = False
                for l in loops:
                    for c in [x for x in ast.walk(l.iter) if isinstance(x, ast.Call) and isinstance(x.func, ast.Attribute) and dotted(x.func.value) == 'self']:
                        h = ci.methods.get(c.func.attr)
                        if h is not None and 'secnode.export' in src(h.node, 20000):
                            from_helper = True
                ctx.check(dom or from_export or from_helper, f'{fi.qualname}:direct module lookup', n,
                          'dominated by an `in secnode.export` test / iterates names taken from secnode.export',
                          'a request handler indexes secnode.modules with a request-derived name without an export test: '
                          'an unexported module becomes reachable', fi)
            # accessible lookups
            recv = []
            if isinstance(n, ast.Call) and call_attr(n) == 'get' and isinstance(n.func, ast.Attribute):
                # the table may be picked into a local first (`candidates = moduleobj.commands`)
                recv = [src(o) for o in origins(n.func.value, fi.node)] if isinstance(n.func.value, ast.Name) else [src(n.func.value)]
            if recv and all(r.rpartition('.')[2] in ('parameters', 'commands', 'accessibles') for r in recv) and n.args:
                n_obl += 1
                ctx.analysed(fi)
                if cfg is None:
                    cfg = CFG(fi.node, m, fi.module)
                rd = ReachingDefs(cfg, fi.node)
                o = rd.origins_at(n, n.args[0])
                ok = bool(o) and all('accessiblename2attr' in src(x) for x in o)
                ctx.check(ok, f'{fi.qualname}:accessible looked up by translated name', n,
                          'the attribute name comes from accessiblename2attr',
                          f'`{src(n)}`: the name is {[src(x) for x in o]}, not the result of the exported-name table: '
                          'unexported accessibles (or internal attribute names) are reachable from the wire', fi)
    aa = m.method(roles.MODULE, '_add_accessible', inherited=False)
    ctx.analysed(aa)
    cfg = CFG(aa.node, m, aa.module)
    clr = [n for t, v, n in attr_stores(aa.node) if t.attr == 'export' and isinstance(v, ast.Constant) and v.value is False]
    reg = [n for n in body_walk(aa.node) if isinstance(n, ast.Subscript) and isinstance(n.ctx, ast.Store) and 'accessiblename2attr' in src(n.value)]
    ok = bool(clr) and bool(reg) and any(isinstance(a, ast.If) and 'not self.export' in src(a.test) for c in clr for a in ancestors(c))
    if ok:
        test_ids = [i for c in clr for a in ancestors(c) if isinstance(a, ast.If) for i in cfg.ids(a.test)]
        ok = all(cfg.dominates(test_ids, i) for r in reg for i in cfg.node_of(r))
    ctx.check(ok, f'{aa.qualname}:unexported module hides its accessibles', aa.node,
              '`if not self.export: accessible.export = False` precedes the wire-name registration',
              'accessibles of an unexported module keep their wire names: they can be read/changed although not described', aa)
    # the wire name is registered after the configuration was applied to the accessible (export may be configured)
    from sa.lib import deep_calls
    setp = [i for c, o, site in deep_calls(m, aa, lambda c: call_attr(c) == 'setProperty') for i in cfg.node_of(site)]
    late = [r for r in reg if cfg.reach(cfg.node_of(r)) & set(setp)]
    ctx.check(bool(reg) and not late, f'{aa.qualname}:wire name registered after configuration', reg[0] if reg else aa.node,
              'no setProperty can follow the registration of the wire name',
              'the wire name is entered into accessiblename2attr before the configured properties are applied: a parameter configured with '
              'export=False stays readable and changeable under its old name although it is no longer described (and a configured custom '
              'name is described but not reachable)', aa)
    if n_obl < 4:
        raise AnchorMissing('module/accessible lookups in the dispatcher not recognised')


def _tuple2(expr):
    return isinstance(expr, ast.Tuple) and len(expr.elts) == 2


@rule('C06.R3', min_instances=4)
def reply_shape(ctx):
    """returns of _getParameterValue/_setParameterValue/_execute_command are (value, qualifiers) pairs; value in transport form"""
    m = ctx.m
    for name in ('_getParameterValue', '_setParameterValue', '_execute_command'):
        fi = m.method(D, name, inherited=False)
        ctx.analysed(fi)
        cfg = CFG(fi.node, m, fi.module)
        rd = ReachingDefs(cfg, fi.node)
        rets = [n for n in body_walk(fi.node) if isinstance(n, ast.Return)]
        if not rets:
            raise AnchorMissing(f'no return in {name}')
        for r in rets:
            v = r.value
            if isinstance(v, ast.Name):
                ov = rd.origins_at(r, v)
                if len(ov) == 1 and _tuple2(ov[0]):
                    v = ov[0]
            # `return a, b if c else d` parses as a 2-tuple whose second element is a conditional
            if not _tuple2(v):
                ctx.bad(f'{fi.qualname}:returns (value, qualifiers)', r,
                        f'`return {src(v) if v is not None else ""}` is not a 2-tuple: the reply handler applies list() to it - '
                        "a string constant 'abc' reads as ['a','b','c'], a float constant raises TypeError", fi)
                continue
            ctx.ok(f'{fi.qualname}:returns (value, qualifiers)', r, '2-tuple', fi)
            first = v.elts[0]
            o = rd.origins_at(r, first)
            good = []
            for x in o:
                if isinstance(x, ast.Call) and call_attr(x) == 'export_value':
                    good.append(True)
                elif isinstance(x, ast.Attribute) and x.attr == 'constant':
                    good.append(True)   # slot holds the serialised constant (Parameter.finish)
                elif isinstance(x, ast.Call) and call_attr(x) == 'do' and name == '_execute_command':
                    # the raw result of do() may only reach a return where <cmd>.result is falsy (do() returned None): every
                    # path from that definition on which the name is not re-bound leaves a test of `.result` on its false side
                    nm = first.id if isinstance(first, ast.Name) else None
                    dstmt = next((a for a in ancestors(x) if isinstance(a, ast.stmt)), None)
                    if nm is None or dstmt is None:
                        good.append(False)
                        continue
                    redefs = [i for st in body_walk(fi.node) if isinstance(st, (ast.Assign, ast.AugAssign, ast.AnnAssign)) and st is not dstmt
                              and nm in rd._target_names(st.targets[0] if isinstance(st, ast.Assign) else st.target) for i in cfg.ids(st)]
                    good.append(paths_need_fact(cfg, cfg.ids(dstmt), cfg.ids(r), lambda a, tv: not tv and src(a).endswith('.result'), avoid=redefs))
                else:
                    good.append(False)
            ctx.check(bool(good) and all(good), f'{fi.qualname}:value in transport representation', r,
                      'first element is an export_value(...) result (or the serialised constant)',
                      f'first element of the reply is {[src(x) for x in o]}: not exported to the transport representation', fi)
    # users apply list() to the pair
    for hname in ('handle_read', 'handle_change', 'handle_do'):
        h = m.method(D, hname, inherited=False)
        ok = any(dotted(c.func) == 'list' and c.args and isinstance(resolved(c.args[0], h.node), ast.Call) for c in calls_in(h.node))
        if not ok and any(isinstance(r.value, ast.Call) and isinstance(r.value.func, ast.Attribute) and isinstance(r.value.func.value, ast.Name)
                          and r.value.func.value.id != 'self' for r in body_walk(h.node) if isinstance(r, ast.Return) and r.value is not None):
            ctx.undecided(f'{h.qualname}:data is the [value, qualifiers] list', h.node, 'the reply is put together by a method of a helper object', h)
            continue
        ctx.check(ok, f'{h.qualname}:data is the [value, qualifiers] list', h.node, 'list(<pair>)', 'reply data is not built from the pair', h)


@rule('C06.R4', min_instances=4)
def flags(ctx):
    """readonly in the description = attribute tested by the dispatcher; constant forces readonly; automatic properties"""
    m = ctx.m
    fe = m.method(roles.PARAMETER, 'for_export', inherited=False)
    ctx.analysed(fe)
    ok = any(isinstance(n, ast.keyword) and n.arg == 'readonly' and src(n.value) == 'self.readonly' for n in ast.walk(fe.node))
    ctx.check(ok, f'{fe.qualname}:readonly exported from self.readonly', fe.node, 'readonly=self.readonly',
              'the described readonly flag is not taken from the attribute the dispatcher tests', fe)
    fin = m.method(roles.PARAMETER, 'finish', inherited=False)
    ctx.analysed(fin)
    ok = False
    fcfg = CFG(fin.node, m, fin.module)
    has_const = sides_with_fact(fcfg, lambda a, tv: isinstance(a, ast.Compare) and len(a.ops) == 1 and src(a.left) == 'self.constant'
                                and isinstance(a.comparators[0], ast.Constant) and a.comparators[0].value is None
                                and ((tv and isinstance(a.ops[0], ast.IsNot)) or (not tv and isinstance(a.ops[0], ast.Is))))
    for t, v, st in attr_stores(fin.node):
        if t.attr == 'readonly' and isinstance(v, ast.Constant) and v.value is True:
            # the store lies exactly where a test found that a constant is set (either polarity, guard clause or nesting)
            if set(fcfg.node_of(st)) and set(fcfg.node_of(st)) <= has_const:
                ok = True
    ctx.check(ok, f'{fin.qualname}:constant forces readonly', fin.node, 'readonly = True when constant is set',
              'a constant parameter is not forced to readonly: the description would promise a refusal that depends on the flag', fin)
    sp = m.method(D, '_setParameterValue', inherited=False)
    tests = [x for n in body_walk(sp.node) if isinstance(n, (ast.If, ast.IfExp, ast.While)) for x in ast.walk(n.test)]
    ok = any(isinstance(x, ast.Attribute) and x.attr == 'readonly' for x in tests) and \
        any(isinstance(x, ast.Compare) and isinstance(x.left, ast.Attribute) and x.left.attr == 'constant' and
            isinstance(x.ops[0], (ast.Is, ast.IsNot)) for x in tests)      # polarity and order: C04.R1 (shared as C06.R3c)
    ctx.check(ok, f'{sp.qualname}:tests readonly and constant', sp.node, 'dispatcher tests .readonly and .constant',
              'the dispatcher does not test the described flags', sp)
    for fi in [m.method(D, '_setParameterValue', inherited=False), m.method(D, '_getParameterValue', inherited=False), fin]:
        for n in body_walk(fi.node):
            if isinstance(n, (ast.If, ast.IfExp, ast.While)) and any(isinstance(x, ast.Attribute) and x.attr == 'constant' for x in ast.walk(n.test)):
                t = n.test
                from sa.rules.common import _truthiness_operands
                none_test = not any(x.attr == 'constant' for x in _truthiness_operands(t))
                ctx.check(none_test, f'{fi.qualname}:constant tested against None', n, f'`{src(t)}`',
                          f'`{src(t)}` tests the constant by truthiness: a constant whose serialised value is falsy (0, 0.0, \'\', False, enum code 0) is '
                          'not treated as constant - it reads as the cached value instead of the described constant (or can be changed)', fi)
    init = m.method(roles.MODULE, '__init__', inherited=False)
    ctx.analysed(init)
    # the three stores: `self.<attr> = ...` - or `setattr(self, key, value)` in a loop over the items of a dict literal that a
    # helper method returns (`for key, value in self._automaticProperties().items()`)
    auto = [(t, v, s) for t, v, s in attr_stores(init.node) if dotted(t.value) == 'self' and t.attr in ('implementation', 'interface_classes', 'features')]
    for loop in [x for x in body_walk(init.node) if isinstance(x, ast.For) and isinstance(x.iter, ast.Call) and call_attr(x.iter) == 'items'
                 and isinstance(x.iter.func.value, ast.Call) and isinstance(x.iter.func.value.func, ast.Attribute) and dotted(x.iter.func.value.func.value) == 'self']:
        hname = loop.iter.func.value.func.attr
        if not (isinstance(loop.target, ast.Tuple) and len(loop.target.elts) == 2 and m.has_method(roles.MODULE, hname)):
            continue
        k, v = (src(e) for e in loop.target.elts)
        sets = [c for c in calls_in(loop) if dotted(c.func) == 'setattr' and len(c.args) == 3 and src(c.args[0]) == 'self' and src(c.args[1]) == k and src(c.args[2]) == v]
        sets += [c for c in calls_in(loop) if call_attr(c) == 'setProperty' and dotted(c.func.value) == 'self' and len(c.args) == 2 and src(c.args[0]) == k and src(c.args[1]) == v]
        h = m.method(roles.MODULE, hname)
        for d in [r.value for r in body_walk(h.node) if isinstance(r, ast.Return) and isinstance(r.value, ast.Dict)]:
            for dk, dv in zip(d.keys, d.values):
                if isinstance(dk, ast.Constant) and dk.value in ('implementation', 'interface_classes', 'features') and sets:
                    stmt = next((a for a in ancestors(sets[0]) if isinstance(a, ast.stmt)), None)
                    auto.append((ast.Attribute(value=ast.Name(id='self', ctx=ast.Load()), attr=dk.value, ctx=ast.Store()), dv, stmt))
    for attr in ('implementation', 'interface_classes', 'features'):
        st = [v for t, v, s in auto if t.attr == attr]
        ok = bool(st) and all(v is not None and ('mycls' in src(v, 300) or 'myclassname' in src(v, 300)) for v in st)
        if ok and attr in ('interface_classes', 'features'):
            ok = all('mycls.__mro__' in src(v, 300) for v in st)
        ctx.check(ok, f'{init.qualname}:automatic property {attr}', init.node, f'{attr} computed from the implementing class',
                  f'{attr} is not computed from the implementing class (skipping the wrapper class)', init)
    # the selecting conditions of the two comprehensions, with their polarity
    for t, v, st in auto:
        if t.attr not in ('interface_classes', 'features'):
            continue
        comps = [x for x in ast.walk(v) if isinstance(x, ast.ListComp)] if v is not None else []
        conds = [compare_ops(c) for x in comps for g in x.generators for c in g.ifs]
        flat = [tr for cs in conds for tr in cs]
        if t.attr == 'features':
            ok = any(op == 'in' and l == 'Feature' and r.endswith('__bases__') for l, op, r in flat)
            ctx.check(ok, f'{init.qualname}:features are the classes with Feature as a direct base', st, '`Feature in b.__bases__`',
                      f'the features list is selected by {flat}: it does not name exactly the mixins derived directly from Feature', init)
        else:
            ok = any(op == 'in' and r == 'SECoP_BASE_CLASSES' for l, op, r in flat) and isinstance(v, ast.Subscript) and src(v.slice) == ':1'
            ctx.check(ok, f'{init.qualname}:interface class is the first SECoP base class of the MRO', st, '`[... if b.__name__ in SECoP_BASE_CLASSES][:1]`',
                      f'interface_classes is built as `{src(v)}`: not the most specific SECoP base class of the implementing class', init)
    # these three are ordinary settable properties, so a configuration may name them: the computed value has to be stored
    # AFTER the configured properties were applied (the last store wins)
    cfgi = CFG(init.node, m, init.module)
    applied = [i for c in calls_in(init.node) if call_attr(c) == 'setProperty' and dotted(c.func.value) == 'self'
               and any(isinstance(a, ast.For) and 'propertyDict' in src(a.iter) for a in ancestors(c)) for i in cfgi.node_of(c)]
    if not applied:
        raise AnchorMissing('loop applying the configured module properties (self.setProperty in a loop over propertyDict) not found in Module.__init__')
    for attr in ('implementation', 'interface_classes', 'features'):
        sts = [i for t, v, s in auto if t.attr == attr and s is not None for i in cfgi.node_of(s)]
        later = cfgi.reach(sts) & set(applied) if sts else {0}
        ctx.check(not later, f'{init.qualname}:automatic property {attr} overrides the configuration', init.node,
                  'stored after the configured properties were applied',
                  f'self.{attr} is computed before the loop that applies the configured module properties: a configuration that states '
                  f'`{attr}` replaces the value derived from the implementing class and the description names an interface the module does not implement', init)


@rule('C06.R5', min_instances=3)
def one_datatype_object(ctx):
    """datainfo is the exported form of Parameter.datatype, the attribute the request paths use"""
    m = ctx.m
    pc = m.cls(roles.PARAMETER)
    decl = pc.assigns.get('datatype')
    ok = isinstance(decl, ast.Call) and dotted(decl.func) == 'Property' and \
        isinstance(kwarg(decl, 'extname'), ast.Constant) and kwarg(decl, 'extname').value == 'datainfo' and \
        isinstance(kwarg(decl, 'export'), ast.Constant) and kwarg(decl, 'export').value == 'always'
    ctx.check(ok, f'{pc.qualname}:datatype exported as datainfo', decl, "Property(..., extname='datainfo', export='always')",
              'Parameter.datatype is not exported as datainfo (always)', None)
    for name in ('_setParameterValue',):
        fi = m.method(D, name, inherited=False)
        for c in calls_in(fi.node):
            if call_attr(c) in ('import_value', 'validate'):
                ctx.check(src(resolved(c.func.value, fi.node)).endswith('.datatype'), f'{fi.qualname}:{call_attr(c)} on .datatype', c,
                          'request path uses pobj.datatype', f'`{src(c.func)}` is not a method of pobj.datatype', fi)
    pe = m.method(roles.PARAMETER, 'export_value', inherited=False)
    ok = any(call_attr(c) == 'export_value' and src(c.func.value) == 'self.datatype' for c in calls_in(pe.node))
    ctx.check(ok, f'{pe.qualname}:export through self.datatype', pe.node, 'self.datatype.export_value(self.value)',
              'Parameter.export_value does not use self.datatype', pe)
    init = m.method(roles.MODULE, '__init__', inherited=False)
    cfg = CFG(init.node, m, init.module)
    mu = [c for c in calls_in(init.node) if call_attr(c) == 'applyMainUnit']
    add = [i for c in calls_in(init.node) if call_attr(c) == '_add_accessible' for i in cfg.node_of(c)]
    ok = bool(mu) and bool(add) and all(not cfg.reachable(i, a) or True for c in mu for i in cfg.node_of(c) for a in add)
    loops = [cfg.ids(n) for n in body_walk(init.node) if isinstance(n, ast.For) and any(call_attr(c) == '_add_accessible' for c in calls_in(n))]
    if mu and loops:
        ok = all(cfg.dominates(loops[0], i) for c in mu for i in cfg.node_of(c))
    ctx.check(ok, f'{init.qualname}:main unit substituted after configuration', init.node,
              'applyMainUnit is called in __init__ after the accessibles were configured',
              'main-unit substitution does not follow the configuration of the accessibles inside __init__', init)


@rule('C06.R3b', min_instances=1)
def constant_slot_representation(ctx):
    """representation typestate of the `constant` slot: a slot that is stored in TRANSPORT form (export_value result)
    must not be read back as INTERNAL (argument of datatype(...)/validate) without an import in between"""
    m = ctx.m
    pc = m.cls(roles.PARAMETER)
    stores_t, reads_i = [], []
    for fi in pc.methods.values():
        for t, v, st in attr_stores(fi.node):
            if t.attr == 'constant' and dotted(t.value) == 'self' and isinstance(v, ast.Call) and call_attr(v) == 'export_value':
                stores_t.append((fi, st))
        for c in calls_in(fi.node):
            f = c.func
            internal_consumer = (isinstance(f, ast.Attribute) and ((f.attr == 'datatype' and dotted(f.value) == 'self')
                                                                     or f.attr == 'validate'))
            if internal_consumer and c.args and src(c.args[0]) == 'self.constant':
                reads_i.append((fi, c))
    if not stores_t and not reads_i:
        raise AnchorMissing('constant slot handling in Parameter not found')
    fi, node = (reads_i or stores_t)[0]
    ctx.analysed(fi)
    ctx.check(not (stores_t and reads_i), f'{pc.qualname}:constant slot has one representation', node,
              'the constant slot is not both stored as transport form and consumed as internal form',
              f'`{src(reads_i[0][1]) if reads_i else ""}` consumes the slot as an internal value while '
              f'`{src(stores_t[0][1]) if stores_t else ""}` stores the transport form into the same slot, and finish() runs '
              'once per clone/merge/instance: a ScaledInteger(0.1) constant 1.5 is described as 1500 instead of 15, '
              'a BLOBType constant makes the module un-instantiable', fi)


@rule('C06.R6', min_instances=3)
def change_path_validates_like_the_description(ctx):
    """shared with C04.R2: the change path validates the payload with the described datatype and the cached value as
    `previous` (partial structs are merged), and hands exactly that value on"""
    from sa.rules import c04
    c04.validated_value_is_used(ctx)
    # a command described without argument accepts `null` only, one described with an argument needs data (C04.R2b)
    c04.command_argument_presence_is_enforced(ctx)
    m = ctx.m
    f = m.method(D, '_setParameterValue', inherited=False)
    vals = [c for c in calls_in(f.node) if call_attr(c) == 'validate' and src(resolved(c.func.value, f.node)).endswith('.datatype')]
    ctx.check(bool(vals) and all(kwarg(c, 'previous') is not None for c in vals), f'{f.qualname}:validate(previous=cache) on the change path', f.node,
              'pobj.datatype.validate(value, previous=pobj.value)',
              'the change path does not validate with previous=<cached value>: a partial struct that the described datainfo accepts is refused '
              '(or cached incomplete) by the node', f)


@rule('C06.R7', min_instances=1)
def value_slots_tested_by_identity(ctx):
    """cross-cutting: constant / value / default / target are never tested by their truth value in the request and
    configuration paths (dispatcher, modulebase, params, secnode, persistent)"""
    from sa.rules import common
    common.truthiness_on_value_slots(ctx, {'frappy.protocol.dispatcher', 'frappy.modulebase', 'frappy.params', 'frappy.secnode', 'frappy.persistent', 'frappy.modules'})


@rule('C06.R8', min_instances=2)
def description_is_computed_not_remembered(ctx):
    """get_descriptive_data / export_accessibles build the report from the live modules on every call: they store nothing
    on the node (datatype properties change after the first report - limits set in startModule, enum members added by
    register_input - and a remembered report would then describe a datainfo the node no longer uses)"""
    m = ctx.m
    for name in ('get_descriptive_data', 'export_accessibles'):
        f = m.method(SN, name, inherited=False)
        ctx.analysed(f)
        stores = [s for t, v, s in attr_stores(f.node) if dotted(t.value) == 'self']
        stores += [n for n in body_walk(f.node) if isinstance(n, (ast.Assign, ast.AugAssign)) and
                   any(isinstance(t, ast.Subscript) and dotted(t.value).startswith('self.') for t in (n.targets if isinstance(n, ast.Assign) else [n.target]))]
        stores += [c for c in calls_in(f.node) if call_attr(c) in ('setdefault', 'update', 'append', 'add') and isinstance(c.func, ast.Attribute)
                   and dotted(c.func.value).startswith('self.')]
        ctx.check(not stores, f'{f.qualname}:stores nothing on the node', stores[0] if stores else f.node, 'pure function of the live modules',
                  f'`{src(stores[0]) if stores else ""}`: the report (or a part of it) is remembered on the node and reused for later describe requests: '
                  'a datatype property that changes afterwards is described with its old value while requests are validated with the new one', f)


@rule('C06.R4c', min_instances=1)
def writable_by_description_means_writable(ctx):
    """`readonly` is a settable parameter property, but the write wrapper (write_<p>, what the dispatcher calls) is generated
    with the CLASS, only `if wfunc or not pobj.readonly`: a configuration that sets readonly=False on a parameter that is
    read-only and has no write method in its class must be refused (or the wrapper generated unconditionally) - otherwise the
    description says readonly=false and every change fails with AttributeError (an InternalError reply)"""
    m = ctx.m
    hook = m.method(roles.HASACC, '__init_subclass__', inherited=False)
    ctx.analysed(hook)
    gen = [n for n in body_walk(hook.node) if isinstance(n, ast.If) and any(isinstance(x, ast.FunctionDef) and x.name == 'new_wfunc' for x in n.body)]
    conditional = any('readonly' in src(n.test) for n in gen)
    wrapper_defs = [x for x in ast.walk(hook.node) if isinstance(x, ast.FunctionDef) and x.name == 'new_wfunc']
    if not wrapper_defs:
        raise AnchorMissing('write wrapper new_wfunc not found in __init_subclass__')
    if not conditional and not gen:
        ctx.ok(f'{hook.qualname}:a configuration can not describe a parameter as writable that has no write path', hook.node,
               'the write wrapper is generated for every parameter', hook)
        return
    aa = m.method(roles.MODULE, '_add_accessible', inherited=False)
    ctx.analysed(aa)
    # an error report (errors.append / raise) that lies exactly where the tests established `not <p>.readonly` and
    # `not hasattr(self, 'write_' + name)` - one combined test or nested ones
    acfg = CFG(aa.node, m, aa.module)
    writable = sides_with_fact(acfg, lambda a, tv: not tv and isinstance(a, ast.Attribute) and a.attr == 'readonly')
    no_method = sides_with_fact(acfg, lambda a, tv: not tv and isinstance(a, ast.Call) and dotted(a.func) == 'hasattr' and "'write_'" in src(a))
    guards = [c for c in calls_in(aa.node) if call_attr(c) == 'append' and 'errors' in src(c.func) and set(acfg.node_of(c)) <= (writable & no_method)]
    guards += [x for x in body_walk(aa.node) if isinstance(x, ast.Raise) and set(acfg.ids(x)) and set(acfg.ids(x)) <= (writable & no_method)]
    if not guards:
        # the check may live in a helper of _add_accessible - also one that generates the complaints the caller appends to errors
        for site, h in helper_methods_called(m, aa):
            hcfg = CFG(h.node, m, h.module)
            hw = sides_with_fact(hcfg, lambda a, tv: not tv and isinstance(a, ast.Attribute) and a.attr == 'readonly')
            hn = sides_with_fact(hcfg, lambda a, tv: not tv and isinstance(a, ast.Call) and dotted(a.func) == 'hasattr' and "'write_'" in src(a))
            reports = [x for x in body_walk(h.node) if (isinstance(x, ast.Raise) or (isinstance(x, ast.Expr) and isinstance(x.value, ast.Yield)) or
                                                        (isinstance(x, ast.Expr) and isinstance(x.value, ast.Call) and call_attr(x.value) == 'append' and 'errors' in src(x.value.func)))
                       and set(hcfg.ids(x)) and set(hcfg.ids(x)) <= (hw & hn)]
            if reports:
                ctx.analysed(h)
                guards += reports
    ctx.check(bool(guards), f'{hook.qualname}:a configuration can not describe a parameter as writable that has no write path', gen[0] if gen else hook.node,
              '_add_accessible reports a configuration error for readonly=False without write method',
              f'the write wrapper is generated only `if {src(gen[0].test) if gen else "?"}` (class level) while `readonly` can be set to False per '
              'instance by the configuration and nothing checks that write_<p> exists then: the description shows readonly=false, the '
              'dispatcher passes its readonly test and `getattr(moduleobj, "write_" + pname)` raises AttributeError - the client gets an '
              'InternalError for every change', hook)


@rule('C06.R4d', min_instances=2)
def described_flags_are_the_declared_ones(ctx):
    """shared with C09.R2g: the module instance holds COPIES of the accessibles of its class; a copy that injects a constructor
    default as own property (readonly=False of StructParam / FloatEnumParam) is described with another readonly flag than
    the class declares - and a struct parameter described as writable has no write method"""
    from sa.rules import c09
    c09.copy_keeps_every_declared_property(ctx)


@rule('C06.R10', min_instances=1)
def described_struct_has_the_node_s_optional_members(ctx):
    """shared with C03.R1d: a described struct accepts and rejects the payloads the node does - an empty list of optional
    members is stated in the datainfo (an omitted key means 'all optional')"""
    from sa.rules import c03
    c03.struct_states_an_empty_optional_list(ctx)


@rule('C06.R2c', min_instances=2)
def names_that_are_not_exported_have_no_translation(ctx):
    """shared with C04.R1: the dispatcher translates a wire name through accessiblename2attr WITHOUT a fall-back - a default
    (`.get(name, name)`) makes every attribute name an accepted wire name, described or not"""
    from sa.rules import c04
    m = ctx.m
    n = 0
    for name, fi in sorted(m.cls(D).methods.items()):
        if m.is_inlined(fi):
            continue
        lookups = [x for x in body_walk(fi.node) if isinstance(x, ast.Assign) and 'accessiblename2attr' in src(x.value)]
        if lookups:
            n += len(lookups)
            ctx.analysed(fi)
            c04._no_fallback_to_the_wire_name(ctx, fi, lookups)
    if n < 2:
        raise AnchorMissing('translations through accessiblename2attr not found in the dispatcher')


def _truth(test):
    neg = False
    while isinstance(test, ast.UnaryOp) and isinstance(test.op, ast.Not):
        neg = not neg
        test = test.operand
    return test, neg


@rule('C06.R1b', min_instances=8)
def structure_report_is_complete_and_selects_by_export(ctx):
    """get_descriptive_data / export_accessibles / add_module, with the polarity of every export test: unexported modules and
    accessibles are the ones skipped, every exported module gets its entry (accessibles + exported module properties), the
    node level carries equipment_id / firmware / description, an unknown module or accessible is refused, and the report is
    returned on every normal exit"""
    m = ctx.m
    gd = m.method(SN, 'get_descriptive_data', inherited=False)
    ctx.analysed(gd)
    cfg = CFG(gd.node, m, gd.module)
    loops = [n for n in body_walk(gd.node) if isinstance(n, ast.For) and src(n.iter) == 'self.export']
    if not loops:
        raise AnchorMissing('loop over self.export not found in get_descriptive_data')
    loop = loops[0]
    stores = [n for n in walk_local(loop) if isinstance(n, ast.Assign) and any(isinstance(t, ast.Subscript) and src(t.slice) == src(loop.target) for t in n.targets)]
    ctx.check(bool(stores), f'{gd.qualname}:every exported module gets its entry', loop, f'modules[{src(loop.target)}] = <description>',
              'the loop over the exported modules stores no entry: the report lists no modules', gd)
    for t in cfg.nodes:
        if t.kind != 'test':
            continue
        core, neg = _truth(t.ast)
        if isinstance(core, ast.Attribute) and core.attr == 'export' and any(t.ast is x.test for x in walk_local(loop) if isinstance(x, ast.If)):
            # the store must lie on the side where .export is true
            side = 'F' if neg else 'T'
            sids = {i for s in stores for i in cfg.node_of(s)}
            on = cfg.reach([t.id], labels={side}, avoid=[t.id] + cfg.ids(loop))
            off = cfg.reach([t.id], labels={'T' if side == 'F' else 'F'}, avoid=[t.id] + cfg.ids(loop))
            ctx.check(sids <= on and not (sids & off), f'{gd.qualname}:unexported modules are the ones skipped', t.ast, f'`{src(t.ast)}`',
                      f'`{src(t.ast)}`: the entry is stored on the side where the module is NOT exported', gd)
    descs = [n for n in walk_local(loop) if isinstance(n, ast.Assign) and isinstance(n.value, ast.Dict) and
             any(isinstance(k, ast.Constant) and k.value == 'accessibles' for k in n.value.keys)]
    okd = bool(descs) and any(call_attr(c) == 'export_accessibles' for d in descs for c in calls_in(d))
    ctx.check(okd, f'{gd.qualname}:module entry lists its accessibles', loop, "{'accessibles': self.export_accessibles(...)}",
              "the module entry is not built with 'accessibles': export_accessibles(<module>)", gd)
    upd = [c for c in calls_in(loop) if call_attr(c) == 'update' and c.args and 'exportProperties' in src(c.args[0])]
    ctx.check(bool(upd), f'{gd.qualname}:module entry carries the exported module properties', loop, 'mod_desc.update(module.exportProperties())',
              'the exported module properties (description, interface_classes, features, implementation ...) are not merged into the module entry', gd)
    # all normal exits return the report
    badret = can_end_without_value(cfg, gd.node)
    ctx.check(not badret, f'{gd.qualname}:returns the report', gd.node, 'every normal exit returns the report', 'a normal exit returns nothing', gd)
    # node level entries
    keys = {src(t.slice) for n in body_walk(gd.node) if isinstance(n, ast.Assign) for t in n.targets if isinstance(t, ast.Subscript) and src(t.value) == 'result'}
    need = {"'equipment_id'", "'firmware'", "'description'"}
    ctx.check(need <= keys, f'{gd.qualname}:node level identity', gd.node, f'{sorted(need)} are stored', f'node level keys missing: {sorted(need - keys)}', gd)
    # unknown names are refused
    for exc in ('NoSuchModuleError', 'NoSuchParameterError'):
        rs = [n for n in body_walk(gd.node) if isinstance(n, ast.Raise) and n.exc is not None and exc in src(n.exc)]
        ctx.check(bool(rs), f'{gd.qualname}:{exc} for an unknown name', gd.node, 'raised', f'no {exc} is raised: a describe request for an unknown name is answered', gd)
    # export_accessibles: polarity of both tests
    ea = m.method(SN, 'export_accessibles', inherited=False)
    ctx.analysed(ea)
    cfge = CFG(ea.node, m, ea.module)
    st = [n for n in body_walk(ea.node) if isinstance(n, ast.Assign) and any(isinstance(t, ast.Subscript) and 'export' in src(t.slice) for t in n.targets)]
    sids = {i for s in st for i in cfge.node_of(s)}
    for t in cfge.nodes:
        if t.kind != 'test':
            continue
        core, neg = _truth(t.ast)
        want = None
        if isinstance(core, ast.Attribute) and core.attr == 'export':
            want = not neg
        for l, op, r in compare_ops(t.ast):
            if r == 'self.export' and op in ('in', 'notin'):
                want = (op == 'in')
        if want is None:
            continue
        side = 'T' if want else 'F'
        on = cfge.reach([t.id], labels={side}, avoid=[t.id])
        off = cfge.reach([t.id], labels={'F' if side == 'T' else 'T'}, avoid=[t.id])
        ctx.check(bool(sids) and sids <= on and not (sids & off - on), f'{ea.qualname}:`{src(t.ast)}` selects the exported side', t.ast, 'entries are stored on the exported side',
                  f'`{src(t.ast)}`: the accessibles listed are the ones that are NOT exported', ea)
    badret = can_end_without_value(cfge, ea.node)
    ctx.check(not badret, f'{ea.qualname}:returns a mapping', ea.node, 'every normal exit returns a mapping', 'a normal exit returns nothing', ea)
    # add_module
    am = m.method(SN, 'add_module', inherited=False)
    ctx.analysed(am)
    cfga = CFG(am.node, m, am.module)
    apps = {i for c in calls_in(am.node) if call_attr(c) == 'append' and 'self.export' in src(c.func) for i in cfga.node_of(c)}
    for t in cfga.nodes:
        if t.kind == 'test':
            core, neg = _truth(t.ast)
            if isinstance(core, ast.Attribute) and core.attr == 'export':
                side = 'F' if neg else 'T'
                ctx.check(bool(apps) and apps <= cfga.reach([t.id], labels={side}, avoid=[t.id]), f'{am.qualname}:exported modules are the ones listed', t.ast,
                          'appended on the exported side', f'`{src(t.ast)}`: the export list receives the modules that are NOT exported', am)
    reg = [n for n in body_walk(am.node) if isinstance(n, ast.Assign) and any(isinstance(t, ast.Subscript) and src(t.value) == 'self.modules' for t in n.targets)]
    ctx.check(bool(reg), f'{am.qualname}:module registered', am.node, 'self.modules[name] = module', 'the module is not stored in self.modules', am)


@rule('C06.R3c', min_instances=3)
def read_path_refusals_and_constant_side(ctx):
    """_getParameterValue: unknown module / parameter are refused (polarity included), the described constant is returned
    exactly on the side where the parameter has a constant, the driver read on the other side"""
    from sa.rules import c04
    m = ctx.m
    f = m.method(D, '_getParameterValue', inherited=False)
    ctx.analysed(f)
    c04.lookups_done_elsewhere(m, f)
    cfg = CFG(f.node, m, f.module)
    rets = [i for n in body_walk(f.node) if isinstance(n, ast.Return) for i in cfg.ids(n)]
    c04._refusal(ctx, f, cfg, rets, lambda s: s.endswith(' is None') and 'module' in s, 'NoSuchModuleError', 'module-exists refusal', '<module> is None')
    c04._refusal(ctx, f, cfg, rets, lambda s: s.endswith(' is None') and 'module' not in s and 'constant' not in s, 'NoSuchParameterError',
                 'parameter-exists refusal', '<pobj> is None')
    ct = [t for t in cfg.nodes if t.kind == 'test' and c04._polarity(t.ast)[0].endswith('.constant is None')]
    if not ct:
        ctx.bad(f'{f.qualname}:constant side', f.node, 'no test of pobj.constant: a constant parameter reads as the cached default', f)
        return
    for t in ct:
        neg = c04._polarity(t.ast)[1]           # canonical `constant is None`; neg => written test is true when a constant exists
        has_const = 'T' if neg else 'F'
        cret = {i for n in body_walk(f.node) if isinstance(n, (ast.Return, ast.Assign)) and n.value is not None and '.constant' in src(n.value) for i in cfg.ids(n)}
        reads = {i for c in calls_in(f.node) if isinstance(c.func, ast.Call) and dotted(c.func.func) == 'getattr' and 'read_' in src(c.func) for i in cfg.node_of(c)}
        on = cfg.reach([t.id], labels={has_const}, avoid=[t.id])
        off = cfg.reach([t.id], labels={'F' if has_const == 'T' else 'T'}, avoid=[t.id])
        ctx.check(bool(cret) and cret <= on and not (cret & off - on) and bool(reads) and reads <= off and not (reads & on - off),
                  f'{f.qualname}:constant side', t.ast, 'the constant is returned where it exists, the driver is read otherwise',
                  f'`{src(t.ast)}`: the described constant is returned on the side where the parameter has none (None is sent), and constant parameters are read '
                  'from the driver', f)


@rule('C06.R9', min_instances=6)
def emitted_container_values_use_the_member_transport_form(ctx):
    """shared with C02.R2: every value an array / tuple / struct exports went through its members' export_value (and
    import_value on the way in), on every return path: the description promises the members' transport form (integer for a
    scaled member), a fast path that returns the elements as they are emits values the described datainfo refuses"""
    from sa.rules import c02
    c02.container_delegation(ctx)


@rule('C06.R2d', min_instances=1)
def an_unknown_name_is_not_taken_for_no_name(ctx):
    """handle_activate (with its helpers): `<module>` activates the whole module, `<module>:<name>` one parameter.  The wire name
    is translated through accessiblename2attr; a name that is NOT described must not translate to the same thing as "no name
    given" (None / falsy) where the refusal is skipped for a falsy name (`if pname and pname not in parameters: raise`) -
    otherwise `activate mod:<anything undescribed>` is accepted and answered with the snapshot of the whole module"""
    m = ctx.m
    from sa.rules.c08 import _act_unit
    n = 0
    for g, site in _act_unit(m):
        for a in [x for x in body_walk(g.node) if isinstance(x, ast.Assign) and len(x.targets) == 1 and isinstance(x.targets[0], ast.Name)]:
            gets = [c for c in ast.walk(a.value) if isinstance(c, ast.Call) and call_attr(c) == 'get' and 'accessiblename2attr' in src(c.func)]
            if not gets:
                continue
            n += 1
            ctx.analysed(g)
            name = a.targets[0].id
            falsy_default = [c for c in gets if (len(c.args) < 2 and kwarg(c, 'default') is None) or
                             (len(c.args) > 1 and isinstance(c.args[1], ast.Constant) and not c.args[1].value)]
            cfg = CFG(g.node, m, g.module)
            skipped = [t.ast for t in cfg.nodes if t.kind == 'test' and isinstance(t.ast, ast.BoolOp) and isinstance(t.ast.op, ast.And)
                       and any(isinstance(v, ast.Name) and v.id == name for v in t.ast.values)
                       and any(isinstance(v, ast.Compare) and any(isinstance(o, ast.NotIn) for o in v.ops) and name in names_in(v) for v in t.ast.values)]
            key = f'{g.qualname}:a name that is not described is refused, not taken for "whole module"'
            if falsy_default and skipped:
                ctx.bad(key, falsy_default[0], f'`{src(falsy_default[0])}` gives None for a wire name that is not described, and `{src(skipped[0])}` skips the refusal for a '
                        'falsy name: `activate <module>:<undescribed name>` is registered and answered with the snapshot of the whole module', g)
            else:
                ctx.ok(key, a, 'an undescribed name translates to something the parameter test refuses', g)
    if not n:
        raise AnchorMissing('translation of the wire name (accessiblename2attr.get) not found in handle_activate')


@rule('C06.R12', min_instances=1)
def a_value_that_failed_its_conversion_is_not_cached(ctx):
    """the cache funnel (Module.announceUpdate): the cached value is what later updates and read replies export - "every value
    the node ever emits for a parameter is importable with the described datainfo".  From a handler of the try around the
    datatype conversion the store `pobj.value = ...` is not reachable (flags bound to literals are followed): a value that the
    datatype refused never enters the cache"""
    m = ctx.m
    f = roles.cache_funnel(m)
    ctx.analysed(f)
    cfg = CFG(f.node, m, f.module)
    stores = [s for t, v, s in attr_stores(f.node) if t.attr == 'value' and dotted(t.value) != 'self']
    convs = [c for c in calls_in(f.node) if (call_attr(c) == 'datatype' or (isinstance(c.func, ast.Attribute) and c.func.attr in ('validate',) and 'datatype' in src(c.func)))]
    if not stores or not convs:
        raise AnchorMissing('store of pobj.value / the conversion pobj.datatype(value) not found in the cache funnel')
    sids = {i for s in stores for i in cfg.node_of(s)}
    n = 0
    for c in convs:
        for t, part in enclosing_tries(c):
            if part != 'body':
                continue
            for h in t.handlers:
                n += 1
                hit = sids & reach_with_flags(cfg, cfg.ids(h), avoid=[])
                ctx.check(not hit, f'{f.qualname}:a refused value is not stored', h, 'no store of the cache value is reachable from the handler of the failed conversion',
                          f'after `{src(c)}` failed, `{src(stores[0])}` is still reached: the value the datatype refused is cached, and the next '
                          'read reply / update exports a value the described datainfo does not accept', f)
    if not n:
        raise AnchorMissing('the conversion in the cache funnel is not inside a try')


@rule('C06.R13', min_instances=1)
def stored_value_and_default_are_both_refitted(ctx):
    """Parameter.finish converts what is stored under 'default' AND under 'value' with the current datatype (finish runs
    again after a subclass narrowed the datatype): each of the two is handled independently - as an item of one loop over both
    names, or by two tests of which the second is reached whatever the first found.  `elif 'value' in ...` leaves a stored value
    alone while a default exists; the node then answers reads with a value its own described datainfo refuses"""
    m = ctx.m
    fin = m.method(roles.PARAMETER, 'finish', inherited=False)
    ctx.analysed(fin)
    cfg = CFG(fin.node, m, fin.module)
    loops = [l for l in body_walk(fin.node) if isinstance(l, ast.For) and isinstance(l.iter, (ast.Tuple, ast.List))
             and {e.value for e in l.iter.elts if isinstance(e, ast.Constant)} >= {'default', 'value'}]
    if loops:
        ctx.ok(f'{fin.qualname}:default and value are refitted independently', loops[0], f'one loop over {src(loops[0].iter)}', fin)
        return

    def tests_of(name):
        return [t for t in cfg.nodes if t.kind == 'test' and not isinstance(t.ast, ast.stmt) and
                any(isinstance(c, ast.Compare) and isinstance(c.left, ast.Constant) and c.left.value == name and 'propertyValues' in src(c) for c in ast.walk(t.ast))]
    td, tv_ = tests_of('default'), tests_of('value')
    if not td or not tv_:
        ctx.undecided(f'{fin.qualname}:default and value are refitted independently', fin.node, "tests of 'default' / 'value' in self.propertyValues not found", fin)
        return
    vids = {t.id for t in tv_}
    ok = all(vids & set(cfg.reach([t.id], labels={lab}, avoid=[t.id])) for t in td for lab in ('T', 'F'))
    ctx.check(ok, f'{fin.qualname}:default and value are refitted independently', tv_[0].ast, "the test of 'value' is reached on both sides of the test of 'default'",
              f"`{src(tv_[0].ast)}` is only reached when no default is stored: a stored value is not converted with the (narrowed) datatype while a default exists - "
              'it is emitted although the described datainfo does not accept it', fin)


@rule('C06.R14', min_instances=1)
def a_described_empty_optional_list_is_rebuilt_as_empty(ctx):
    """the rebuild side of the description (the 'struct' entry of DATATYPES and the functions it uses): `optional` from the
    datainfo is handed to StructOf as it is, replaced by "all members" only when it is None (key absent).  `optional or
    list(subtypes)` rebuilds an explicit `"optional": []` as all-optional: the described datainfo accepts payloads lacking members
    that the node refuses"""
    m = ctx.m
    mod = m.modules.get('frappy.datatypes')
    n = 0
    hits = []
    scopes = [fi.node for q, fi in m.functions.items() if fi.module is mod and fi.cls is None]
    scopes += [x for x in ast.walk(mod.tree) if isinstance(x, ast.Lambda)]
    for sc in scopes:
        args = sc.args
        if 'optional' not in {a.arg for a in args.args + args.kwonlyargs}:
            continue
        n += 1
        body = sc.body if isinstance(sc.body, list) else [sc.body]
        for b in body:
            for x in ast.walk(b):
                if isinstance(x, ast.BoolOp) and isinstance(x.op, ast.Or) and any(isinstance(v, ast.Name) and v.id == 'optional' for v in x.values[:-1]):
                    hits.append(x)
                if isinstance(x, (ast.If, ast.IfExp)):
                    t = x.test
                    while isinstance(t, ast.UnaryOp) and isinstance(t.op, ast.Not):
                        t = t.operand
                    if isinstance(t, ast.Name) and t.id == 'optional':
                        hits.append(x.test)
    ctx.check(not hits, 'frappy.datatypes:rebuild keeps an empty optional list', hits[0] if hits else None, f'{n} rebuild functions with an `optional` parameter, none truth tests it',
              f'`{src(hits[0]) if hits else ""}` decides by the truth value of `optional`: the described `"optional": []` (no member may be left out) is rebuilt as "every member optional"')
    if not n:
        raise AnchorMissing("no rebuild function / lambda with an `optional` parameter found in frappy.datatypes")
