"""C01 - datatype validation is sound, canonical and total"""
from sa.core import rule, prop_info
from sa.lib import *  # noqa: F401,F403
from sa.lib import enclosing_tries, handler_covers, compare_ops, raised_names, origins, local_assigns, ReachingDefs, attr_stores
from sa.model import AnchorMissing, kwarg, names_in
from sa.typestate import forward, isinstance_facts
from sa.cfg import CFG as _CFG

DT = 'frappy.datatypes'
CLASSES = ['BoolType', 'IntRange', 'ScaledInteger', 'FloatRange', 'BLOBType', 'StringType', 'ArrayOf', 'TupleOf',
           'EnumType', 'StructOf']
METHODS = ['check_type', '__call__', 'validate', 'import_value']
LIMIT_PROPS = {'min', 'max', 'minbytes', 'maxbytes', 'minchars', 'maxchars', 'minlen', 'maxlen'}

prop_info(
    'C01',
    'Decided: the raw-value discipline of every SECoP datatype. R1 typestate: the offered value starts RAW; only kind-neutral '
    'operations (delegation to another datatype method, isinstance, identity / constant membership tests, formatting for an '
    'error message) are allowed on it until a dominating isinstance-or-raise guard, the numeric probe `value + 0.0`, or a '
    'successful delegation established its kind; coercions (int/float/str/list/tuple/dict, iteration, zip, unpacking, '
    'non-strict base64) are forbidden on a RAW/SIZED value and may-raise uses (len, subscript, attribute call, arithmetic, '
    'int()/round() of a float) need a kind-checked operand or a covering handler that ends in a bad-value error; R2 zip '
    'operands that determine a returned variable-length container are length-tied; R3 an int() coercion of a possibly '
    'fractional number is followed by a comparison with the uncoerced value on every path; R4 every raise in the scoped '
    'methods raises a BadValueError subclass; R5 containers call check_type before touching elements; R6 names used in a '
    'handler while building the error are definitely assigned on every path into the handler; R7 every declared limit '
    'property is compared on the validation path with a RangeError refusal reachable; R8 the within-tolerance branch '
    'returns a clamped value.',
    assumptions=['the numeric probe admits JSON numbers and bool; complex and numpy scalars are out of scope',
                 '`previous` is a validated value of the same datatype',
                 'the lazy_number_validation branch is a documented opt-in leniency and exempt'],
    not_decided='limit/tolerance arithmetic, the clamp result, grid rounding, idempotence of validate on concrete values.')

RANK = {'RAW': 0, 'SIZED': 1}
SIZED_KINDS = {'STR', 'BYTES', 'DICT', 'SEQ', 'SIZED'}
KIND_OF = {'bytes': 'BYTES', 'str': 'STR', 'dict': 'DICT', 'list': 'SEQ', 'tuple': 'SEQ', 'int': 'NUM', 'float': 'NUM', 'bool': 'NUM'}
NEUTRAL_FUNCS = {'isinstance', 'type', 'shortrepr', 'repr', 'id', 'callable', 'hash'}
COERCIONS = {'int', 'float', 'str', 'bytes', 'bool', 'list', 'tuple', 'set', 'dict', 'sorted', 'frozenset'}
ITER_FUNCS = {'zip', 'enumerate', 'iter', 'reversed', 'map', 'filter', 'sum', 'min', 'max', 'any', 'all'}
DELEGATES = {'validate', 'import_value', 'check_type', '__call__', 'export_value'}


def _join(a, b):
    la, ea = a
    lb, eb = b
    e = ea & eb
    if la == lb:
        return (la, e)
    ra, rb = RANK.get(la, 2), RANK.get(lb, 2)
    if ra == 2 and rb == 2:
        return ('SIZED' if la in SIZED_KINDS and lb in SIZED_KINDS else 'RAW', e)
    return ((la if ra < rb else lb), e)


def _seq_upgrade(state):
    level, excl = state
    if level == 'SIZED' and {'str', 'dict'} <= excl:
        return ('SEQ', excl)
    return state


def _in_lazy_branch(node):
    """inside the opt-in leniency: handler / try of the `if not generalConfig.lazy_number_validation: raise` idiom"""
    for a in ancestors(node):
        if isinstance(a, ast.Try):
            for st in a.body:
                if isinstance(st, ast.If) and 'lazy_number_validation' in src(st.test):
                    return True
        if isinstance(a, ast.If) and 'lazy_number_validation' in src(a.test) and not src(a.test).startswith('not '):
            return True
    return False


def _kind_guarded_in_expression(node, p):
    """the use sits in the branch of a conditional expression (or behind an `and`) whose test is `isinstance(<p>, <type>)`:
    `len(value) if isinstance(value, bytes) else None` - the kind is settled before the use is evaluated"""
    KINDS = {'bytes', 'str', 'int', 'float', 'bool', 'list', 'tuple', 'dict', 'bytearray'}

    def positive(t):
        return isinstance(t, ast.Call) and isinstance(t.func, ast.Name) and t.func.id == 'isinstance' and len(t.args) == 2 \
            and isinstance(t.args[0], ast.Name) and t.args[0].id == p and \
            all(isinstance(k, ast.Name) and k.id in KINDS for k in (t.args[1].elts if isinstance(t.args[1], ast.Tuple) else [t.args[1]]))
    child = node
    for a in ancestors(node):
        if isinstance(a, ast.stmt):
            break
        if isinstance(a, ast.IfExp):
            if child is a.body and positive(a.test):
                return True
            if child is a.orelse and isinstance(a.test, ast.UnaryOp) and isinstance(a.test.op, ast.Not) and positive(a.test.operand):
                return True
        if isinstance(a, ast.BoolOp) and isinstance(a.op, ast.And) and child in a.values and any(positive(v) for v in a.values[:a.values.index(child)]):
            return True
        child = a
    return False


_HELPER_SUMMARIES = {}


def _helper_summary(m, ci, g, idx):
    """what a helper (a module level function or another method of the datatype class) establishes about the value handed to
    it as its parameter number idx, on its normal ways out - the opt-in lazy_number_validation branch excepted"""
    key = (id(m), g.qualname, idx)
    if key in _HELPER_SUMMARIES:
        return _HELPER_SUMMARIES[key]
    _HELPER_SUMMARIES[key] = None      # recursion guard
    if len(g.node.args.args) <= idx:
        return None
    ma = MethodAnalysis(m, ci, g, {}, param_index=idx)
    states = []
    for node in ma.cfg.nodes:
        if isinstance(node.ast, ast.Return) and not _in_lazy_branch(node.ast):
            st = ma.outs.get(node.id, ma.ins.get(node.id, {})).get(ma.param) if hasattr(ma, 'outs') else None
            if st is not None:
                states.append(st)
    res = None
    for st in states:
        res = st if res is None else _join(res, st)
    _HELPER_SUMMARIES[key] = res
    return res


class MethodAnalysis:
    def __init__(self, m, ci, f, summaries, param_index=1):
        self.m, self.ci, self.f = m, ci, f
        self.summaries = summaries
        self.param = f.node.args.args[param_index].arg if len(f.node.args.args) > param_index else None
        self.cfg = _CFG(f.node, m, f.module, may_raise=_may_raise_ops)
        self.ins = {}
        if self.param:
            self._run()

    def _apply_call_effects(self, a, state, lvl_only=False):
        """effects of the calls contained in statement `a` on the state of the tracked value (normal completion)"""
        p = self.param
        for n in walk_local(a):
            if isinstance(n, ast.Call):
                args = [src(x) for x in n.args]
                if args[:1] == [p]:
                    fs = src(n.func)
                    if fs == 'self.check_type' and ('check_type', ) and self.summaries.get('check_type'):
                        state = _join_up(state, self.summaries['check_type'])
                    elif fs == 'self' and self.summaries.get('__call__'):
                        state = _join_up(state, self.summaries['__call__'])
                    elif fs.endswith('.validate') and fs.split('.')[0] in ('TupleOf', 'ArrayOf', 'StructOf') and len(n.args) > 1:
                        pass
                    elif fs == 'len':
                        if RANK.get(state[0], 2) == 0:
                            state = ('SIZED', state[1])
                        state = _seq_upgrade(state)
                    else:
                        g, idx = self._helper(n)
                        if g is not None and g is not self.f:
                            state = _join_up(state, _helper_summary(self.m, self.ci, g, idx))
                # TupleOf.validate(self, value, previous)
                if len(n.args) > 1 and src(n.args[1]) == p and src(n.func).endswith('.validate') and src(n.args[0]) == 'self':
                    state = ('VALID', state[1])
        return state

    def _helper(self, call):
        """(FuncInfo, index of the parameter that receives the first argument) of a helper defined in the repository"""
        fn = call.func
        if isinstance(fn, ast.Name):
            g = self.m.functions.get(f'{self.f.module.name}.{fn.id}')
            return (g, 0) if g is not None and g.cls is None else (None, 0)
        if isinstance(fn, ast.Attribute) and dotted(fn.value) == 'self' and self.ci is not None and fn.attr not in ('check_type', 'validate', 'import_value', 'export_value'):
            for q in self.m.mro(self.ci.qualname):
                c = self.m.classes.get(q)
                if c is not None and fn.attr in c.methods:
                    return c.methods[fn.attr], 1
        return None, 0

    def _run(self):
        p = self.param
        cfg = self.cfg

        def transfer(node, st):
            a = node.ast
            state = st.get(p, ('RAW', frozenset()))
            if a is None or isinstance(a, (ast.FunctionDef, ast.ClassDef)):
                return st
            if node.kind in ('for', 'with', 'handler'):
                return st
            # numeric probe
            if isinstance(a, ast.AugAssign) and src(a.target) == p and isinstance(a.value, ast.Constant) and isinstance(a.value.value, float):
                st[p] = ('NUM', state[1])
                return st
            if isinstance(a, ast.Assign) and isinstance(a.value, ast.BinOp) and isinstance(a.value.op, ast.Add) and src(a.value.left) == p \
                    and isinstance(a.value.right, ast.Constant) and isinstance(a.value.right.value, float):
                st[p] = ('NUM', state[1])
                return st
            if isinstance(a, (ast.Return, ast.Expr, ast.Assign)) and a.value is not None and not any(src(t) == p for t in getattr(a, 'targets', [])) and \
                    any(isinstance(x, ast.BinOp) and isinstance(x.op, ast.Add) and src(x.left) == p and isinstance(x.right, ast.Constant)
                        and isinstance(x.right.value, float) for x in ast.walk(a.value)):
                st[p] = ('NUM', state[1])       # `return value + 0.0`: evaluated successfully only for a number
                return st
            state = self._apply_call_effects(a, state)
            if isinstance(a, ast.Assign) and any(src(t) == p for t in a.targets) and isinstance(a.value, ast.Name) and a.value.id == p:
                st[p] = state
                return st
            if isinstance(a, ast.Assign) and any(src(t) == p for t in a.targets):
                v = a.value
                hs = None
                if isinstance(v, ast.Call) and v.args and src(v.args[0]) == p:
                    g, idx = self._helper(v)
                    if g is not None and g is not self.f:
                        hs = _helper_summary(self.m, self.ci, g, idx)
                if hs is not None and hs[0] == 'NUM' and any(isinstance(x, ast.Return) for x in ast.walk(g.node)):
                    state = ('NUM', state[1])   # `value = as_float(value)`: the helper hands back the number it made of it
                elif isinstance(v, ast.Call) and src(v.func) == 'self':
                    state = ('VALID', state[1])
                elif isinstance(v, ast.Call) and dotted(v.func) in ('int', 'float'):
                    state = ('NUM', state[1])
                elif isinstance(v, ast.Call) and dotted(v.func) in ('dict',):
                    state = ('DICT', state[1])
                else:
                    state = ('RAW', frozenset())
            st[p] = state
            return st

        def edge(node, label, sin, sout):
            if label == 'exc':
                return sin
            if node.kind == 'test' and label in 'TF':
                s = dict(sout)
                state = s.get(p, ('RAW', frozenset()))
                # the opt-in leniency (generalConfig.lazy_number_validation): on the side where it is switched on, text that
                # converts to a number is accepted by design - the value counts as a number from here on
                if isinstance(node.ast, ast.expr) and any(tv and src(a).endswith('lazy_number_validation') for a, tv in facts_on_side(node.ast, label == 'T')):
                    state = ('NUM', state[1])
                for e, kinds, isinst in isinstance_facts(node.ast, positive=(label == 'T')):
                    if e != p:
                        continue
                    if isinst:
                        ks = {KIND_OF.get(k.rpartition('.')[2], 'OTHER') for k in kinds}
                        if len(ks) == 1 and 'OTHER' not in ks:
                            state = (ks.pop(), state[1])
                        else:
                            state = ('RAW', state[1]) if RANK.get(state[0], 2) == 0 else state
                    else:
                        state = (state[0], state[1] | {k.rpartition('.')[2] for k in kinds})
                # `value in (0, 1)`: on the true branch the value equals one of the constants
                t = node.ast
                neg = False
                while isinstance(t, ast.UnaryOp) and isinstance(t.op, ast.Not):
                    neg = not neg
                    t = t.operand
                if isinstance(t, ast.Compare) and len(t.ops) == 1 and src(t.left) == p and isinstance(t.comparators[0], (ast.Tuple, ast.List, ast.Set)) \
                        and all(isinstance(e, ast.Constant) for e in t.comparators[0].elts):
                    positive = isinstance(t.ops[0], ast.In) != neg
                    if (label == 'T') == positive and isinstance(t.ops[0], (ast.In, ast.NotIn)):
                        state = ('NUM' if all(isinstance(e.value, (int, float)) for e in t.comparators[0].elts) else 'VALID', state[1])
                state = _seq_upgrade(state)
                s[p] = state
                return s
            return sout

        self.ins, self.outs = forward(cfg, {p: ('RAW', frozenset())}, transfer, edge, join=_join)

    def exit_state(self):
        s = self.ins.get(self.cfg.exit, {}).get(self.param)
        return s


def _join_up(state, summary):
    """after a successful delegation the value has at least the kind the callee establishes"""
    if summary is None:
        return state
    lvl, excl = summary
    cur_rank = RANK.get(state[0], 2)
    new_rank = RANK.get(lvl, 2)
    if new_rank > cur_rank or (new_rank == cur_rank == 2 and state[0] == 'SIZED'):
        return _seq_upgrade((lvl, state[1] | excl))
    return _seq_upgrade((state[0], state[1] | excl))


TRULY_TOTAL = {'isinstance', 'type', 'shortrepr', 'repr', 'id', 'callable', 'set', 'sorted', 'list', 'dict', 'tuple'}


def _may_raise_ops(node):
    """'operations' policy for C01: any call except a few truly total ones may raise"""
    if isinstance(node, ast.Raise):
        return None
    for n in walk_local(node):
        if isinstance(n, ast.Call):
            d = dotted(n.func)
            if d in ('isinstance', 'type', 'shortrepr', 'repr', 'id', 'callable'):
                continue
            return frozenset({'builtins.Exception'})
        if isinstance(n, (ast.Subscript, ast.BinOp, ast.Compare, ast.AugAssign, ast.For, ast.comprehension)):
            return frozenset({'builtins.Exception'})
    return None


def _errcls_names(f, name):
    """classes a local like `errcls = RangeError if ... else WrongTypeError` may denote"""
    res = []
    for v, st, how in local_assigns(f.node, name):
        if isinstance(v, ast.IfExp):
            res += [dotted(v.body.func if isinstance(v.body, ast.Call) else v.body), dotted(v.orelse.func if isinstance(v.orelse, ast.Call) else v.orelse)]
        elif isinstance(v, ast.Call):
            res.append(dotted(v.func))      # `problem = RangeError(...)` ... `raise problem`
        elif v is not None:
            res.append(dotted(v))
    return res


def _is_badvalue(m, f, d):
    if not d:
        return False
    r = m.resolve_name(f.module, d)
    if r and m.is_subclass(r, 'frappy.errors.BadValueError'):
        return True
    fac = m.functions.get(r or f'{f.module.name}.{d}')
    if fac is not None and fac.cls is None:
        # an error factory: a module level function that hands back a bad-value error object on every path
        rets = [x.value for x in body_walk(fac.node) if isinstance(x, ast.Return)]
        if rets and all(isinstance(v, ast.Call) and _is_badvalue(m, fac, dotted(v.func)) for v in rets):
            return True
    names = _errcls_names(f, d)
    return bool(names) and all(n and m.is_subclass(m.resolve_name(f.module, n) or n, 'frappy.errors.BadValueError') for n in names)


def _handler_raises_badvalue(m, f, h):
    rs = raised_names(h.body)
    return bool(rs) and all(_is_badvalue(m, f, d) for d, _ in rs if d is not None) and any(d is not None for d, _ in rs)


def _contained(m, f, node, classes):
    """node lies in a try whose handler covers `classes` and ends in a bad-value raise (possibly via an outer handler)"""
    for t, part in enclosing_tries(node):
        if part != 'body':
            continue
        for h in t.handlers:
            if handler_covers(h, classes, f.module):
                if _handler_raises_badvalue(m, f, h):
                    return True
                if not any(isinstance(x, ast.Raise) for st in h.body for x in walk_local(st)):
                    return True     # swallowed: nothing escapes here (what follows is judged on its own)
                # handler re-raises into an outer covering handler (lazy idiom)
                if any(isinstance(x, ast.Raise) and x.exc is None for st in h.body for x in walk_local(st)) or \
                        any(isinstance(x, ast.Try) for st in h.body for x in walk_local(st)):
                    inner = [x for st in h.body for x in walk_local(st) if isinstance(x, ast.Try)]
                    if inner and all(any(handler_covers(h2, classes, f.module) and _handler_raises_badvalue(m, f, h2) for h2 in it.handlers) for it in inner):
                        return True
                raises = [x for st in h.body for x in walk_local(st) if isinstance(x, ast.Raise)]
                if raises and all(x.exc is None for x in raises):
                    break           # the same exception goes on to the next enclosing try (helper form of the lazy idiom)
                return False
    return False


def _classify_use(n, p):
    """-> (category, detail, anchor node); category in neutral / coercion / mayraise / delegate"""
    par = getattr(n, 'parent', None)
    # skip error message formatting
    for a in ancestors(n):
        if isinstance(a, (ast.JoinedStr, ast.Raise)):
            return ('neutral', 'formatting', n)
        if isinstance(a, ast.stmt):
            break
    if isinstance(par, ast.Call):
        d = dotted(par.func)
        if n in par.args or any(k.value is n for k in par.keywords):
            if d in NEUTRAL_FUNCS:
                return ('neutral', d, par)
            if d == 'len':
                return ('mayraise', ('len', [TypeError]), par)
            if d == 'b64decode':
                v = kwarg(par, 'validate')
                if isinstance(v, ast.Constant) and v.value is True:
                    return ('mayraise', ('b64decode(validate=True)', [ValueError, TypeError]), par)
                return ('coercion', 'b64decode without validate=True', par)
            if d in COERCIONS:
                return ('coercion', f'{d}()', par)
            if d in ('min', 'max') and len(par.args) >= 2:
                return ('neutral', d, par)        # a comparison of several values (like `<`), not an iteration
            if d in ITER_FUNCS:
                return ('coercion', f'iteration by {d}()', par)
            if d == 'round':
                return ('mayraise', ('round', [TypeError]), par)
            fs = src(par.func)
            if fs == 'self' or fs.startswith('self.check_type') or (isinstance(par.func, ast.Attribute) and par.func.attr in DELEGATES) \
                    or fs.startswith('self.members') or (isinstance(par.func, ast.Name) and par.func.id not in COERCIONS):
                return ('delegate', fs, par)
            return ('neutral', fs, par)
        if par.func is n:
            return ('mayraise', ('call', [TypeError]), par)
    if isinstance(par, ast.Starred):
        return ('coercion', 'unpacking', par)
    if isinstance(par, ast.Attribute) and par.value is n:
        gp = getattr(par, 'parent', None)
        if isinstance(gp, ast.Call) and gp.func is par:
            return ('mayraise', (f'.{par.attr}()', [AttributeError]), gp)
        return ('mayraise', (f'.{par.attr}', [AttributeError]), par)
    if isinstance(par, ast.Subscript):
        if par.value is n:
            return ('mayraise', ('subscript', [TypeError, KeyError, IndexError]), par)
        return ('mayraise', ('used as key', [TypeError, KeyError]), par)
    if isinstance(par, ast.Compare):
        ops = par.ops
        if all(isinstance(o, (ast.Is, ast.IsNot)) for o in ops):
            return ('neutral', 'identity', par)
        if all(isinstance(o, (ast.In, ast.NotIn)) for o in ops) and par.left is n and all(isinstance(c, (ast.Tuple, ast.List, ast.Set)) and
                                                                                           all(isinstance(e, ast.Constant) for e in c.elts) for c in par.comparators):
            return ('neutral', 'membership in constants', par)
        if all(isinstance(o, (ast.In, ast.NotIn)) for o in ops) and n in par.comparators:
            return ('mayraise', ('membership test', [TypeError]), par)
        if all(isinstance(o, (ast.Eq, ast.NotEq)) for o in ops):
            return ('neutral', 'equality', par)
        return ('mayraise', ('ordering comparison', [TypeError]), par)
    if isinstance(par, (ast.BinOp, ast.UnaryOp)) or (isinstance(par, ast.AugAssign) and par.target is not n):
        return ('mayraise', ('arithmetic', [TypeError]), par)
    if isinstance(par, (ast.For, ast.comprehension)) and par.iter is n:
        return ('coercion', 'iteration', par)
    if isinstance(par, ast.Assign) and par.value is n and any(isinstance(t, (ast.Tuple, ast.List)) for t in par.targets):
        return ('coercion', 'tuple unpacking', par)
    if isinstance(par, ast.Return) or isinstance(par, (ast.Assign, ast.keyword, ast.Tuple, ast.List, ast.IfExp, ast.BoolOp, ast.If, ast.Dict)):
        return ('neutral', 'passed on', par)
    return ('neutral', type(par).__name__, par)


OK_FOR = {
    # use kind -> levels on which it is fine without a handler
    'len': SIZED_KINDS | {'VALID'},
    'iter': {'SEQ', 'VALID'},
    'dictiter': {'DICT', 'VALID'},
    'num': {'NUM', 'VALID'},
    'attr': {'DICT', 'STR', 'BYTES', 'VALID'},
}


def _analyse_class(m, cname):
    ci = m.cls(f'{DT}.{cname}')
    summaries = {}
    res = {}
    for meth in METHODS:
        f = None
        for q in m.mro(ci.qualname):
            c = m.classes.get(q)
            if c and meth in c.methods and q != f'{DT}.DataType':
                f = c.methods[meth]
                break
        if f is None:
            continue
        ma = MethodAnalysis(m, ci, f, summaries)
        res[meth] = ma
        if meth in ('check_type', '__call__') and ma.param:
            summaries[meth] = ma.exit_state()
    return ci, res


@rule('C01.R1', min_instances=25)
def raw_value_typestate(ctx):
    """typestate of the offered value in __call__/validate/import_value/check_type of every SECoP datatype"""
    m = ctx.m
    done = set()
    for cname in CLASSES:
        ci, res = _analyse_class(m, cname)
        for meth, ma in res.items():
            f = ma.f
            if f.qualname in done or not ma.param:
                continue
            done.add(f.qualname)
            ctx.analysed(f)
            p = ma.param
            cfg = ma.cfg
            for c in _derived_numeric_coercions(f, p):
                ok = _contained(m, f, c, [OverflowError, ValueError])
                ctx.check(ok, f'{f.qualname}:int() of a float expression of {p}', c, 'inside a handler covering OverflowError/ValueError that ends in a bad-value error',
                          f'`{src(c)}` raises OverflowError for +-inf and ValueError for nan, and no handler turns that into a bad-value error', f)
            for node in cfg.stmt_nodes():
                if node.id not in ma.ins or isinstance(node.ast, (ast.FunctionDef, ast.ClassDef)):
                    continue
                roots = [node.ast]
                if node.kind == 'for':
                    roots = []    # the iter expression has its own node
                if node.kind in ('with', 'handler'):
                    continue
                for root in roots:
                    for n in walk_local(root):
                        if not (isinstance(n, ast.Name) and n.id == p and isinstance(n.ctx, ast.Load)):
                            continue
                        if _in_lazy_branch(n):
                            continue
                        if _kind_guarded_in_expression(n, p):
                            continue
                        cat, detail, anchor = _classify_use(n, p)
                        state = ma.ins[node.id].get(p, ('RAW', frozenset()))
                        # the node's own effects that precede this use inside the same statement: a test like
                        # `len(value) < self.minlen` uses value once; effects are applied on the out edge.
                        level = state[0]
                        construct = f'{f.qualname}:{detail if isinstance(detail, str) else detail[0]} on {p}'
                        if cat in ('neutral', 'delegate'):
                            continue
                        if cat == 'coercion':
                            numeric = detail in ('int()', 'float()')
                            if detail.startswith('b64decode'):
                                ctx.bad(construct, anchor, f'`{src(anchor)}`: non-strict base64 decoding silently drops characters outside the '
                                        'alphabet ("!!!!" -> b\'\'): undecodable input is taken as other bytes', f)
                                continue
                            if numeric and level in ('NUM', 'VALID'):
                                # int()/float() of a number: may raise for inf/nan -> containment; integrality is R3
                                ok = _contained(m, f, anchor, [OverflowError, ValueError])
                                ctx.check(ok, construct, anchor, 'number coerced inside a handler ending in a bad-value error',
                                          f'`{src(anchor)}` on a float may raise OverflowError (inf) / ValueError (nan) and is not contained', f)
                                continue
                            if numeric and _roundtrip_checked(ma, anchor, p):
                                ctx.ok(construct, anchor, 'coercion is followed by a comparison with the uncoerced value (round-trip check)', f)
                                continue
                            need = {'iteration': 'iter', 'tuple unpacking': 'iter', 'unpacking': 'iter'}.get(detail, None)
                            if detail.startswith('iteration') or need == 'iter':
                                ok = level in OK_FOR['iter'] or (level == 'DICT')
                                if not ok and {'str', 'dict'} <= set(state[1]):
                                    # text and mappings are excluded: iterating anything else that is not a sequence raises TypeError,
                                    # nothing is reinterpreted silently (the length test that would make it SIZED lies on another path)
                                    if _contained(m, f, anchor, [TypeError]):
                                        ctx.ok(construct, anchor, 'text / mapping excluded, TypeError of a non-iterable is contained', f)
                                    else:
                                        ctx.undecided(construct, anchor, 'text / mapping excluded; the length test is not on every path to this iteration', f)
                                    continue
                            elif detail in ('dict()', 'set()', 'list()', 'tuple()', 'sorted()', 'frozenset()'):
                                ok = level in ('SEQ', 'DICT', 'VALID') if detail != 'dict()' else level in ('DICT', 'VALID')
                            else:
                                ok = level in ('NUM', 'STR', 'BYTES', 'VALID', 'DICT', 'SEQ')
                            ctx.check(ok, construct, anchor, f'value is {level} here',
                                      f'`{src(anchor)}` coerces the offered value while it is still {level} (no kind guard on this path): '
                                      'the coercion succeeds on the wrong kind - a JSON string is taken as a number / a list of characters, '
                                      'a fraction is truncated, a dict is taken as the list of its keys', f)
                            continue
                        # may-raise uses
                        what, classes = detail
                        fine = False
                        if what == 'len':
                            fine = level in OK_FOR['len']
                        elif what in ('arithmetic', 'ordering comparison', 'round'):
                            fine = level in OK_FOR['num']
                        elif what.startswith('.items') or what.startswith('.keys') or what.startswith('.values') or what.startswith('.get'):
                            fine = level in OK_FOR['dictiter']
                        elif what.startswith('.'):
                            fine = level in OK_FOR['attr']
                        elif what == 'membership test':
                            fine = level in SIZED_KINDS | {'VALID'}
                        elif what == 'subscript':
                            fine = False
                        elif what == 'b64decode(validate=True)':
                            fine = False
                        if fine:
                            ctx.ok(construct, anchor, f'value is {level} here', f)
                            continue
                        ok = _contained(m, f, anchor, classes)
                        ctx.check(ok, construct, anchor, 'inside a handler covering ' + '/'.join(c.__name__ for c in classes) + ' that ends in a bad-value error',
                                  f'`{src(anchor)}` is applied while the offered value is still {level} and no handler covering '
                                  + '/'.join(c.__name__ for c in classes) + ' turns the failure into a bad-value error: the wrong kind of input fails '
                                  'with another kind of exception', f)


def _derived_numeric_coercions(f, p):
    """int(...) / round(...) calls whose argument is an arithmetic expression of the value (not the bare name)"""
    out = []
    for c in calls_in(f.node):
        if dotted(c.func) == 'int' and c.args and not isinstance(c.args[0], ast.Name) and p in names_in(c.args[0]) and not _in_lazy_branch(c):
            if any(isinstance(x, (ast.BinOp,)) for x in ast.walk(c.args[0])):
                out.append(c)
    return out


def _roundtrip_checked(ma, call, p):
    """r = int(x) ... `if <isinstance(x, str) or> r != x: raise` before r is returned"""
    st = enclosing_stmt(call)
    if not (isinstance(st, ast.Assign) and isinstance(st.targets[0], ast.Name)):
        return False
    r = st.targets[0].id
    cfg = ma.cfg
    tests = []
    for n in cfg.nodes:
        if n.kind == 'test':
            for l, op, rr in [x for sub in ast.walk(n.ast) if isinstance(sub, ast.Compare) for x in compare_ops(sub)]:
                if op in ('!=', '==') and {l, rr} == {r, p}:
                    tests.append(n.id)
    if not tests:
        return False
    return cfg.all_paths_pass(cfg.node_of(call), [cfg.exit], tests, exc=False)


@rule('C01.R2', min_instances=1)
def no_truncating_zip(ctx):
    """zip() operands of a variable-length container must be length-tied"""
    m = ctx.m
    ci, res = _analyse_class(m, 'ArrayOf')
    n = 0
    for meth, ma in res.items():
        f = ma.f
        for c in ast.walk(f.node):
            if isinstance(c, ast.Call) and dotted(c.func) == 'zip' and len(c.args) >= 2:
                n += 1
                ctx.analysed(f)
                ops = [src(a) for a in c.args]
                want = {f'len({ops[0]})', f'len({ops[1]})'}

                def equal_len(atom, truth, want=want):
                    return any(op in ('==', '!=') and {l, r} == want and (op == '==') == truth for l, op, r in compare_ops(atom))
                cfgz = ma.cfg
                tied = bool(set(cfgz.node_of(c))) and set(cfgz.node_of(c)) <= sides_with_fact(cfgz, equal_len)
                ctx.check(tied, f'{f.qualname}:zip({", ".join(ops)}) is length-tied', c, 'guarded by len(a) == len(b)',
                          f'`{src(c)}` stops at the shorter operand: validating [1, 2, 3] while the parameter currently holds one element '
                          'returns (1,) - the offered value is silently cut to the length of the previous value', f)
    if not n:
        ctx.ok(f'{ci.qualname}:no zip over value and previous', ci.node, 'no zip of two variable-length operands')


@rule('C01.R3', min_instances=1)
def integrality(ctx):
    """int() of a possibly fractional number is followed by a comparison coerced vs. uncoerced on every path to the return"""
    m = ctx.m
    for cname in ('IntRange',):
        ci, res = _analyse_class(m, cname)
        ma = res.get('__call__')
        if ma is None:
            raise AnchorMissing('IntRange.__call__ not found')
        f = ma.f
        ctx.analysed(f)
        cfg = ma.cfg
        ints = [c for c in calls_in(f.node) if dotted(c.func) == 'int' and not _in_lazy_branch(c)]
        tests = []
        for n in cfg.nodes:
            if n.kind != 'test':
                continue
            for l, op, r in compare_ops(n.ast):
                if op in ('==', '!=') and any(x.startswith(('round(', 'int(')) for x in (l, r)):
                    # the side on which coerced and uncoerced value DIFFER never completes normally
                    if side_never_completes(cfg, n.id, 'T' if op == '!=' else 'F'):
                        tests.append(n.id)
        for c in ints:
            ok = bool(tests) and cfg.all_paths_pass(cfg.node_of(c), [cfg.exit], tests, exc=False)
            ctx.check(ok, f'{f.qualname}:integrality test after int()', c, '`if round(fvalue) != fvalue: raise` on every path to the return',
                      f'after `{src(c)}` a path reaches the return without comparing the coerced with the uncoerced value: 2.7 is truncated to 2', f)


@rule('C01.R4', min_instances=20)
def error_class_totality(ctx):
    """every raise in the scoped methods raises a BadValueError subclass"""
    m = ctx.m
    done = set()
    for cname in CLASSES:
        ci, res = _analyse_class(m, cname)
        for meth, ma in res.items():
            f = ma.f
            if f.qualname in done:
                continue
            done.add(f.qualname)
            ctx.analysed(f)
            for n in body_walk(f.node):
                if not isinstance(n, ast.Raise):
                    continue
                if n.exc is None:
                    # bare re-raise: must be caught by an enclosing handler of the same function that ends in a bad-value error
                    ok = any(part == 'body' and any(_handler_raises_badvalue(m, f, h) and handler_covers(h, [Exception], f.module) for h in t.handlers)
                             for t, part in enclosing_tries(n))
                    ctx.check(ok, f'{f.qualname}:bare raise is re-wrapped', n, 'caught by an outer handler raising a bad-value error',
                              'a bare `raise` lets the original (non bad-value) exception escape', f)
                    continue
                e = n.exc.func if isinstance(n.exc, ast.Call) else n.exc
                d = dotted(e)
                # a ValueError raised inside a try whose handler re-wraps it is an internal signal
                internal = any(part == 'body' and any(handler_covers(h, [py_exc_or(d)], f.module) and _handler_raises_badvalue(m, f, h) for h in t.handlers)
                               for t, part in enclosing_tries(n)) if py_exc_or(d) else False
                ctx.check(_is_badvalue(m, f, d) or internal, f'{f.qualname}:raise {d}', n, 'a BadValueError subclass',
                          f'`{src(n)}` raises {d}, which is not a bad-value error (WrongTypeError / RangeError)', f)


def py_exc_or(d):
    from sa.lib import py_exc
    return py_exc(d) if d else None


@rule('C01.R5', min_instances=6)
def container_recursion(ctx):
    """check_type dominates every element access of the containers; check_type has a kind test"""
    m = ctx.m
    for cname in ('ArrayOf', 'TupleOf', 'StructOf'):
        ci, res = _analyse_class(m, cname)
        for meth in ('__call__', 'validate', 'import_value'):
            ma = res.get(meth)
            if ma is None:
                continue
            f = ma.f
            ctx.analysed(f)
            cfg = ma.cfg
            ct = [i for c in calls_in(f.node) if src(c.func) == 'self.check_type' for i in cfg.node_of(c)]
            ct += [i for c in calls_in(f.node) if src(c.func).endswith('.validate') and c.args and src(c.args[0]) == 'self' for i in cfg.node_of(c)]
            elems = [n for n in ast.walk(f.node) if isinstance(n, (ast.comprehension, ast.For)) and ma.param in names_in(n.iter)]
            ok = bool(ct) and all(cfg.dominates(ct, i) for e in elems for i in cfg.node_of(e))
            ctx.check(ok or not elems, f'{f.qualname}:check_type before element access', f.node, 'check_type dominates the element loop',
                      f'{cname}.{meth} touches the elements of the offered value without calling check_type first: a bare number raises '
                      'TypeError, a wrong arity is silently cut by zip()', f)
        ct = res.get('check_type')
        if ct is None:
            ctx.bad(f'{ci.qualname}:check_type exists', ci.node, 'container without check_type')
            continue
        st = ct.exit_state()
        good = st is not None and (st[0] in ('SEQ', 'DICT', 'VALID') or {'str', 'dict'} <= set(st[1]))   # text and mappings excluded on every path
        ctx.check(good, f'{ct.f.qualname}:establishes the container kind', ct.f.node, f'value is {st[0] if st else None} after check_type',
                  f'after check_type the offered value is only known to be {st[0] if st else "RAW"} (excluded kinds: {sorted(st[1]) if st else []}): '
                  'a len() test alone also admits strings, bytes and dicts - "abc" becomes (\'a\', \'b\', \'c\'), a dict becomes the tuple of its keys', ct.f)


@rule('C01.R6', min_instances=5)
def handlers_are_total(ctx):
    """names used in a handler are definitely assigned on every path into it"""
    m = ctx.m
    done = set()
    nobl = 0
    for cname in CLASSES:
        ci, res = _analyse_class(m, cname)
        for meth, ma in res.items():
            f = ma.f
            if f.qualname in done or not ma.param:
                continue
            done.add(f.qualname)
            handlers = [n for n in body_walk(f.node) if isinstance(n, ast.ExceptHandler)]
            if not handlers:
                continue
            ctx.analysed(f)
            cfg = ma.cfg
            # exceptional edges out of statements that can not fail given the typestate are infeasible
            safe = set()
            for node in cfg.stmt_nodes():
                st = ma.ins.get(node.id, {}).get(ma.param)
                if st is None or node.ast is None:
                    continue
                a = node.ast
                risky = False
                for n in walk_local(a):
                    if isinstance(n, ast.Call):
                        d = dotted(n.func)
                        if d in ('isinstance', 'type', 'shortrepr', 'repr', 'dict', 'set', 'list', 'tuple', 'ImmutableDict') and not n.args:
                            continue
                        if isinstance(n.func, ast.Attribute) and src(n.func.value) == ma.param and n.func.attr in ('items', 'keys', 'values') and st[0] in ('DICT', 'VALID'):
                            continue
                        if d in ('dict', 'set', 'list') and all(isinstance(x, (ast.Name, ast.BoolOp, ast.Dict)) for x in n.args) and ma.param not in {src(x) for x in n.args}:
                            risky = risky or False
                            continue
                        risky = True
                    elif isinstance(n, (ast.Subscript, ast.BinOp, ast.Compare, ast.comprehension)):
                        risky = True
                if not risky:
                    safe.add(node.id)
            rd = _RDUndef(cfg, f.node, safe)
            for h in handlers:
                used = {n.id for st in h.body for n in walk_local(st) if isinstance(n, ast.Name) and isinstance(n.ctx, ast.Load)}
                local_names = {nm for nm in used if any(True for _ in local_assigns(f.node, nm)) and nm != h.name}
                for nm in sorted(local_names):
                    nobl += 1
                    uses = [enclosing_stmt(n) for st in h.body for n in walk_local(st) if isinstance(n, ast.Name) and n.id == nm and isinstance(n.ctx, ast.Load)]
                    undefined = any(rd.maybe_undefined(u, nm) for u in uses)
                    ctx.check(not undefined, f'{f.qualname}:handler uses `{nm}`', h, 'definitely assigned on every path into the handler',
                              f'the handler `except {src(h.type) if h.type else ""}` uses `{nm}`, which is unassigned when the exception is raised '
                              'before the first assignment (e.g. by `.items()` on a non-mapping): UnboundLocalError instead of a bad-value error', f)
    if nobl == 0:
        raise AnchorMissing('no handler using locals found in the datatype methods')


class _RDUndef(ReachingDefs):
    """reaching definitions with an explicit 'undefined' pseudo definition for locals, ignoring infeasible exc edges"""

    def __init__(self, cfg, funcnode, safe_nodes):
        from sa.typestate import forward as _fw
        self.cfg = cfg
        self.func = funcnode
        self.defs = {}
        init = {}
        a = funcnode.args
        params = {x.arg for x in a.posonlyargs + a.args + a.kwonlyargs + [y for y in (a.vararg, a.kwarg) if y]}
        names = set()
        self._node_defs = {}
        for n in cfg.nodes:
            if n.ast is None:
                continue
            lst = []
            for name, value, how in self._defs_of(n):
                did = len(self.defs)
                self.defs[did] = (name, value, n.ast, how)
                lst.append((name, did))
                names.add(name)
            self._node_defs[n.id] = lst
        for nm in names - params:
            init[nm] = frozenset({-1})
        for nm in params:
            init[nm] = frozenset({-2})

        def transfer(node, state):
            for name, did in self._node_defs.get(node.id, []):
                state[name] = frozenset({did})
            return state

        def edge(node, label, sin, sout):
            if label == 'exc':
                return None if node.id in safe_nodes else sin
            return sout
        self.ins, self.outs = _fw(cfg, init, transfer, edge, join=lambda x, y: x | y)

    def maybe_undefined(self, stmt, name):
        for nid in self.cfg.node_of(stmt):
            if -1 in self.ins.get(nid, {}).get(name, ()):
                return True
        return False


@rule('C01.R7', min_instances=8)
def declared_limits_enforced(ctx):
    """each limit property is compared on the validation path and a RangeError / arity WrongTypeError is reachable"""
    m = ctx.m
    for cname in CLASSES:
        ci = m.cls(f'{DT}.{cname}')
        props = {a for q in m.mro(ci.qualname) for a, e in (m.classes[q].assigns.items() if q in m.classes else [])
                 if a in LIMIT_PROPS and isinstance(e, ast.Call) and dotted(e.func) == 'Property'}
        if not props:
            continue
        _, res = _analyse_class(m, cname)
        for prop in sorted(props):
            found = False
            for meth in ('__call__', 'validate', 'check_type'):
                ma = res.get(meth)
                if ma is None:
                    continue
                cfg = ma.cfg
                for n in cfg.nodes:
                    if n.kind == 'test' and isinstance(n.ast, ast.expr) and f'self.{prop}' in src(resolved(n.ast, ma.f.node)) and any(isinstance(x, ast.Compare) for x in ast.walk(n.ast)):
                        reach = cfg.reach([n.id])
                        for i in reach:
                            a = cfg.nodes[i].ast
                            if isinstance(a, ast.Raise) and a.exc is not None:
                                d = dotted(a.exc.func if isinstance(a.exc, ast.Call) else a.exc)
                                if d in ('RangeError', 'WrongTypeError') or _is_badvalue(m, ma.f, d):
                                    found = True
            if not found:
                # limits read by a computed name (`getattr(self, propname)` driven by a table of rules): which limit a comparison
                # is about is not visible to this rule
                dyn = [c for meth in ('__call__', 'validate', 'check_type') if res.get(meth) is not None for c in calls_in(res[meth].f.node)
                       if dotted(c.func) == 'getattr' and len(c.args) >= 2 and src(c.args[0]) == 'self' and not isinstance(c.args[1], ast.Constant)]
                if dyn:
                    ctx.undecided(f'{ci.qualname}:limit {prop} enforced', dyn[0], f'`{src(dyn[0])}`: the limits are read by a computed attribute name', ma.f if ma else None)
                    continue
            ctx.check(found, f'{ci.qualname}:limit {prop} enforced', ci.node, f'self.{prop} is compared and a refusal is reachable',
                      f'the declared limit `{prop}` is never compared on the validation path (__call__/validate/check_type): values outside the '
                      'described limit are accepted')


@rule('C01.R8', min_instances=2)
def tolerance_branch_clamps(ctx):
    """FloatRange.validate / ScaledInteger.validate accept a value that lies outside the limits by not more than the resolution;
    what they return then is clamp(min, value, max) with the LIVE limits.  A return of the (converted) value itself is fine
    only where the tests established that it lies inside the exact limits"""
    m = ctx.m
    for cname in ('FloatRange', 'ScaledInteger'):
        f = m.method(f'{DT}.{cname}', 'validate', inherited=False)
        ctx.analysed(f)
        cfg = CFG(f.node, m, f.module)
        vnames = _value_names(f)

        def exact(prop, a, tv):
            if not tv:
                return False
            for lc in _limit_comparisons(resolved(a, f.node), {prop}):
                if lc.exact and lc[1] == 'accepting':
                    return True
            return False
        inside = sides_with_fact(cfg, lambda a, tv: exact('min', a, tv)) & sides_with_fact(cfg, lambda a, tv: exact('max', a, tv))
        tolerant = any(not lc.exact for t in cfg.nodes if t.kind == 'test' and isinstance(t.ast, ast.expr)
                       for lc in _limit_comparisons(resolved(t.ast, f.node), {'min', 'max'}))
        rets = [n for n in body_walk(f.node) if isinstance(n, ast.Return) and n.value is not None and (names_in(n.value) & vnames or isinstance(n.value, ast.Call))]
        if not rets or not tolerant:
            ctx.undecided(f'{f.qualname}:tolerance branch', f.node, 'no tolerance comparison / no return of the value found', f)
            continue
        for r in rets:
            v = resolved(r.value, f.node)
            key = f'{f.qualname}:tolerance branch returns a clamped value'
            if set(cfg.ids(r)) <= inside:
                ctx.ok(key, r, f'`{src(r)}` lies where the value was found inside the exact limits', f)
                continue
            isclamp = isinstance(v, ast.Call) and dotted(v.func) == 'clamp' and len(v.args) == 3
            if isclamp:
                lo, hi = src(v.args[0]), src(v.args[2])
                # the bounds have to be computed from the LIVE limits (self.min / self.max), not from something remembered at
                # construction time (the limits are properties that configuration overrides change)
                for nm in [x for x in (v.args[0], v.args[2]) if isinstance(x, ast.Name)]:
                    for val, st, how in local_assigns(f.node, nm.id):
                        if how in ('unpack', 'assign') and val is not None:
                            lo += ' ' + src(val)
                            hi += ' ' + src(val)
                if 'self.min' in lo and 'self.max' in hi:
                    ctx.ok(key, r, src(v), f)
                else:
                    ctx.bad(key, r, f'`{src(v)}` clamps with bounds that are not computed from self.min / self.max '
                            f'at the time of the call ({lo.strip() or "?"} / {hi.strip() or "?"}): limits changed after construction (a configured max, a parameter override) '
                            'are checked by the range test but the value is clamped to the OLD limits - a value outside the declared set is returned', f)
                continue
            nest = isinstance(v, ast.Call) and dotted(v.func) in ('min', 'max') and any(isinstance(x, ast.Call) and dotted(x.func) in ('min', 'max') for x in v.args)
            if nest:
                ctx.ok(key, r, src(v), f)
            elif isinstance(v, ast.Call) and not (names_in(v) & vnames):
                ctx.bad(key, r, f'the within-tolerance branch returns `{src(v)}`, which does not depend '
                        'on the offered value at all: every accepted value is replaced by the same one', f)
            elif isinstance(v, (ast.Call, ast.IfExp)):
                ctx.undecided(key, r, f'`{src(v)}` not a recognised clamp form', f)
            else:
                ctx.bad(key, r, f'`{src(r)}` hands the value back unclamped where it may lie outside the limits by up to the resolution: '
                        'a value just outside the limits is returned although it is not in the value set', f)


def _value_names(f):
    """the value parameter of a validation method and the locals computed from it (transitively)"""
    a = f.node.args.args
    names = {a[1].arg} if len(a) > 1 else set()
    for _ in range(4):
        for n in body_walk(f.node):
            if isinstance(n, ast.Assign) and names_in(n.value) & names:
                names |= {t.id for t in n.targets if isinstance(t, ast.Name)}
    return names


@rule('C01.R14', min_instances=4)
def booleans_and_struct_members(ctx):
    """BoolType.__call__ accepts exactly the members of (0, 1) (False == 0, True == 1) and returns a real bool; StructOf.__call__
    / validate convert EVERY member that is given (not None) through its member type and store it under its key - a member
    that is skipped keeps the unvalidated (or the previous) value inside a 'validated' struct"""
    m = ctx.m
    ci, res = _analyse_class(m, 'BoolType')
    ma = res.get('__call__')
    if ma is None:
        raise AnchorMissing('BoolType.__call__ not found')
    f, p = ma.f, ma.param
    ctx.analysed(f)
    members = None
    for t in ma.cfg.nodes:
        if t.kind == 'test':
            for l, op, r in compare_ops(t.ast):
                if op == 'in' and l == p:
                    for x in ast.walk(t.ast):
                        if isinstance(x, (ast.Tuple, ast.List, ast.Set)) and all(isinstance(e, ast.Constant) for e in x.elts):
                            members = [e.value for e in x.elts]
    if members is None:
        ctx.undecided(f'{f.qualname}:accepted set is (0, 1)', f.node, 'no membership test of the value in a constant tuple', f)
    else:
        ok = len(members) == 2 and {bool(x) for x in members} == {False, True} and all(x in (0, 1) for x in members)
        ctx.check(ok, f'{f.qualname}:accepted set is (0, 1)', f.node, f'value in {tuple(members)}',
                  f'the accepted set is {tuple(members)}: one of the two booleans is refused (or a non-boolean is accepted)', f)
    for r in [n for n in body_walk(f.node) if isinstance(n, ast.Return) and n.value is not None]:
        v = r.value
        ok = (isinstance(v, ast.Call) and dotted(v.func) == 'bool') or (isinstance(v, ast.Constant) and isinstance(v.value, bool)) or \
            (isinstance(v, ast.Compare))
        raw = isinstance(v, ast.Name) and (v.id == p or any(isinstance(o, ast.Name) and o.id.startswith('<param') for o in origins(v, f.node)))
        if ok or raw:
            ctx.check(ok, f'{f.qualname}:returns a bool', r, src(v), f'`return {src(v)}` hands the offered 0 / 1 (an int) on instead of a bool: '
                      'the validated value is not in canonical form (it exports as 1 instead of true)', f)
        else:
            ctx.undecided(f'{f.qualname}:returns a bool', r, f'`{src(v)}`: not the offered value itself, not a recognised bool form', f)
    ci, res = _analyse_class(m, 'StructOf')
    for meth, conv in (('__call__', None), ('validate', 'validate')):
        ma = res.get(meth)
        if ma is None:
            raise AnchorMissing(f'StructOf.{meth} not found')
        f, cfg = ma.f, ma.cfg
        ctx.analysed(f)
        loops = [n for n in body_walk(f.node) if isinstance(n, ast.For) and ma.param in names_in(n.iter) and isinstance(n.target, ast.Tuple) and len(n.target.elts) == 2]
        if not loops:
            ctx.undecided(f'{f.qualname}:every given member is converted', f.node, 'no loop over the items of the value', f)
            continue
        for loop in loops:
            k, v = (src(e) for e in loop.target.elts)
            stores = [n for n in walk_local(loop) if isinstance(n, ast.Assign) and isinstance(n.targets[0], ast.Subscript) and src(n.targets[0].slice) == k]
            good = []
            for st in stores:
                c = st.value
                fn = c.func if isinstance(c, ast.Call) else None
                if conv is not None and isinstance(fn, ast.Attribute) and fn.attr == conv:
                    fn = fn.value
                elif conv is not None:
                    fn = None
                if fn is not None and src(fn) == f'self.members[{k}]' and len(c.args) >= 1 and src(c.args[0]) == v:
                    good.append(st)
            key = f'{f.qualname}:every given member is converted'
            if not good:
                ctx.bad(key, loop, f'no `result[{k}] = self.members[{k}]{"." + conv if conv else ""}({v})` in the loop over the members: members are taken over '
                        'without validation (or dropped)', f)
                continue
            given = sides_with_fact(cfg, lambda a, tv: any(l == v and ((op == 'isnot' and r == 'None' and tv) or (op == 'is' and r == 'None' and not tv))
                                                           for l, op, r in compare_ops(a)))
            absent = sides_with_fact(cfg, lambda a, tv: any(l == v and ((op == 'is' and r == 'None' and tv) or (op == 'isnot' and r == 'None' and not tv))
                                                            for l, op, r in compare_ops(a)))
            for st in good:
                ids = set(cfg.ids(st))
                # every iteration with a value passes the store: from the loop head the next head / the loop exit is reached
                # without the store only on the side where the member is None
                head = cfg.ids(loop)
                first = [b for h in head for b, lab in cfg.succ[h] if lab == 'T']
                def is_none(a, tv):
                    return any(l == v and ((op == 'is' and r == 'None' and tv) or (op == 'isnot' and r == 'None' and not tv)) for l, op, r in compare_ops(a))
                ok = not (ids & absent) and paths_need_fact(cfg, [x for x in first if x not in ids], head, is_none, avoid=ids)
                ctx.check(ok, key, st, f'`{src(st)}` for every member that is not None',
                          f'`{src(st)}` is not executed for every given member (it lies on the side where the member is None, or an iteration with a '
                          'value can skip it): the struct that is returned as validated holds unvalidated or stale members', f)


@rule('C01.R15', min_instances=1)
def enum_lookup_does_not_read_text_as_a_number(ctx):
    """EnumType hands the RAW value to the member table (`self._enum[value]` / `self._enum(value)`); the lookup it reaches in
    frappy/lib/enum.py must not turn a string into a number (`int(key)`) - a JSON string that is no member NAME would then be
    taken as a member CODE"""
    m = ctx.m
    ci, res = _analyse_class(m, 'EnumType')
    ecls = m.classes.get('frappy.lib.enum.Enum')
    if ecls is None:
        raise AnchorMissing('frappy.lib.enum.Enum not found')
    n = 0
    for meth in ('__call__', 'validate', 'import_value'):
        ma = res.get(meth)
        if ma is None or not ma.param:
            continue
        f, p = ma.f, ma.param
        for node in body_walk(f.node):
            callee = None
            if isinstance(node, ast.Call) and src(node.func) == 'self._enum' and node.args and p in names_in(node.args[0]):
                callee = '__call__'
            elif isinstance(node, ast.Call) and src(node.func) == 'self._enum.get' and node.args and p in names_in(node.args[0]):
                callee = 'get'
            elif isinstance(node, ast.Subscript) and src(node.value) == 'self._enum' and p in names_in(node.slice):
                callee = '__getitem__'
            if callee is None:
                continue
            n += 1
            ctx.analysed(f)
            todo, seen = [callee], set()
            verdict = True
            while todo:
                name = todo.pop()
                if name in seen:
                    continue
                seen.add(name)
                g = ecls.methods.get(name)
                if g is None:
                    continue        # dict's own lookup: exact key match
                ctx.analysed(g)
                key = g.node.args.args[1].arg if len(g.node.args.args) > 1 else None
                gcfg = CFG(g.node, m, g.module)
                not_text = sides_with_fact(gcfg, lambda a, tv: isinstance(a, ast.Call) and dotted(a.func) == 'isinstance' and len(a.args) == 2 and
                                           src(a.args[0]) == key and (('str' in names_in(a.args[1])) != tv))
                for c in calls_in(g.node):
                    if dotted(c.func) in ('int', 'float') and c.args and key in names_in(c.args[0]) and not set(gcfg.node_of(c)) <= not_text:
                        verdict = False
                        ctx.bad(f'{f.qualname}:member lookup does not read text as a number', c,
                                f'`{src(node)}` reaches {g.qualname}, where `{src(c)}` converts the key although it may be a string: a JSON string '
                                'such as "5" that is no member name is accepted as the member with code 5', g)
                    if isinstance(c.func, ast.Attribute) and dotted(c.func.value) == 'self' and c.func.attr in ecls.methods:
                        todo.append(c.func.attr)
                for sub in body_walk(g.node):
                    if isinstance(sub, ast.Subscript) and src(sub.value) == 'self':
                        todo.append('__getitem__')
            if verdict:
                ctx.ok(f'{f.qualname}:member lookup does not read text as a number', node, f'`{src(node)}`: exact lookup by name or code', f)
    if not n:
        raise AnchorMissing('lookup of the raw value in self._enum not found in EnumType')


@rule('C01.R3b', min_instances=1)
def int_of_the_value_itself(ctx):
    """IntRange.__call__: int() is applied to the offered value, not to its float probe (a float can not hold integers above 2**53)"""
    m = ctx.m
    ci, res = _analyse_class(m, 'IntRange')
    ma = res.get('__call__')
    if ma is None:
        raise AnchorMissing('IntRange.__call__ not found')
    f, p = ma.f, ma.param
    ctx.analysed(f)
    n = 0
    for c in calls_in(f.node):
        if dotted(c.func) == 'int' and c.args and not _in_lazy_branch(c):
            n += 1
            a = c.args[0]
            floaty = False
            for o in origins(a, f.node) if isinstance(a, ast.Name) and a.id != p else []:
                if isinstance(o, ast.BinOp) and any(isinstance(x, ast.Constant) and isinstance(x.value, float) for x in (o.left, o.right)):
                    floaty = True
                if isinstance(o, ast.Call) and dotted(o.func) == 'float':
                    floaty = True
                # the result of a helper that makes a float of the value (its returns are float(...) / `x + 0.0`)
                if isinstance(o, ast.Call) and isinstance(o.func, ast.Name) and f'{f.module.name}.{o.func.id}' in m.functions:
                    h = m.functions[f'{f.module.name}.{o.func.id}']
                    for r in [x for x in body_walk(h.node) if isinstance(x, ast.Return) and x.value is not None]:
                        for ho in (origins(r.value, h.node) if isinstance(r.value, ast.Name) else [r.value]):
                            if (isinstance(ho, ast.Call) and dotted(ho.func) == 'float') or \
                                    (isinstance(ho, ast.BinOp) and any(isinstance(x, ast.Constant) and isinstance(x.value, float) for x in (ho.left, ho.right))):
                                floaty = True
            ctx.check(not floaty, f'{f.qualname}:int() of the value itself', c, f'int({src(a)})',
                      f'`{src(c)}` converts the float copy made for the whole-number test: integers above 2**53 (64 bit ids, Int64/UInt64 limits) '
                      'silently change their value (2**63 - 1 becomes 2**63, which is even outside the declared range)', f)
    if not n:
        ctx.undecided(f'{f.qualname}:int() of the value itself', f.node, 'no int() conversion found', f)
    # canonical form: what is returned IS the result of that conversion on every path (a whole-number float 3.0, or True, handed
    # through unconverted exports as 3.0 / true instead of 3)
    cfg = ma.cfg
    rd = ReachingDefs(cfg, f.node)
    for r in [x for x in body_walk(f.node) if isinstance(x, ast.Return) and x.value is not None and not _in_lazy_branch(x)]:
        oo = rd.origins_at(r, r.value)
        ok = bool(oo) and all(isinstance(o, ast.Call) and dotted(o.func) == 'int' for o in oo)
        ctx.check(ok, f'{f.qualname}:returns the converted integer', r, 'every value reaching the return is an int(...) result',
                  f'`{src(r)}` can hand the offered value through unconverted ({[src(o) for o in oo if not (isinstance(o, ast.Call) and dotted(o.func) == "int")]}): a whole-number '
                  'float or a bool is returned as it came in - the validated value is not in canonical form (exported as 3.0 / true instead of 3)', f)


@rule('C01.R7b', min_instances=1)
def limits_not_disabled_by_truthiness(ctx):
    """a limit comparison must not be conjoined with a truthiness test of the limit itself (a limit of 0 is a limit)"""
    m = ctx.m
    for cname in CLASSES:
        ci, res = _analyse_class(m, cname)
        for meth in ('__call__', 'validate', 'check_type'):
            ma = res.get(meth)
            if ma is None:
                continue
            f = ma.f
            for n in body_walk(f.node):
                if isinstance(n, (ast.If, ast.IfExp)):
                    for b in [x for x in ast.walk(n.test) if isinstance(x, ast.BoolOp) and isinstance(x.op, ast.And)]:
                        props = {x.attr for v in b.values for x in ast.walk(v) if isinstance(x, ast.Attribute) and x.attr in LIMIT_PROPS and dotted(x.value) == 'self'}
                        if not props or not any(isinstance(v, ast.Compare) and any(isinstance(o, (ast.Lt, ast.LtE, ast.Gt, ast.GtE)) for o in v.ops) for v in b.values):
                            continue
                        bare = [v for v in b.values if isinstance(v, ast.Attribute) and v.attr in LIMIT_PROPS and dotted(v.value) == 'self']
                        ctx.analysed(f)
                        ctx.check(not bare, f'{f.qualname}:limit test `{src(b)[:60]}` not disabled by truthiness', n, 'no truthiness conjunct',
                                  f'`{src(b)}`: the comparison is skipped when `{src(bare[0]) if bare else ""}` is 0 - a type whose limit is 0 '
                                  '(e.g. an array with maxlen == 0) accepts values of any size', f)
    ctx.ok('limit comparisons are not conjoined with the truth value of the limit (scan of all validation methods)', None,
           'nested forms are covered by the cross-cutting C01.R7c')


def _eval_for_nan(test, names):
    """truth value of a condition when the variables in `names` hold NaN: every ordering / equality comparison with NaN is
    false (`!=` is true); True / False / None (not determined by NaN-ness)"""
    if isinstance(test, ast.UnaryOp) and isinstance(test.op, ast.Not):
        v = _eval_for_nan(test.operand, names)
        return None if v is None else (not v)
    if isinstance(test, ast.BoolOp):
        vals = [_eval_for_nan(v, names) for v in test.values]
        if isinstance(test.op, ast.And):
            return False if any(v is False for v in vals) else (True if all(v is True for v in vals) else None)
        return True if any(v is True for v in vals) else (False if all(v is False for v in vals) else None)
    if isinstance(test, ast.Compare):
        left = test.left
        res = None
        for op, right in zip(test.ops, test.comparators):
            if any(isinstance(x, ast.Name) and x.id in names for x in (left, right)):
                if isinstance(op, (ast.Lt, ast.LtE, ast.Gt, ast.GtE, ast.Eq)):
                    return False          # one false link makes the chain false
                if isinstance(op, ast.NotEq):
                    res = True if res is None else res
            left = right
        return res
    return None


def _nan_free_names(m, cname, f, p):
    """locals of validate() that can not hold a NaN: results of `self(<value>)` when the conversion of the class returns an
    integer on every path (int() of a NaN raises, the integers are totally ordered: either form of the range test is exact);
    the parameter itself when it is re-bound that way by a top level statement before any test"""
    conv = m.method(f'{DT}.{cname}', '__call__', inherited=False)
    rets = [n for n in body_walk(conv.node) if isinstance(n, ast.Return)]
    rd = ReachingDefs(_CFG(conv.node, m, conv.module), conv.node)

    def is_int(r):
        e = r.value
        if isinstance(e, ast.Name):
            defs = rd.at(r, e.id)
            return bool(defs) and all(how == 'assign' and isinstance(v, ast.Call) and dotted(v.func) == 'int' for v, st, how in defs)
        return isinstance(e, ast.Call) and dotted(e.func) == 'int'
    if not rets or not all(r.value is not None and is_int(r) for r in rets):
        return set()
    res = set()
    for i, st in enumerate(f.node.body):
        if isinstance(st, ast.If):
            break
        if isinstance(st, ast.Assign) and len(st.targets) == 1 and isinstance(st.targets[0], ast.Name) and isinstance(st.value, ast.Call) \
                and src(st.value.func) == 'self' and len(st.value.args) == 1 and src(st.value.args[0]) == p:
            res.add(st.targets[0].id)
    # other bindings of those names spoil the claim
    for x in body_walk(f.node):
        if isinstance(x, (ast.Assign, ast.AugAssign)):
            for t in (x.targets if isinstance(x, ast.Assign) else [x.target]):
                if isinstance(t, ast.Name) and t.id in res and not (isinstance(x, ast.Assign) and isinstance(x.value, ast.Call) and src(x.value.func) == 'self'):
                    res.discard(t.id)
    return res


@rule('C01.R9', min_instances=3)
def range_test_is_nan_safe(ctx):
    """validate() of the numeric types can not return for a NaN: the method is walked with the offered value assumed to be NaN
    (every comparison with it is false, through `not`, `and`, `or` and either branch order) - no `return <value>` may be
    reachable.  The accepting form `if lo <= v <= hi: return` is safe, the rejecting form `if v < lo or v > hi: raise` is not"""
    m = ctx.m
    for cname in ('FloatRange', 'IntRange', 'ScaledInteger'):
        f = m.method(f'{DT}.{cname}', 'validate', inherited=False)
        ctx.analysed(f)
        cfg = _CFG(f.node, m, f.module)
        p = f.node.args.args[1].arg
        rets = [n for n in body_walk(f.node) if isinstance(n, ast.Return) and n.value is not None]
        if not rets:
            raise AnchorMissing(f'no return in {cname}.validate')
        names = {p} | {x.targets[0].id for x in body_walk(f.node) if isinstance(x, ast.Assign) and isinstance(x.targets[0], ast.Name)
                       and any(isinstance(y, ast.Name) and y.id == p for y in ast.walk(x.value)) and not isinstance(x.value, ast.BoolOp)
                       and not any(isinstance(y, ast.Compare) for y in ast.walk(x.value))}
        nan_free = _nan_free_names(m, cname, f, p)
        names -= nan_free
        seen, stack = set(), [cfg.entry]
        while stack:
            n = stack.pop()
            if n in seen:
                continue
            seen.add(n)
            node = cfg.nodes[n]
            known = _eval_for_nan(node.ast, names) if node.kind == 'test' and names else None
            for b_, lab in cfg.succ[n]:
                if known is True and lab == 'F':
                    continue
                if known is False and lab == 'T':
                    continue
                stack.append(b_)
        for r in rets:
            if isinstance(r.value, ast.Name) and r.value.id in nan_free:
                ctx.ok(f'{f.qualname}:value returned only on the accepting branch', r,
                       f'`{r.value.id}` is the result of a conversion that returns int(...) on every path: it is never a NaN', f)
                continue
            reached = bool(set(cfg.ids(r)) & seen)
            ctx.check(not reached, f'{f.qualname}:value returned only on the accepting branch', r,
                      'with NaN offered, no path reaches this return',
                      f'`{src(r)}` is reached when every comparison with the value is false: for NaN (the JSON token NaN is accepted by the decoder) '
                      'the range test does not refuse, so NaN is returned as a valid value of the range', f)


@rule('C01.R7c', min_instances=1)
def limits_tested_by_comparison(ctx):
    """cross-cutting: limit properties (min, max, minlen ...) are never tested by their truth value in datatypes.py"""
    from sa.rules import common
    common.truthiness_on_value_slots(ctx, {'frappy.datatypes'})


@rule('C01.R7d', min_instances=1)
def struct_optional_none_vs_empty(ctx):
    """StructOf.__init__: optional=None means 'all members optional', an (exported and rebuilt) empty list means 'none'"""
    m = ctx.m
    f = m.method(f'{DT}.StructOf', '__init__', inherited=False)
    ctx.analysed(f)
    stores = [(t, v, s) for t, v, s in attr_stores(f.node) if t.attr == 'optional' and dotted(t.value) == 'self']
    if not stores:
        raise AnchorMissing('store of self.optional not found in StructOf.__init__')
    for t, v, s in stores:
        truthy = any(isinstance(x, ast.BoolOp) and any(isinstance(y, ast.Name) and y.id == 'optional' for y in x.values) for x in ast.walk(v)) or \
            any(isinstance(x, ast.IfExp) and src(x.test) in ('optional', 'not optional') for x in ast.walk(v))
        ident = any(isinstance(x, ast.IfExp) and 'optional is' in src(x.test) for x in ast.walk(v)) or \
            any(isinstance(a, ast.If) and 'optional is' in src(a.test) for a in ancestors(s))
        if truthy:
            ctx.bad(f'{f.qualname}:optional=None vs []', s, f'`{src(s)}` decides by the truth value of `optional`: an explicitly empty list (which '
                    'export_datatype emits and get_datatype passes back) makes every member optional - structs lacking mandatory members validate', f)
        elif ident:
            ctx.ok(f'{f.qualname}:optional=None vs []', s, 'None is tested by identity', f)
        else:
            ctx.undecided(f'{f.qualname}:optional=None vs []', s, 'form not recognised', f)


def _nan_dropping(expr, valuenames):
    """a builtin min()/max() call (possibly nested) that has one of valuenames among its operands: for a NaN the result
    depends on the argument order and is one of the OTHER operands - the NaN silently becomes a number"""
    # (builtin min / max keep their FIRST argument unless a later one compares smaller / larger: a NaN in first position
    # survives - `min(value, fmax)` -, in any later position it is dropped - `min(fmax, value)`)
    for n in ast.walk(expr):
        if isinstance(n, ast.Call) and isinstance(n.func, ast.Name) and n.func.id in ('min', 'max') and len(n.args) >= 2 and not n.keywords:
            for i, a in enumerate(n.args):
                if any(isinstance(x, ast.Name) and x.id in valuenames for x in ast.walk(a)):
                    if i == 0 and isinstance(a, ast.Name):
                        continue
                    return n
    return None


@rule('C01.R10', min_instances=2)
def nan_is_never_turned_into_a_number(ctx):
    """the conversion of a double (FloatRange.__call__ and the clamp helper it ends in) hands a NaN through unchanged, so
    that the range comparison of validate refuses it: clamp is the median by sorting (comparisons with NaN are false, the
    NaN stays in the middle); a clamp built from min()/max() returns one of the limits instead"""
    m = ctx.m
    cl = m.func('frappy.lib.clamp')
    ctx.analysed(cl)
    params = [a.arg for a in cl.node.args.args]
    if len(params) != 3:
        raise AnchorMissing('clamp(min, value, max) with three parameters not found')
    vname = {params[1]}
    rets = [n for n in body_walk(cl.node) if isinstance(n, ast.Return) and n.value is not None]
    if not rets:
        raise AnchorMissing('clamp has no return', violation=f'{cl.qualname}:NaN handed through')
    nan_test = any(isinstance(n, ast.Compare) and len(n.ops) == 1 and isinstance(n.ops[0], ast.NotEq) and src(n.left) == src(n.comparators[0])
                   for n in body_walk(cl.node)) or any(call_attr(c) == 'isnan' for c in calls_in(cl.node))
    # a clamp written with comparisons: walked with the value assumed to be NaN (every ordering comparison with it is false) -
    # every return that is reached hands the value itself back
    has_cmp = any(t_.kind == 'test' and any(isinstance(x, ast.Compare) and names_in(x) & vname for x in ast.walk(t_.ast))
                  for t_ in _CFG(cl.node, m, cl.module).nodes)
    if has_cmp and not any(isinstance(x, ast.Call) and dotted(x.func) == 'sorted' for x in ast.walk(cl.node)):
        ccfg = _CFG(cl.node, m, cl.module)
        seen, stack = set(), [ccfg.entry]
        while stack:
            nid = stack.pop()
            if nid in seen:
                continue
            seen.add(nid)
            node = ccfg.nodes[nid]
            known = _eval_for_nan(node.ast, vname) if node.kind == 'test' else None
            for b_, lab in ccfg.succ[nid]:
                if (known is True and lab == 'F') or (known is False and lab == 'T') or lab == 'exc':
                    continue
                stack.append(b_)
        for r in rets:
            if not (set(ccfg.ids(r)) & seen):
                continue
            own = isinstance(r.value, ast.Name) and r.value.id in vname
            cond_own = isinstance(r.value, ast.IfExp) and all(isinstance(x, ast.Name) and x.id in vname for x in (r.value.body, r.value.orelse))
            ctx.check(own or cond_own, f'{cl.qualname}:NaN handed through', r, 'with NaN offered only `return <value>` is reached',
                      f'`{src(r)}` is reached when every comparison with the value is false: clamp() turns a NaN into one of the limits; FloatRange.__call__ ends in '
                      'clamp(-float_max, value, float_max) and validate then accepts the result - a NaN from the wire or from a driver becomes +-1.8e308 instead of '
                      'a RangeError', cl)
        rets = []
    for r in rets:
        v = r.value
        exprs = origins(v, cl.node) if isinstance(v, ast.Name) else [v]
        for e in exprs:
            median = isinstance(e, ast.Subscript) and isinstance(e.value, ast.Call) and dotted(e.value.func) == 'sorted' and \
                isinstance(e.slice, ast.Constant) and e.slice.value == 1
            drop = _nan_dropping(e, vname)
            if median:
                ctx.ok(f'{cl.qualname}:NaN handed through', r, 'median by sorted(): a NaN in the middle position stays there', cl)
            elif drop is not None and not nan_test:
                ctx.bad(f'{cl.qualname}:NaN handed through', r, f'`{src(drop)}`: for a NaN the builtin returns another operand, so clamp() turns '
                        'NaN into one of the limits; FloatRange.__call__ ends in clamp(-float_max, value, float_max) and validate then accepts the '
                        'result: a NaN from the wire or from a driver becomes -1.8e308 instead of a RangeError', cl)
            else:
                ctx.undecided(f'{cl.qualname}:NaN handed through', r, f'clamp form `{src(e)}` not classified', cl)
    f = m.method(f'{DT}.FloatRange', '__call__', inherited=False)
    ctx.analysed(f)
    p = f.node.args.args[1].arg
    for r in [n for n in body_walk(f.node) if isinstance(n, ast.Return) and n.value is not None]:
        drop = _nan_dropping(r.value, {p})
        if drop is not None:
            ctx.bad(f'{f.qualname}:NaN handed through', r, f'`{src(drop)}` turns a NaN into one of the bounds: validate accepts it', f)
        elif isinstance(r.value, ast.Call) and dotted(r.value.func) == 'clamp':
            ctx.ok(f'{f.qualname}:NaN handed through', r, 'ends in clamp(), decided above', f)
        else:
            ctx.info(f'{f.qualname}:NaN handed through', r, f'returns `{src(r.value)}`', f)


LEN_PROPS = {'StringType': ('minchars', 'maxchars'), 'BLOBType': ('minbytes', 'maxbytes'), 'ArrayOf': ('minlen', 'maxlen')}


def _limit_attr(side, f, props):
    """the `self.<limit>` attribute a comparison operand stands for: the attribute itself, or a local bound once to it /
    to the attribute with a neutral replacement for a missing limit (`self.minlen or 0`, `X if self.maxlen is None else self.maxlen`)"""
    e = resolved(side, f.node) if isinstance(side, ast.Name) else side
    if isinstance(e, ast.BoolOp):
        cands = e.values
    elif isinstance(e, ast.IfExp):
        cands = [e.body, e.orelse]
    else:
        cands = [e]
    hits = [c for c in cands if isinstance(c, ast.Attribute) and dotted(c.value) == 'self' and c.attr in props]
    if len(hits) == 1 and all(c is hits[0] or isinstance(c, (ast.Constant, ast.Name, ast.Attribute)) for c in cands):
        return hits[0]
    return None


@rule('C01.R7e', min_instances=6)
def length_is_measured_on_the_value(ctx):
    """the quantity compared with minchars/maxchars, minbytes/maxbytes, minlen/maxlen is len() of the offered value itself
    (character points of a string, bytes of a blob, elements of an array), not of a transformed copy (e.g. the encoded
    bytes of a string)"""
    m = ctx.m
    for cname, props in LEN_PROPS.items():
        ci, res = _analyse_class(m, cname)
        for meth in ('__call__', 'validate', 'check_type'):
            ma = res.get(meth)
            if ma is None or not ma.param:
                continue
            f = ma.f
            for n in body_walk(f.node):
                if not (isinstance(n, ast.Compare) and len(n.ops) == 1 and isinstance(n.ops[0], (ast.Lt, ast.LtE, ast.Gt, ast.GtE))):
                    continue
                sides = [n.left, n.comparators[0]]
                lim = [(s, a) for s in sides for a in [_limit_attr(s, f, props)] if a is not None]
                if len(lim) != 1:
                    continue
                other = sides[1] if lim[0][0] is sides[0] else sides[0]
                lim = [lim[0][1]]
                ctx.analysed(f)
                for e in (origins(other, f.node) if isinstance(other, ast.Name) else [other]):
                    key = f'{f.qualname}:{lim[0].attr} compared with the length of the value'
                    if isinstance(e, ast.Call) and dotted(e.func) == 'len' and len(e.args) == 1:
                        a = e.args[0]
                        if isinstance(a, ast.Name):
                            ctx.ok(key, n, f'`{src(e)}`', f)
                        elif any(isinstance(x, ast.Call) and call_attr(x) in ('encode', 'decode', 'strip', 'lstrip', 'rstrip', 'split', 'replace', 'hex')
                                 for x in ast.walk(a)):
                            ctx.bad(key, n, f'`{src(e)}` measures a transformed copy of the value: the declared limit counts '
                                    f'{"character points" if "chars" in lim[0].attr else "elements"} of the value itself - e.g. a non-ASCII string '
                                    'whose UTF-8 encoding is longer than its character count is accepted below minchars / refused within maxchars', f)
                        else:
                            ctx.undecided(key, n, f'`{src(e)}`: argument of len() not classified', f)
                    else:
                        ctx.undecided(key, n, f'compared quantity `{src(e)}` is not a len() call', f)


# ---------------------------------------------------------------------------------------------------------------------
# refusal sites: every reason the property gives for refusing a value has a test whose refusing side ALWAYS raises
# (the mutation analysis of the checker showed that a deleted `raise` under an intact test went unnoticed)

LOWER = {'min', 'minlen', 'minchars', 'minbytes'}
UPPER = {'max', 'maxlen', 'maxchars', 'maxbytes'}
DISCRETE = {'minlen', 'maxlen', 'minchars', 'maxchars', 'minbytes', 'maxbytes'}


def _side_never_completes(cfg, tid, label):
    """no normal exit of the function is reachable from the `label` side of test tid without raising"""
    return side_never_completes(cfg, tid, label)


def _limit_comparisons(test, props):
    """[(prop, kind, strict)] for the comparisons of `test` with self.<prop>; kind = 'violating' | 'accepting'"""
    out = []
    subs = [test] if isinstance(test, (ast.Compare, ast.UnaryOp)) else []
    if isinstance(test, ast.BoolOp):
        subs = list(test.values)
    for sub in subs:
        for l, op, r in compare_ops(sub):
            if op not in ('<', '<='):
                continue
            for prop in props:
                me = f'self.{prop}'
                lim_left = l == me or l.startswith(me + ' ') or l.endswith(' ' + me) or me in l.replace('(', ' ').replace(')', ' ').split()
                lim_right = r == me or me in r.replace('(', ' ').replace(')', ' ').split()
                if lim_left == lim_right:
                    continue
                # normalised: l op r  (op in <, <=)
                if prop in LOWER:
                    kind = 'accepting' if lim_left else 'violating'      # L <= X accepts ; X < L violates
                else:
                    kind = 'violating' if lim_left else 'accepting'      # U < X violates ; X <= U accepts
                out.append(_LC((prop, kind, op == '<'), (l if lim_left else r) == me))
    return out


class _LC(tuple):
    """(prop, kind, strict) with .exact = the limit is compared as it is (no tolerance arithmetic around it)"""
    def __new__(cls, t, exact):
        o = super().__new__(cls, t)
        o.exact = exact
        return o


@rule('C01.R11', min_instances=12)
def refusing_side_of_every_limit_test_raises(ctx):
    """for every comparison with a declared limit (min/max, minlen/maxlen, minchars/maxchars, minbytes/maxbytes) on the
    validation path: the side on which the limit is violated never completes normally (it raises), and for the discrete
    length limits the comparison has the right strictness (limits are inclusive: `size > max` refuses, `size >= max` would
    refuse a value of exactly the declared length)"""
    m = ctx.m
    done = set()
    for cname in CLASSES:
        ci, res = _analyse_class(m, cname)
        props = {a for q in m.mro(ci.qualname) for a, e in (m.classes[q].assigns.items() if q in m.classes else [])
                 if a in LIMIT_PROPS and isinstance(e, ast.Call) and dotted(e.func) == 'Property'}
        if not props:
            continue
        for meth in ('__call__', 'validate', 'check_type'):
            ma = res.get(meth)
            if ma is None or ma.f.qualname in done:
                continue
            done.add(ma.f.qualname)
            cfg = ma.cfg
            for t in cfg.nodes:
                if t.kind != 'test':
                    continue
                cmps = _limit_comparisons(resolved(t.ast, ma.f.node) if isinstance(t.ast, ast.expr) else t.ast, props)
                if not cmps:
                    continue
                ctx.analysed(ma.f)
                kinds = {k for p, k, s in cmps}
                names = '/'.join(sorted({p for p, k, s in cmps}))
                key = f'{ma.f.qualname}:violating side of the {names} test raises'
                if len(kinds) != 1:
                    ctx.undecided(key, t.ast, f'`{src(t.ast)}` mixes accepting and violating comparisons', ma.f)
                    continue
                label = 'T' if kinds == {'violating'} else 'F'
                # the violating side raises - or reaches a normal exit only through the accepting side of ANOTHER test of the same
                # limit (a fast path on the exact limits followed by the test with the resolution tolerance)
                pset = {p for p, k, s in cmps}
                fnode = ma.f.node

                def accepted_later(a, tv, pset=pset, fnode=fnode, me=t.ast):
                    if a is me:
                        return False
                    lcs = _limit_comparisons(resolved(a, fnode), pset)
                    return bool(lcs) and all((k == 'accepting') == tv for p, k, s in lcs)
                first = [b for b, lab in cfg.succ[t.id] if lab == label]
                ok11 = _side_never_completes(cfg, t.id, label) or \
                    (bool(first) and cfg.exit not in first and paths_need_fact(cfg, first, [cfg.exit], accepted_later))
                ctx.check(ok11, key, t.ast, f'`{src(t.ast)}`: the {label} side ends in a raise',
                          f'`{src(t.ast)}`: on the side where the limit is violated the method goes on and returns normally - '
                          f'a value outside the declared {names} is accepted', ma.f)
                # `self.maxlen is not None and len(value) > self.maxlen`: a None-guard of the limit has to let the comparison
                # through when there IS a limit (`self.maxlen is None and ...` never compares - or fails with a TypeError)
                if isinstance(t.ast, ast.BoolOp) and isinstance(t.ast.op, ast.And):
                    for v in t.ast.values:
                        for l, op, r in compare_ops(v):
                            if op == 'is' and r == 'None' and any(l == f'self.{p}' for p, k, s in cmps):
                                ctx.bad(f'{ma.f.qualname}:None-guard of {l} lets the comparison through', t.ast,
                                        f'`{src(t.ast)}` compares with {l} only when it is None: the declared limit is never enforced', ma.f)
                for lc in cmps:
                    p, k, strict = lc
                    if p in DISCRETE or (lc.exact and cname == 'IntRange'):
                        right = strict if k == 'violating' else not strict
                        ctx.check(right, f'{ma.f.qualname}:{p} is inclusive', t.ast, f'`{src(t.ast)}`',
                                  f'`{src(t.ast)}` has the wrong strictness for the inclusive limit {p}: a value of exactly the declared length is refused '
                                  '(or one element beyond it accepted)', ma.f)


@rule('C01.R11b', min_instances=1)
def range_membership_has_inclusive_bounds(ctx):
    """a declared length limit tested as `size in range(lo, hi)`: range() excludes its stop, the declared limits are inclusive -
    lo is the lower limit itself and hi the upper limit plus one"""
    m = ctx.m
    n = 0
    for q, fi in sorted(m.functions.items()):
        if fi.module.name != DT or fi.cls is None:
            continue
        for c in [x for x in body_walk(fi.node) if isinstance(x, ast.Compare) and len(x.ops) == 1 and isinstance(x.ops[0], (ast.In, ast.NotIn))
                  and isinstance(x.comparators[0], ast.Call) and dotted(x.comparators[0].func) == 'range' and len(x.comparators[0].args) == 2]:
            lo, hi = (resolved(a, fi.node) for a in c.comparators[0].args)
            lims = [x for x in ast.walk(c.comparators[0]) if isinstance(x, ast.Attribute) and x.attr in DISCRETE and dotted(x.value) == 'self']
            if not lims:
                continue
            n += 1
            ctx.analysed(fi)
            lo_ok = isinstance(lo, ast.Attribute) and lo.attr in LOWER
            hi_ok = isinstance(hi, ast.BinOp) and isinstance(hi.op, ast.Add) and \
                ((isinstance(hi.left, ast.Attribute) and hi.left.attr in UPPER and isinstance(hi.right, ast.Constant) and hi.right.value == 1) or
                 (isinstance(hi.right, ast.Attribute) and hi.right.attr in UPPER and isinstance(hi.left, ast.Constant) and hi.left.value == 1))
            key = f'{fi.qualname}:range() test covers the inclusive limits'
            if isinstance(hi, ast.Attribute) and hi.attr in UPPER:
                ctx.bad(key, c, f'`{src(c)}`: range() excludes its stop - a value of exactly the declared `{hi.attr}` is refused although the description allows it', fi)
            elif lo_ok and hi_ok:
                ctx.ok(key, c, 'range(lower, upper + 1)', fi)
            else:
                ctx.undecided(key, c, f'bounds `{src(lo)}`, `{src(hi)}` not recognised', fi)
    if not n:
        ctx.ok('no range() membership test on a declared limit', None, 'the limits are compared directly (C01.R11)')


@rule('C01.R12', min_instances=12)
def validation_never_falls_off_the_end(ctx):
    """__call__ / validate / import_value return the validated value on every normal exit: no path reaches the end of the
    function without a `return <value>` (a handler that forgets to re-raise, a deleted return) - the caller would receive
    None for a refused or even for an accepted value"""
    m = ctx.m
    done = set()
    for cname in CLASSES:
        ci, res = _analyse_class(m, cname)
        for meth in ('__call__', 'validate', 'import_value'):
            ma = res.get(meth)
            if ma is None or ma.f.qualname in done:
                continue
            done.add(ma.f.qualname)
            f, cfg = ma.f, ma.cfg
            ctx.analysed(f)
            bad = can_end_without_value(cfg, f.node)
            ctx.check(not bad, f'{f.qualname}:every normal exit returns a value', f.node,
                      'all normal exits are `return <value>`',
                      f'a normal exit of {f.name} is reachable without a `return <value>`: '
                      'the caller gets None instead of a validated value or a bad-value error', f)


@rule('C01.R13', min_instances=6)
def structural_refusals(ctx):
    """refusals that are not limit comparisons: tuple arity, superfluous and missing struct members, non-ASCII text in an
    ASCII string type, an embedded NUL, a non-integral transport value of a scaled integer, the error class chosen for a
    failing member - each has a test whose refusing side always raises"""
    m = ctx.m
    # -- tuple arity
    ci, res = _analyse_class(m, 'TupleOf')
    ma = res.get('check_type')
    if ma is None:
        raise AnchorMissing('TupleOf.check_type not found')
    f, cfg, p = ma.f, ma.cfg, ma.param
    ctx.analysed(f)
    found = False
    want = {f'len({p})', 'len(self.members)'}
    for t in cfg.nodes:
        if t.kind != 'test':
            continue
        for truth, label in ((True, 'T'), (False, 'F')):
            for atom, tv in facts_on_side(t.ast, truth):
                exprs = [o for o in origins(atom, f.node)] if isinstance(atom, ast.Name) else [atom]
                for e in exprs:
                    re_ = resolved(e, f.node)
                    if isinstance(re_, ast.BinOp) and isinstance(re_.op, ast.Sub) and {src(re_.left), src(re_.right)} == want and tv:
                        # `surplus = len(value) - len(self.members)` ... `if surplus:` - truthy means unequal
                        found = True
                        ctx.check(_side_never_completes(cfg, t.id, label), f'{f.qualname}:wrong arity is refused', t.ast,
                                  'the unequal side raises', f'`{src(t.ast)}`: a tuple with the wrong number of elements passes check_type (zip() then truncates silently)', f)
                    for l, op, r in compare_ops(re_):
                        if op in ('==', '!=') and {l, r} == want and (op == '==') != tv:
                            # on this side the lengths differ
                            found = True
                            ctx.check(_side_never_completes(cfg, t.id, label), f'{f.qualname}:wrong arity is refused', t.ast,
                                      'the unequal side raises', f'`{src(t.ast)}`: a tuple with the wrong number of elements passes check_type (zip() then truncates silently)', f)
    if not found:
        ctx.bad(f'{f.qualname}:wrong arity is refused', f.node, f'no comparison of len({p}) with len(self.members): tuples of any arity pass check_type', f)
    # -- struct members
    ci, res = _analyse_class(m, 'StructOf')
    ma = res.get('check_type')
    if ma is None:
        raise AnchorMissing('StructOf.check_type not found')
    f, cfg, p = ma.f, ma.cfg, ma.param
    ctx.analysed(f)
    diffs = {}
    for n in body_walk(f.node):
        is_sub = isinstance(n, ast.Assign) and isinstance(n.targets[0], ast.Name) and isinstance(n.value, ast.BinOp) and isinstance(n.value.op, ast.Sub)
        is_diff = isinstance(n, ast.Assign) and isinstance(n.targets[0], ast.Name) and isinstance(n.value, ast.Call) and call_attr(n.value) == 'difference' \
            and len(n.value.args) == 1 and not n.value.keywords          # `given.difference(self.members)` reads `given - self.members`
        if is_sub or is_diff:
            def txt(e, f=f):
                return ' '.join(src(o) for o in (origins(e, f.node) if isinstance(e, ast.Name) else [e]))
            lv, rv = (txt(n.value.left), txt(n.value.right)) if is_sub else (txt(n.value.func.value), txt(n.value.args[0]))
            pv = [x for x in (f'({p})', f' {p} ', f'({p}.') ]
            has_p = lambda s_: any(x in f' {s_} ' for x in pv) or s_ == p   # noqa: E731
            if has_p(lv) and 'self.members' in rv:
                diffs['superfluous'] = n.targets[0].id
            elif 'self.members' in lv and has_p(rv):
                diffs['missing'] = n.targets[0].id
    for what in ('superfluous', 'missing'):
        name = diffs.get(what)
        key = f'{f.qualname}:{what} members are refused'
        if name is None:
            ctx.bad(key, f.node, f'the set difference for {what} struct members is not computed in check_type', f)
            continue
        tests = [t for t in cfg.nodes if t.kind == 'test' and any(isinstance(x, ast.Name) and x.id == name for x in ast.walk(t.ast))]
        ok = bool(tests)
        for t in tests:
            # the side on which the set (or an expression of it) is non-empty / truthy
            sides = [label for truth, label in ((True, 'T'), (False, 'F')) for atom, tv in facts_on_side(t.ast, truth)
                     if tv and any(isinstance(x, ast.Name) and x.id == name for x in ast.walk(atom))]
            ok = ok and bool(sides) and all(_side_never_completes(cfg, t.id, lab) for lab in sides)
        ctx.check(ok, key, tests[0].ast if tests else f.node, f'`if {name}:` always raises',
                  f'a struct with {what} members passes check_type: ' + ('unknown keys are dropped silently' if what == 'superfluous' else
                                                                        'an incomplete struct is returned as valid'), f)
    # -- ASCII-only strings and embedded NUL
    ci, res = _analyse_class(m, 'StringType')
    ma = res.get('__call__')
    f, cfg, p = ma.f, ma.cfg, ma.param
    ctx.analysed(f)
    enc = [c for c in calls_in(f.node) if (call_attr(c) == 'encode' and c.args and isinstance(c.args[0], ast.Constant) and c.args[0].value == 'ascii')
           or call_attr(c) == 'isascii']
    key = f'{f.qualname}:non-ASCII text is refused unless isUTF8'
    if not enc:
        ctx.bad(key, f.node, "no `.encode('ascii')` / `.isascii()` probe of the value: an ASCII-only string type accepts any text", f)
    for c in enc:
        guards = [t for t in cfg.nodes if t.kind == 'test' and 'self.isUTF8' in src(t.ast)]
        ids = set(cfg.node_of(c))
        right_side = False
        for t in guards:
            neg = isinstance(t.ast, ast.UnaryOp) and isinstance(t.ast.op, ast.Not)
            ascii_label = 'T' if neg else 'F'           # the side on which isUTF8 is false
            other = 'F' if neg else 'T'
            if ids <= cfg.reach([t.id], labels={ascii_label}, avoid=[t.id]) and not (ids & cfg.reach([t.id], labels={other}, avoid=[t.id])):
                right_side = True
        if call_attr(c) == 'encode':
            h = covering_handler(c, [UnicodeEncodeError], f.module)
            refuses = h is not None and contains_raise(h.body)
        else:
            refuses = True
            # the probe as part of a condition (`if self.isUTF8 or value.isascii():`): decided by walking the method with the two
            # conditions fixed - ASCII-only type and non-ASCII text never completes, a UTF-8 type with non-ASCII text can
            probe = src(c)
            dead = cfg.exit not in reach_with_flags(cfg, [cfg.entry], env={'self.isUTF8': False, probe: False})
            alive = cfg.exit in reach_with_flags(cfg, [cfg.entry], env={'self.isUTF8': True, probe: False})
            if dead and alive:
                right_side = True
        ctx.check(right_side and refuses, key, c, 'probed exactly when isUTF8 is false, the failure raises a bad-value error',
                  f'`{src(c)}`: ' + ('the ASCII probe does not run exactly on the `not self.isUTF8` side' if not right_side else
                                     'a failing probe does not end in a raise') + ': an ASCII-only type accepts non-ASCII text (or a UTF-8 type refuses it)', f)
    nul = [(t, op) for t in cfg.nodes if t.kind == 'test' for l, op, r in compare_ops(t.ast) if op in ('in', 'notin') and l in ("'\\x00'", "'\\0'") and r == p]
    ctx.check(bool(nul) and all(_side_never_completes(cfg, t.id, 'T' if op == 'in' else 'F') for t, op in nul), f'{f.qualname}:embedded NUL is refused', nul[0][0].ast if nul else f.node,
              "`'\\0' in value` always raises", 'a string with an embedded NUL character is accepted', f)
    # -- integral transport value of a scaled integer
    ci, res = _analyse_class(m, 'ScaledInteger')
    ma = res.get('import_value')
    if ma is not None:
        f, cfg, p = ma.f, ma.cfg, ma.param
        ctx.analysed(f)
        ok = False
        for t in cfg.nodes:
            if t.kind != 'test':
                continue
            for sub in (t.ast.values if isinstance(t.ast, ast.BoolOp) else [t.ast]):
                for l, op, r in compare_ops(sub):
                    if op in ('!=', '==') and p in (l, r):
                        other = r if l == p else l
                        o = origins(ast.parse(other, mode='eval').body, f.node) if other.isidentifier() else []
                        from_int = other.startswith('int(') or any(isinstance(x, ast.Call) and dotted(x.func) == 'int' for x in o)
                        if from_int and _side_never_completes(cfg, t.id, 'T' if op == '!=' else 'F'):
                            ok = True
                        elif from_int:
                            # single exit with a result variable: `result = None` in front, bound only on the integral side, `if result is
                            # None: raise` at the end - walked with the bindings that are in force at the test
                            env = {}
                            for st in f.node.body:
                                if st.lineno >= t.ast.lineno:
                                    break
                                if isinstance(st, ast.Assign) and len(st.targets) == 1 and isinstance(st.targets[0], ast.Name) and isinstance(st.value, ast.Constant) \
                                        and st.value.value is None:
                                    nm = st.targets[0].id
                                    rebound = any(isinstance(x, ast.Name) and x.id == nm and isinstance(x.ctx, ast.Store) and st.lineno < x.lineno < t.ast.lineno
                                                  for x in body_walk(f.node))
                                    if not rebound:
                                        env[nm] = False
                                        env[f'{nm} is None'] = True
                            if env:
                                side = [b for b, lab in cfg.succ[t.id] if lab == ('T' if op == '!=' else 'F')]
                                reach = reach_with_flags(cfg, side, avoid=[], env=env)
                                rets = {i for x in body_walk(f.node) if isinstance(x, ast.Return) and x.value is not None for i in cfg.ids(x)}
                                if side:
                                    ok = not (rets & reach)
        ctx.check(ok, f'{f.qualname}:non-integral transport value is refused', f.node, 'int(value) != value raises',
                  'the transported value of a scaled integer is not compared with its integer conversion (or the unequal side does not raise): '
                  'a fraction or a numeric string from the wire is accepted and scaled', f)
    # -- error class of a failing member: RangeError stays RangeError
    for cname in ('ArrayOf', 'TupleOf', 'StructOf'):
        ci, res = _analyse_class(m, cname)
        for meth, ma in res.items():
            for n in body_walk(ma.f.node):
                if isinstance(n, ast.IfExp) and isinstance(n.test, ast.Call) and dotted(n.test.func) == 'isinstance' and len(n.test.args) == 2:
                    cls = dotted(n.test.args[1])
                    if cls in ('RangeError', 'WrongTypeError'):
                        ctx.check(dotted(n.body) == cls, f'{ma.f.qualname}:a failing member keeps its error class', n, f'`{src(n)}`',
                                  f'`{src(n)}` selects {dotted(n.body)} when the member raised {cls}: out-of-range elements are reported as wrong type and vice versa', ma.f)
    # -- IntRange returns the int() conversion, clamp is not the identity
    ci, res = _analyse_class(m, 'IntRange')
    ma = res.get('__call__')
    f = ma.f
    for r in [n for n in body_walk(f.node) if isinstance(n, ast.Return) and n.value is not None and not _in_lazy_branch(n)]:
        o = origins(r.value, f.node) if isinstance(r.value, ast.Name) else [r.value]
        ok = any(isinstance(x, ast.Call) and dotted(x.func) == 'int' for x in o)
        ctx.check(ok, f'{f.qualname}:returns an int', r, 'the returned value is the result of int()',
                  f'`{src(r)}` returns {[src(x) for x in o]}, not an int() conversion: a whole float (3.0) offered to an integer type stays a float '
                  '(and is exported as a JSON number with a fraction part)', f)
    cl = m.func('frappy.lib.clamp')
    for r in [n for n in body_walk(cl.node) if isinstance(n, ast.Return) and n.value is not None]:
        v = r.value
        if isinstance(v, ast.Subscript) and isinstance(v.value, (ast.List, ast.Tuple)):
            ctx.bad(f'{cl.qualname}:is a clamp', r, f'`{src(v)}` indexes the unsorted triple: clamp() returns the value unchanged, infinities and values '
                    'inside the tolerance band are returned outside the limits', cl)
        else:
            ctx.ok(f'{cl.qualname}:is a clamp', r, f'`{src(v)}`', cl)


@rule('C01.R7f', min_instances=3)
def an_upper_limit_of_zero_is_a_given_limit(ctx):
    """the constructors of the sized types (blob, string, array) and the functions of the module they hand their limits to:
    whether an upper limit was GIVEN is asked by identity (`is None`); `upper or lower or default` / `if not maxlen` takes an
    explicit upper limit of 0 (the type that holds only the empty value - what `ArrayOf(x, 0, 0)` and a rebuilt datainfo with
    maxlen 0 ask for) as not given and silently widens the declared value set"""
    m = ctx.m
    UPPER = {'maxbytes', 'maxchars', 'maxlen'}
    n = 0
    todo = []
    for cname in ('BLOBType', 'StringType', 'TextType', 'ArrayOf'):
        ci = m.classes.get(f'{DT}.{cname}')
        f = ci.methods.get('__init__') if ci else None
        if f is not None:
            todo.append((f, {a.arg for a in f.node.args.args} & UPPER))
    seen = set()
    while todo:
        f, names = todo.pop()
        if (f.qualname, tuple(sorted(names))) in seen or not names:
            continue
        seen.add((f.qualname, tuple(sorted(names))))
        n += 1
        ctx.analysed(f)
        hits = []
        for x in body_walk(f.node, into_lambda=True):
            if isinstance(x, ast.BoolOp) and any(isinstance(v, ast.Name) and v.id in names for v in x.values[:-1] if isinstance(x.op, ast.Or)):
                hits.append(x)
            if isinstance(x, (ast.If, ast.IfExp, ast.While)):
                t = x.test
                while isinstance(t, ast.UnaryOp) and isinstance(t.op, ast.Not):
                    t = t.operand
                if isinstance(t, ast.Name) and t.id in names:
                    hits.append(x.test)
            if isinstance(x, ast.Call) and isinstance(x.func, ast.Name):
                g = m.functions.get(f'{f.module.name}.{x.func.id}')
                if g is not None and g.cls is None:
                    pos = [a.arg for a in g.node.args.args]
                    t2 = {pos[i] for i, a in enumerate(x.args) if i < len(pos) and isinstance(a, ast.Name) and a.id in names}
                    t2 |= {k.arg for k in x.keywords if k.arg in pos and isinstance(k.value, ast.Name) and k.value.id in names}
                    if t2:
                        todo.append((g, t2))
        ctx.check(not hits, f'{f.qualname}:an upper limit is tested by identity', hits[0] if hits else f.node, f'{sorted(names)} are never truth tested',
                  f'`{src(hits[0]) if hits else ""}` decides by the truth value of an upper limit: an explicit 0 counts as "not given" and is replaced - a type declared to hold only '
                  'the empty value accepts (and returns) non-empty ones', f)
    if n < 3:
        raise AnchorMissing('constructors of the sized datatypes not found')


@rule('C01.R7g', min_instances=1)
def an_empty_optional_list_is_exported(ctx):
    """shared with C03.R1d / C06.R10: a struct declared with optional=[] states that in its datainfo - when the key is dropped by
    a truth test, the type rebuilt from the description (the client's, and every DataType.copy() of a command argument) takes all
    members as optional and returns structs lacking mandatory members as valid"""
    from sa.rules import c03
    c03.struct_states_an_empty_optional_list(ctx)
